"""srvkit - drive one real aiohttp *server* connection in memory, record what it does.

Reusable by every server-side check (C05 connection life-cycle, C15 static files, C20 shutdown,
C02 round trip).  Nothing here judges anything: it builds, drives, records and splits.

API
---
enable_eager(loop)
    Make `asyncio.Task(..., eager_start=True)` start eagerly under engine.steploop.StepLoop
    exactly as it does on a running selector loop (RequestHandler.start() and the per-request
    handler task are eager on Python >= 3.12).  Without it StepLoop.is_running() is False and the
    tasks start one handle later (the 3.10/3.11 schedule); both are legal, eager is production.

IterLoop(loop)                      iteration-accurate stepping (schedule realism, DESIGN 3.1)
    .at_boundary()                  True between two _run_once iterations
    .io(fn, *args)                  queue an I/O handle (network delivery, peer close, ...) - it is
                                    appended to the ready queue at the iteration boundary, where a
                                    selector loop would put it; `.io_forced` counts uses elsewhere
    .step() -> bool                 run exactly one ready handle
    .finish_iteration()             run the handles left in the current iteration
    .settle(max_steps)              run iterations until nothing is ready (no timers)
    .tick() -> bool                 only when idle: jump virtual time to the next timer

ServerKit(loop, handler=None, *, app=None, mode="server"|"app", handler_cancellation=False,
          middlewares=(), **kw)
    mode="server": web.Server(handler, **kw)         (low level; handler sees pre_handler_error)
    mode="app":    AppRunner(app).setup(); .server   (Application._handle, router, Expect handling)
    kw are RequestHandler keyword arguments (keepalive_timeout, lingering_time, read_bufsize,
    access_log=None by default ...).
    .server  .runner  .app
    .connect(name="c", record=None) -> Conn
    .close()                        runner.cleanup() / server.shutdown() driven to completion

Conn                                one RequestHandler attached to a SrvTransport
    .proto .tr .name .start_task (the start() task, for tear-down only)
    .feed(data) / .eof() / .drop(exc)      immediate transport-level calls (use IterLoop.io to
                                           make them I/O handles)
    .delivered    bytes handed to data_received so far (not those held back while paused)
    .popped       request objects built by start() (Server.request_factory is wrapped): the number
                  of queue entries whose handling has begun
    .written      bytes written by the server so far
    .counters()   dict of observable counters (see below)
    .priv()       dict of private attributes (refinement only; {} if they are gone)
    .sub          list of sub-events since the last take_sub(): "dr:<n>", "w:<n>", "pause",
                  "resume", "close", "lost", "drexc:<Type>", "budget:<what>"
    .runaway      "" or the budget that was exceeded: tr.write_budget (bytes written) and
                  Script.entry_budget (handler entries) force the transport closed so that a
                  server that loops inside one loop step ends as a recorded outcome
    .write_marks  [(offset, tag, delivered)] - tag / bytes delivered when the byte at `offset` was written
                  (set `conn.tag = ...`; Script sets it to the running handler's id)

SrvTransport(MemTransport)
    Adds what the asyncio transport contract does and memnet does not: an exception leaving
    protocol.data_received() is passed to loop.call_exception_handler ("Fatal error:
    protocol.data_received() call failed.") and the transport is force-closed, as
    selector_events._SelectorSocketTransport._read_ready__data_received does.

Script(record=None)                 scripted handlers keyed by request id (header X-Id)
    .plan[id] = {"beh": <name>, ...}       behaviours: ret0 gate read readsome stream httpexc exc
                                           timeout never sleep streamself none;
                                           failure after output started: partial (RuntimeError),
                                           partialto (TimeoutError), partialhx (HTTPException) after
                                           prepare()+write(); prephx / prepto after prepare() only;
                                           bodyfail / bodyfailx: the response body source (async
                                           iterable) raises ConnectionResetError / RuntimeError
                                           after its first chunk
    .exit_info[id]                  {how, wrote, httpexc}: how the handler ended and whether it had
                                    produced output by then
    .handler                        the coroutine function to give to ServerKit / add_route
    .go(id)                         open the gate a `gate`/`stream` handler waits on
    .running                        ids of handlers entered and not exited
    .entered / .exited              lists of ids / (id, how)
    .cancel_all()                   cancel handler tasks still running (tear-down)
    .middleware                     for mode="app": notes the (handler-less) entry of unparsable requests
    Every response produced by a scripted handler carries `X-Id: <id>`.

render_request(id, *, method=None, target=None, body=0, chunked=False, close=False, version="1.1",
               unit=UNIT, extra=()) -> [head, piece, ...]      byte pieces of one request
UNIT                                 one body unit (also unparsable as a request line)
BAD_HEADS / POISON_PARSE / POISON_FACTORY / JUNK     malformed members

split_responses(wire, *, head_ids=(), connect_ids=()) -> [RespRec dict]       independent minimal response framer
    status line, Content-Length / chunked / close-delimited, 1xx/204/304 (and HEAD ids) bodiless,
    2xx to a CONNECT id = tunnel (rest of the wire is tunnel data); fields:
    start hend end complete status minor sl (status line bytes) cl te close ka id fr chunks bodylen
    garbage; fr in none|cl|chunked|close|tunnel.  A status line found where a chunk-size line is
    expected marks the record garbage and the splitter resynchronises there.  A close-delimited response is reported
    complete=False: the caller decides (complete iff the server closed).  The TLA+ monitors
    re-check the arithmetic of these records.
quiet_logger()                       logger that swallows the server's tracebacks (default for ServerKit)

teardown(conn, script, it)           disconnect, cancel handlers, collect loop exception contexts
"""
from __future__ import annotations

import asyncio
import gc
import re
import sys
import threading
from typing import Any, Callable, Dict, List, Optional, Tuple

from .memnet import MemTransport
from .steploop import StepLoop


# ---------------------------------------------------------------- loop helpers
def enable_eager(loop: StepLoop) -> None:
    loop._thread_id = threading.get_ident()  # type: ignore[attr-defined]  # is_running() -> True


class IterLoop:
    """Steps a StepLoop one handle at a time and knows where _run_once boundaries are."""

    def __init__(self, loop: StepLoop) -> None:
        self.loop = loop
        self.remaining = 0          # handles left in the current iteration
        self.io_forced = 0
        self.steps = 0

    def _live(self) -> int:
        return sum(1 for h in self.loop._ready if not h._cancelled)

    def at_boundary(self) -> bool:
        if self.remaining > 0 and self._live() == 0:
            self.remaining = 0
        return self.remaining <= 0

    def io(self, fn: Callable, *args: Any) -> None:
        if not self.at_boundary():
            self.io_forced += 1
        self.loop.call_soon(fn, *args)

    def _begin(self) -> None:
        self.loop._move_due_timers()
        self.remaining = self._live()

    def step(self) -> bool:
        if self.at_boundary():
            self._begin()
        if self.remaining <= 0:
            return False
        ok = self.loop.step_one()
        self.remaining -= 1
        if ok:
            self.steps += 1
        return ok

    def finish_iteration(self) -> int:
        n = 0
        while not self.at_boundary():
            if not self.step():
                break
            n += 1
        return n

    def settle(self, max_steps: int = 100000) -> int:
        n = 0
        while self._live() > 0 or self.remaining > 0:
            if not self.step():
                if self._live() == 0:
                    break
            n += 1
            if n > max_steps:
                raise RuntimeError("IterLoop.settle: step budget exceeded")
        self.remaining = 0
        return n

    def idle(self) -> bool:
        return self._live() == 0

    def tick(self) -> bool:
        if not self.idle():
            return False
        self.remaining = 0
        return self.loop.advance()


_QUIET: Any = None


def quiet_logger() -> Any:
    """A logger that swallows the server's 'Error handling request' tracebacks."""
    global _QUIET
    if _QUIET is None:
        import logging

        _QUIET = logging.getLogger("verif.srvkit.quiet")
        _QUIET.propagate = False
        _QUIET.addHandler(logging.NullHandler())
        _QUIET.setLevel(logging.CRITICAL + 1)
    return _QUIET


# ---------------------------------------------------------------- transport
class SrvTransport(MemTransport):
    def __init__(self, loop: Any, protocol: Any = None, **kw: Any) -> None:
        super().__init__(loop, protocol, **kw)
        self.conn: Optional["Conn"] = None
        self.delivered = 0
        self.write_budget = 1 << 20        # bytes; exceeding it ends the execution (runaway server)

    def _note(self, s: str) -> None:
        if self.conn is not None:
            self.conn.sub.append(s)

    def _deliver(self, data: bytes) -> None:
        self.delivered += len(data)
        self._note(f"dr:{len(data)}")
        try:
            self.protocol.data_received(data)
        except (SystemExit, KeyboardInterrupt):
            raise
        except BaseException as exc:  # noqa: BLE001  - the asyncio transport contract
            self._note(f"drexc:{type(exc).__name__}")
            if self.conn is not None:
                self.conn.dr_excs.append(exc)
            self.loop.call_exception_handler({
                "message": "Fatal error: protocol.data_received() call failed.",
                "exception": exc, "transport": self, "protocol": self.protocol})
            self.drop(exc)

    def feed(self, data: bytes) -> bool:
        if self.closed or self.closing:
            return False
        if self.reading_paused or self.inbox:
            self.inbox.append(data)
            return False
        self._deliver(data)
        return True

    def _drain_inbox(self) -> None:
        while self.inbox and not self.reading_paused and not self.closed and not self.closing:
            self._deliver(self.inbox.pop(0))
        if self._eof_pending and not self.inbox and not self.reading_paused and not self.closed:
            self._eof_pending = False
            self._deliver_eof()

    def pause_reading(self) -> None:
        if not self.reading_paused:
            self._note("pause")
        super().pause_reading()

    def resume_reading(self) -> None:
        if self.reading_paused:
            self._note("resume")
        super().resume_reading()

    def close(self) -> None:
        if not self.closing:
            self._note("close")
        super().close()

    def drop(self, exc: Optional[BaseException] = None) -> None:
        if not self.closing:
            self._note("drop")
        super().drop(exc)

    def _call_connection_lost(self, exc: Optional[BaseException]) -> None:
        if not self.closed:
            self._note("lost")
        super()._call_connection_lost(exc)

    def write(self, data: Any) -> None:
        b = bytes(data)
        if self.closing:
            self._note(f"w-closed:{len(b)}")
        elif b:
            if len(self.written) + len(b) > self.write_budget:
                # a server that never stops writing (e.g. answers the same request again and again
                # inside one loop step) must end as a recorded outcome, not as an out-of-memory kill
                if self.conn is not None:
                    self.conn.runaway = self.conn.runaway or "write-budget"
                self._note("budget:write")
                self.drop(None)
                return
            if self.conn is not None:
                self.conn.write_marks.append((len(self.written), self.conn.tag, self.delivered))
            self._note(f"w:{len(b)}")
        super().write(b)


class Conn:
    def __init__(self, kit: "ServerKit", name: str) -> None:
        self.kit = kit
        self.loop = kit.loop
        self.name = name
        self.sub: List[str] = []
        self.dr_excs: List[BaseException] = []
        self.write_marks: List[Tuple[int, Any]] = []
        self.tag: Any = 0
        self.popped = 0              # request objects built for this connection (messages taken off the queue)
        self.runaway = ""            # set when a budget (bytes written, handler entries, steps) is exceeded
        self.proto: Any = None
        kit.conns.append(self)
        self.proto = kit.server()
        self.tr = SrvTransport(self.loop, self.proto, name=name,
                               extra={"peername": ("127.0.0.1", 40000), "sockname": ("127.0.0.1", 80)})
        self.tr.conn = self
        self.proto.connection_made(self.tr)
        self.start_task = getattr(self.proto, "_task_handler", None)   # tear-down only

    # transport-level stimuli
    def feed(self, data: bytes) -> bool:
        return self.tr.feed(data)

    def eof(self) -> None:
        self.tr.feed_eof()

    def drop(self, exc: Optional[BaseException] = None) -> None:
        self.tr.drop(exc)

    def pause_writing(self) -> None:
        if not self.tr.closing:
            self.tr.pause_protocol_writing()

    def resume_writing(self) -> None:
        if not self.tr.closed:
            self.tr.resume_protocol_writing()

    @property
    def delivered(self) -> int:
        return self.tr.delivered

    @property
    def written(self) -> bytes:
        return bytes(self.tr.written)

    def take_sub(self) -> List[str]:
        s, self.sub = self.sub, []
        return s

    def counters(self) -> dict:
        tr = self.tr
        return {"w": len(tr.written), "d": tr.delivered, "closed": bool(tr.closing),
                "lost": bool(tr.closed), "paused": bool(tr.reading_paused),
                "inbox": sum(len(x) for x in tr.inbox)}

    def priv(self) -> dict:
        p = self.proto
        try:
            parser = p._parser
            th = p._task_handler
            return {
                "msgs": len(p._messages),
                "inflight": parser._msg_in_flight if parser is not None else -1,
                "ptail": len(parser._tail) if parser is not None else -1,
                "mtail": len(p._message_tail),
                "qpaused": bool(p._msg_queue_paused),
                "rpaused": bool(p._reading_paused),
                "upgraded": bool(p._upgraded),
                "close": bool(p._close), "fclose": bool(p._force_close),
                "keepalive": bool(p._keepalive),
                "katimer": p._keepalive_handle is not None,
                "waiter": p._waiter is not None and not p._waiter.done(),
                "start": ("none" if th is None else "done" if th.done() else "alive"),
            }
        except AttributeError:
            return {}


class ServerKit:
    def __init__(self, loop: StepLoop, handler: Any = None, *, app: Any = None, mode: str = "server",
                 handler_cancellation: bool = False, middlewares: Tuple[Any, ...] = (), **kw: Any) -> None:
        from aiohttp import web

        self.loop = loop
        self.mode = mode
        self.runner: Any = None
        self.app = app
        kw.setdefault("access_log", None)
        kw.setdefault("logger", quiet_logger())
        if mode == "server":
            assert handler is not None
            self.server = web.Server(handler, handler_cancellation=handler_cancellation, **kw)
        else:
            if app is None:
                app = web.Application(middlewares=list(middlewares))
                app.router.add_route("*", "/{tail:.*}", handler)
                self.app = app
            self.runner = web.AppRunner(app, handler_cancellation=handler_cancellation, **kw)
            loop.run_coro(self.runner.setup())
            self.server = self.runner.server
        self.conns: List[Conn] = []
        # the instant a message leaves the connection's queue: start() builds the request object
        orig = self.server.request_factory

        def counting_factory(message: Any, payload: Any, protocol: Any, *a: Any, **k: Any) -> Any:
            for c in self.conns:
                if c.proto is protocol:
                    c.popped += 1
                    break
            return orig(message, payload, protocol, *a, **k)

        self.server.request_factory = counting_factory

    def connect(self, name: str = "c") -> Conn:
        return Conn(self, name)

    def close(self, timeout: float = 1.0) -> None:
        try:
            if self.runner is not None:
                self.loop.run_coro(self.runner.cleanup())
            else:
                self.loop.run_coro(self.server.shutdown(timeout))
        except Exception:  # noqa: BLE001
            pass


# ---------------------------------------------------------------- scripted handlers
class Script:
    """Handlers keyed by the request id carried in X-Id."""

    def __init__(self, record: Optional[Callable[[str], None]] = None, conn_getter: Any = None) -> None:
        self.plan: Dict[int, dict] = {}
        self.default = {"beh": "ret0"}
        self.gates: Dict[int, asyncio.Future] = {}
        self.running: List[int] = []
        self.entered: List[int] = []
        self.exited: List[Tuple[int, str]] = []
        self.tasks: Dict[int, Any] = {}
        self.record = record
        self.conn: Optional[Conn] = None
        self.unknown = 0
        self.entry_budget = 1000         # handler entries per execution (runaway guard)
        self.exit_info: Dict[int, dict] = {}   # id -> {how, wrote (output before the handler ended), httpexc}

    def _rec(self, s: str) -> None:
        if self.record is not None:
            self.record(s)
        elif self.conn is not None:
            self.conn.sub.append(s)

    def go(self, rid: int) -> bool:
        f = self.gates.get(rid)
        if f is not None and not f.done():
            f.set_result(None)
            return True
        return False

    def waiting_gate(self, rid: int) -> bool:
        f = self.gates.get(rid)
        return f is not None and not f.done()

    def cancel_all(self) -> None:
        for t in list(self.tasks.values()):
            if not t.done():
                t.cancel()

    @staticmethod
    def request_id(request: Any) -> int:
        v = request.headers.get("X-Id", "")
        return int(v) if v.isdigit() and len(v) < 9 else 0

    async def handler(self, request: Any) -> Any:
        from aiohttp import web

        if len(self.entered) + self.unknown >= self.entry_budget and self.conn is not None:
            self.conn.runaway = self.conn.runaway or "entry-budget"
            self._rec("budget:entries")
            self.conn.tr.drop(None)
        err = getattr(request, "pre_handler_error", None)
        if err is not None:          # low-level web.Server: the handler is called for parse errors
            self._rec("henter:0")
            self.unknown += 1
            if self.conn is not None:
                self.conn.tag = 0
            self._rec("hexit:0:HTTPBadRequest")
            raise err
        rid = self.request_id(request)
        plan = self.plan.get(rid, self.default)
        beh = plan["beh"]
        self.entered.append(rid)
        self.running.append(rid)
        self.tasks[rid] = asyncio.current_task()
        if self.conn is not None:
            self.conn.tag = rid
        self._rec(f"henter:{rid}")
        how = "ok"
        hdr = {"X-Id": str(rid)}
        w0 = len(self.conn.tr.written) if self.conn is not None else 0
        try:
            if beh == "ret0":
                return web.Response(text="ok", headers=hdr)
            if beh == "gate":
                await self._gate(rid)
                return web.Response(text="ok", headers=hdr)
            if beh == "sleep":
                await asyncio.sleep(plan.get("t", 1.0))
                return web.Response(text="ok", headers=hdr)
            if beh == "read":
                data = await request.read()
                return web.Response(text=str(len(data)), headers=hdr)
            if beh == "readsome":
                data = await request.content.readany()
                return web.Response(text=str(len(data)), headers=hdr)
            if beh in ("stream", "streamself", "partial", "partialto", "partialhx", "prephx", "prepto"):
                # the failure dimension "after output has started": which exception x how much output
                resp = web.StreamResponse(headers=hdr)
                await resp.prepare(request)             # StreamResponse sends its header block here
                if beh == "prephx":
                    raise web.HTTPForbidden(text="no", headers=hdr)
                if beh == "prepto":
                    raise asyncio.TimeoutError()
                await resp.write(b"chunk-one")
                if beh == "partial":
                    raise RuntimeError("scripted failure after partial write")
                if beh == "partialto":
                    raise asyncio.TimeoutError()
                if beh == "partialhx":
                    raise web.HTTPForbidden(text="no", headers=hdr)
                await self._gate(rid)
                await resp.write(b"chunk-two")
                if beh == "streamself":
                    await resp.write_eof()
                return resp
            if beh in ("bodyfail", "bodyfailx"):
                # the response body source fails midway (e.g. a proxied upstream body that is reset)
                exc_t = ConnectionResetError if beh == "bodyfail" else RuntimeError

                async def body() -> Any:
                    yield b"chunk-one"
                    raise exc_t("scripted failure of the response body source")

                return web.Response(body=body(), headers=hdr)
            if beh == "httpexc":
                raise web.HTTPForbidden(text="no", headers=hdr)
            if beh == "exc":
                raise RuntimeError("scripted failure")
            if beh == "timeout":
                raise asyncio.TimeoutError()
            if beh == "never":
                await asyncio.get_running_loop().create_future()
            if beh == "none":
                return None
            raise RuntimeError(f"unknown scripted behaviour {beh}")
        except BaseException as exc:  # noqa: BLE001
            how = type(exc).__name__
            raise
        finally:
            if rid in self.running:
                self.running.remove(rid)
            wrote = self.conn is not None and len(self.conn.tr.written) > w0
            self.exited.append((rid, how))
            self.exit_info[rid] = {"how": how, "wrote": bool(wrote),
                                   "httpexc": isinstance(sys.exc_info()[1], web.HTTPException)}
            self._rec(f"hexit:{rid}:{how}" + (":w" if wrote else ""))

    @property
    def middleware(self) -> Any:
        """Application middleware: notes the entry for a request that failed to parse (the
        Application answers it itself, the scripted handler is never called)."""
        from aiohttp import web

        @web.middleware
        async def mw(request: Any, handler: Any) -> Any:
            if getattr(request, "pre_handler_error", None) is not None:
                self.unknown += 1
                if self.conn is not None:
                    self.conn.tag = 0
                self._rec("henter:0")
                self._rec("hexit:0:HTTPBadRequest")
            elif self.conn is not None:
                # also covers responses the router produces itself (404/405 carry no X-Id)
                self.conn.tag = self.request_id(request)
            return await handler(request)

        return mw

    async def _gate(self, rid: int) -> None:
        f = asyncio.get_running_loop().create_future()
        self.gates[rid] = f
        await f


# ---------------------------------------------------------------- request rendering
UNIT = b"\x01\r\n\r\n"          # one body unit; in request-line position it is an unparsable head
JUNK = b"\x02\x03\x04\x05\x06"  # no line end: stays in the parser's line buffer, poisons the next head
JUNK_LF = b"GET /bad HTTP/1.1\nHost: t\n\n"   # bare-LF "head": never complete for a CRLF parser; poisons what follows
POISON_PARSE = "http://[::1"     # yarl raises ValueError inside HttpRequestParser.parse_message
POISON_FACTORY = "http://a:b/"   # accepted by the parser; BaseRequest.__init__ (url.host/port) raises
BAD_HEADS: List[bytes] = [
    b"GET /bad HTTP/1.1x\r\nHost: t\r\n\r\n",                      # invalid version
    b"GET /bad\r\nHost: t\r\n\r\n",                                # no version
    b"G(T /bad HTTP/1.1\r\nHost: t\r\n\r\n",                       # invalid method token
    b"GET /bad HTTP/1.1\r\nHost: t\r\nContent-Length: x1\r\n\r\n",  # non-numeric length
    b"POST /bad HTTP/1.1\r\nHost: t\r\nContent-Length: 3\r\nTransfer-Encoding: chunked\r\n\r\n",
    b"GET /bad HTTP/1.1\r\nHost: t\r\nBad Name: v\r\n\r\n",         # space in field name
    b"GET /bad HTTP/1.1\r\nHost: t\r\nNoColonHere\r\n\r\n",
    b"GET /bad HTTP/1.1\r\n\r\n",                                  # HTTP/1.1 without Host
    b"GET /bad HTTP/1.1\r\nHost: t\r\nX: a\x00b\r\n\r\n",           # NUL in field value
    # the same classes with bytes that are not ASCII / not valid UTF-8 inside the offending lexeme
    # (the 400 has to be built from whatever the parser puts into its error message)
    b"GET \xff HTTP/1.1\r\nHost: t\r\n\r\n",                          # neither origin- nor absolute-form
    b"GET b\xc3\x28d\x80 HTTP/1.1\r\nHost: t\r\n\r\n",
    b"G\xffT /bad HTTP/1.1\r\nHost: t\r\n\r\n",
    b"GET /bad HTTP/1.\xff\r\nHost: t\r\n\r\n",
    b"GET /bad HTTP/1.1\r\nHost: t\r\nB\xffd: v\r\n\r\n",
    b"GET /bad HTTP/1.1\r\nHost: t\r\nContent-Length: \xb2\r\n\r\n",
]


def render_request(rid: int, *, method: Optional[str] = None, target: Optional[str] = None, body: int = 0,
                   chunked: bool = False, close: bool = False, version: str = "1.1", unit: bytes = UNIT,
                   extra: Tuple[Tuple[str, str], ...] = (), upgrade: bool = False) -> List[bytes]:
    """Byte pieces of one request: [head, body unit ..., (chunked terminator)]."""
    has_body = body > 0 or chunked
    m = method or ("POST" if has_body else "GET")
    t = target if target is not None else f"/r{rid}"
    lines = [f"{m} {t} HTTP/{version}", "Host: t", f"X-Id: {rid}"]
    if chunked:
        lines.append("Transfer-Encoding: chunked")
    elif body > 0:
        lines.append(f"Content-Length: {body * len(unit)}")
    conn = []
    if close:
        conn.append("close")
    elif version == "1.0":
        pass
    if upgrade:
        conn.append("upgrade")
        lines.append("Upgrade: websocket")
    if conn:
        lines.append("Connection: " + ", ".join(conn))
    for k, v in extra:
        lines.append(f"{k}: {v}")
    head = ("\r\n".join(lines) + "\r\n\r\n").encode("latin1")
    pieces = [head]
    for _ in range(body):
        if chunked:
            pieces.append(f"{len(unit):x}\r\n".encode() + unit + b"\r\n")
        else:
            pieces.append(unit)
    if chunked:
        pieces.append(b"0\r\n\r\n")
    return pieces


# ---------------------------------------------------------------- response framer
_STATUS = re.compile(rb"HTTP/1\.([01]) (\d{3})(?: |$)")


def split_responses(wire: bytes, *, head_ids: Tuple[int, ...] = (), connect_ids: Tuple[int, ...] = ()) -> List[dict]:
    """Minimal independent HTTP/1 response framer (RFC 9112 section 6): status line, header block,
    then no body (1xx/204/304/HEAD), chunked, Content-Length, or close-delimited."""
    out: List[dict] = []
    pos = 0
    n = len(wire)
    while pos < n:
        r: Dict[str, Any] = {"start": pos, "hend": -1, "end": n, "complete": False, "status": 0, "minor": 1,
                             "sl": [], "cl": -1, "te": False, "close": False, "ka": False, "id": 0, "fr": "none",
                             "chunks": [], "bodylen": 0, "garbage": False}
        out.append(r)
        he = wire.find(b"\r\n\r\n", pos)
        eol = wire.find(b"\r\n", pos)
        line = wire[pos:eol] if eol >= 0 else wire[pos:]
        r["sl"] = list(line[:40])
        m = _STATUS.match(line)
        if m is None:
            if eol >= 0 or not b"HTTP/1.1 ".startswith(line[:9]) and not line.startswith(b"HTTP/1."):
                r["garbage"] = True
            return out
        r["status"] = int(m.group(2))
        r["minor"] = int(m.group(1))
        if he < 0:
            return out
        r["hend"] = he + 4
        for raw in wire[eol + 2:he].split(b"\r\n"):
            k, _, v = raw.partition(b":")
            k = k.strip().lower()
            v = v.strip()
            if k == b"content-length" and v.isdigit() and len(v) < 10:
                r["cl"] = int(v)
            elif k == b"transfer-encoding" and v.lower().split(b",")[-1].strip() == b"chunked":
                r["te"] = True
            elif k == b"connection" and b"close" in v.lower():
                r["close"] = True
            elif k == b"connection" and b"keep-alive" in v.lower():
                r["ka"] = True
            elif k == b"x-id" and v.isdigit() and len(v) < 9:
                r["id"] = int(v)
        st = r["status"]
        body0 = r["hend"]
        resync = -1
        if r["id"] in connect_ids and r["id"] and 200 <= st < 300:
            # RFC 9110 9.3.6: 2xx to CONNECT has no body; everything after the header block is tunnel data
            r["fr"] = "tunnel"
            r["end"] = n
            r["bodylen"] = n - body0
            r["complete"] = True
        elif st < 200 or st in (204, 304) or (r["id"] in head_ids and r["id"]):
            r["fr"] = "none"
            r["end"] = body0
            r["complete"] = True
        elif r["te"]:
            r["fr"] = "chunked"
            p = body0
            ok = False
            while True:
                e = wire.find(b"\r\n", p)
                if e < 0:
                    break
                szs = wire[p:e].split(b";")[0].strip()
                try:
                    sz = int(szs, 16)
                except ValueError:
                    r["garbage"] = True
                    if wire[p:p + 7] == b"HTTP/1.":
                        resync = p          # another response starts inside this chunked body
                    break
                if sz == 0:
                    te = wire.find(b"\r\n\r\n", e)       # trailers end with an empty line
                    if wire[e:e + 4] == b"\r\n\r\n" or te >= 0:
                        r["end"] = (e + 4) if wire[e:e + 4] == b"\r\n\r\n" else te + 4
                        ok = True
                    break
                if e + 2 + sz + 2 > n:
                    break
                if wire[e + 2 + sz:e + 4 + sz] != b"\r\n":
                    r["garbage"] = True
                    break
                r["chunks"].append(sz)
                p = e + 4 + sz
            r["bodylen"] = sum(r["chunks"])
            r["complete"] = ok
            if not ok:
                r["end"] = n
            if resync >= 0:
                # keep splitting behind the intruding status line so that later responses stay visible;
                # the truncated record keeps garbage=True (never a well-formed wire)
                r["end"] = resync
                pos = resync
                continue
        elif r["cl"] >= 0:
            r["fr"] = "cl"
            if body0 + r["cl"] <= n:
                r["end"] = body0 + r["cl"]
                r["complete"] = True
            else:
                r["end"] = n
            r["bodylen"] = r["end"] - body0
        else:
            r["fr"] = "close"                 # delimited by connection close
            r["end"] = n
            r["bodylen"] = n - body0
            r["complete"] = False             # the caller decides: complete iff the server closed
        if not r["complete"] or r["garbage"]:
            return out
        pos = r["end"]
    return out


# ---------------------------------------------------------------- tear-down
def teardown(conn: Conn, script: Optional[Script], it: IterLoop) -> List[dict]:
    """End an execution: the peer goes away, remaining handlers are cancelled, every task is
    collected; returns the loop exception-handler contexts produced by the tear-down itself
    (start()/handler tasks that died with an exception show up here at the latest)."""
    loop = conn.loop
    before = len(loop.exc_contexts)
    def settle() -> None:
        try:
            it.settle(20000)
        except RuntimeError:
            conn.runaway = conn.runaway or "teardown-steps"
            loop._ready.clear()
            it.remaining = 0

    if not conn.tr.closed:
        conn.tr.drop(None)
    settle()
    if script is not None:
        script.cancel_all()
    settle()
    for _ in range(64):          # let pending timers (lingering read, keep-alive) run out, as time would
        if not it.tick():
            break
        settle()
    th = conn.start_task
    if th is not None and not th.done():
        th.cancel()
        settle()
    conn.start_task = None
    conn.proto = None  # type: ignore[assignment]
    conn.tr.protocol = None
    if script is not None:
        script.tasks.clear()
        script.gates.clear()
    del th
    gc.collect()
    for h in list(loop._scheduled):
        h.cancel()
    loop._scheduled.clear()
    return loop.exc_contexts[before:]
