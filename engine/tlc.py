"""Run TLC (exhaustive / simulate / trace-validation batches) and parse its output."""
from __future__ import annotations

import glob
import json
import os
import re
import shutil
import subprocess
import tempfile
import time
from dataclasses import dataclass, field
from typing import Any, Dict, List, Optional, Tuple

from .tlaval import parse_state, parse_value_prefix

VERIF = os.path.dirname(os.path.dirname(os.path.abspath(__file__)))
SPEC_DIR = os.path.join(VERIF, "spec")
JAR = "/opt/veriftools/tla/tla2tools.jar"
DEPS = "/opt/veriftools/tla/CommunityModules-deps.jar"


class MachineryError(RuntimeError):
    """Something in the verification machinery failed (exit code 2)."""


def scratch_root() -> str:
    root = os.environ.get("VERIF_SCRATCH") or os.path.join("/var/tmp", f"verif.{os.getpid()}")
    os.makedirs(root, exist_ok=True)
    return root


def mktemp(prefix: str) -> str:
    return tempfile.mkdtemp(prefix=prefix + ".", dir=scratch_root())


def cleanup_scratch() -> None:
    if os.environ.get("VERIF_KEEP_SCRATCH"):
        return
    root = os.environ.get("VERIF_SCRATCH") or os.path.join("/var/tmp", f"verif.{os.getpid()}")
    shutil.rmtree(root, ignore_errors=True)


@dataclass
class TLCResult:
    ok: bool                       # finished with no error
    generated: int = 0
    distinct: int = 0
    depth: int = 0
    violated: Optional[str] = None  # name of violated invariant/property, 'Deadlock', ...
    kind: Optional[str] = None      # invariant|action|temporal|deadlock|postcondition|error
    trace: List[Tuple[str, dict]] = field(default_factory=list)  # (action label, state)
    output: str = ""
    wall_s: float = 0.0
    coverage: Dict[str, Tuple[int, int]] = field(default_factory=dict)  # action -> (distinct,total)
    printed: List[Any] = field(default_factory=list)  # values printed with PrintT
    timed_out: bool = False
    rc: int = 0

    def summary(self) -> dict:
        return {
            "ok": self.ok, "generated": self.generated, "distinct": self.distinct,
            "depth": self.depth, "violated": self.violated, "kind": self.kind,
            "wall_s": round(self.wall_s, 2),
        }


_re_stats = re.compile(r"(\d+) states generated, (\d+) distinct states found")
_re_depth = re.compile(r"The depth of the complete state graph search is (\d+)")
_re_inv = re.compile(r"Error: Invariant (\S+) is violated")
_re_act = re.compile(r"Error: Action property (\S+) is violated")
_re_state = re.compile(r"^State (\d+): <?(.*?)>?$", re.M)
_re_cov = re.compile(r"^<(\w+) line \d+, col \d+ to line \d+, col \d+ of module (\w+)>: (\d+):(\d+)", re.M)


def _parse_trace(out: str) -> List[Tuple[str, dict]]:
    trace: List[Tuple[str, dict]] = []
    ms = list(_re_state.finditer(out))
    for k, m in enumerate(ms):
        end = ms[k + 1].start() if k + 1 < len(ms) else len(out)
        body = out[m.end():end]
        # stop at the first blank-line-then-nonstate text
        lines = []
        for ln in body.splitlines():
            if ln.strip() == "" and lines:
                break
            if ln.strip():
                lines.append(ln)
        label = m.group(2).strip()
        am = re.match(r"(\w+)(\(.*?\))? line", label)
        if am:
            label = am.group(1) + (am.group(2) or "")
        try:
            st = parse_state("\n".join(lines))
        except Exception:  # noqa: BLE001
            st = {"_raw": "\n".join(lines)}
        trace.append((label, st))
    return trace


def _parse_printed(out: str) -> List[Any]:
    """Values printed by PrintT that start with <<"VP", ...>> (one per line or spanning)."""
    res = []
    idx = 0
    pat = re.compile(r'<<\s*"VP"')
    while True:
        m = pat.search(out, idx)
        if not m:
            break
        j = m.start()
        try:
            v, end = parse_value_prefix(out, j)
            res.append(v[1:])
            idx = end
        except Exception:  # noqa: BLE001
            idx = m.end()
    return res


def run_tlc(module: str, cfg: str, *, workers: int | str = 16, simulate: Optional[str] = None,
            depth: Optional[int] = None, seed: Optional[int] = None, env: Optional[dict] = None,
            timeout: float = 600, coverage: bool = False, dump_dot: Optional[str] = None,
            deadlock: bool = True, spec_dir: str = SPEC_DIR, extra: Optional[List[str]] = None,
            dfs_queue: bool = False, heap: str = "8g", fp_seed: Optional[int] = None) -> TLCResult:
    """Run TLC on spec_dir/module.tla with config cfg (file name in spec_dir or absolute)."""
    meta = mktemp("tlcmeta")
    cfg_path = cfg if os.path.isabs(cfg) else os.path.join(spec_dir, cfg)
    if not os.path.exists(cfg_path):
        raise MachineryError(f"missing cfg {cfg_path}")
    jopts = [f"-Xmx{heap}", "-XX:+UseParallelGC", f"-DTLA-Library={os.path.join(SPEC_DIR, 'lib')}"]
    if dfs_queue:
        jopts.append("-Dtlc2.tool.queue.IStateQueue=StateDeque")
    cmd = ["java", *jopts, "-cp", f"{JAR}:{DEPS}", "tlc2.TLC",
           "-metadir", meta, "-noGenerateSpecTE", "-workers", str(workers),
           "-config", cfg_path]
    if simulate is not None:
        cmd += ["-simulate", simulate]
    if depth is not None:
        cmd += ["-depth", str(depth)]
    if seed is not None:
        cmd += ["-seed", str(seed)]
    if coverage:
        cmd += ["-coverage", "1"]
    if dump_dot:
        cmd += ["-dump", "dot,actionlabels", dump_dot]
    if not deadlock:
        cmd += ["-deadlock"]
    if extra:
        cmd += extra
    cmd.append(module)
    e = dict(os.environ)
    e.pop("JAVA_TOOL_OPTIONS", None)
    if env:
        e.update({k: str(v) for k, v in env.items()})
    t0 = time.time()
    timed_out = False
    try:
        p = subprocess.run(cmd, cwd=spec_dir, env=e, capture_output=True, text=True, timeout=timeout)
        out = p.stdout + ("\n" + p.stderr if p.stderr else "")
        rc = p.returncode
    except subprocess.TimeoutExpired as te:
        so = te.stdout.decode() if isinstance(te.stdout, bytes) else (te.stdout or "")
        out = so
        rc = -9
        timed_out = True
    finally:
        shutil.rmtree(meta, ignore_errors=True)
    res = TLCResult(ok=False, output=out, wall_s=time.time() - t0, timed_out=timed_out, rc=rc)
    ms = _re_stats.findall(out)
    if ms:
        res.generated, res.distinct = int(ms[-1][0]), int(ms[-1][1])
    m = _re_depth.search(out)
    if m:
        res.depth = int(m.group(1))
    for cm in _re_cov.finditer(out):
        name = cm.group(1)
        d, t = int(cm.group(3)), int(cm.group(4))
        od, ot = res.coverage.get(name, (0, 0))
        res.coverage[name] = (od + d, ot + t)
    res.printed = _parse_printed(out)
    m = _re_inv.search(out)
    if m:
        res.violated, res.kind = m.group(1), "invariant"
    elif _re_act.search(out):
        res.violated, res.kind = _re_act.search(out).group(1), "action"
    elif "Error: Deadlock reached" in out:
        res.violated, res.kind = "Deadlock", "deadlock"
    elif "Temporal properties were violated" in out:
        res.violated, res.kind = "Temporal", "temporal"
    elif re.search(r"postcondition.*(violated|false)", out, re.I):
        res.violated, res.kind = "Postcondition", "postcondition"
    elif "Error:" in out or rc not in (0,):
        if timed_out and "Error:" not in out:
            res.violated, res.kind = None, None
        else:
            res.violated, res.kind = "TLCError", "error"
    if res.violated and res.kind in ("invariant", "action", "deadlock", "temporal"):
        res.trace = _parse_trace(out)
    res.ok = (res.violated is None) and not timed_out and rc == 0
    if simulate is not None and timed_out and res.violated is None:
        res.ok = True  # simulation is open-ended; the outer timeout ends it
    return res


def require_clean(res: TLCResult, what: str) -> None:
    """Raise MachineryError if TLC itself failed (parse error, crash)."""
    if res.kind == "error":
        tail = "\n".join(res.output.splitlines()[-40:])
        raise MachineryError(f"TLC failed on {what}:\n{tail}")


# ---------------------------------------------------------------- simulate files
_re_sim_state = re.compile(r"^\\\* <?(.*?)>?\s*$\n^STATE_(\d+) ==\s*$", re.M)


def parse_sim_file(path: str) -> List[Tuple[str, dict]]:
    """Parse one behaviour file written by `-simulate file=...`."""
    txt = open(path).read()
    out: List[Tuple[str, dict]] = []
    ms = list(re.finditer(r"^STATE_(\d+) ==\s*$", txt, re.M))
    for k, m in enumerate(ms):
        end = ms[k + 1].start() if k + 1 < len(ms) else len(txt)
        body = txt[m.end():end]
        # the label comment is the line before STATE_n
        pre = txt[:m.start()].rstrip("\n").splitlines()
        label = pre[-1] if pre else ""
        label = label.lstrip("\\* ").strip()
        am = re.match(r"<?(\w+)(\(.*?\))? line", label)
        if am:
            label = am.group(1) + (am.group(2) or "")
        elif "Initial predicate" in label:
            label = "Init"
        # body ends before the next comment line
        lines = []
        for ln in body.splitlines():
            if ln.startswith("\\*") or ln.startswith("===="):
                break
            lines.append(ln)
        st = parse_state("\n".join(lines))
        out.append((label, st))
    return out


def simulate_behaviours(module: str, cfg: str, *, num: int, depth: int, seed: int,
                        timeout: float = 300, env: Optional[dict] = None,
                        spec_dir: str = SPEC_DIR) -> Tuple[List[List[Tuple[str, dict]]], TLCResult]:
    d = mktemp("sim")
    try:
        res = run_tlc(module, cfg, workers=1, simulate=f"file={d}/tr,num={num}", depth=depth,
                      seed=seed, timeout=timeout, env=env, spec_dir=spec_dir, deadlock=False)
        require_clean(res, f"simulate {module}/{cfg}")
        behs = []
        for f in sorted(glob.glob(f"{d}/tr_*"), key=lambda s: [int(x) for x in re.findall(r"\d+", os.path.basename(s))]):
            try:
                behs.append(parse_sim_file(f))
            except Exception as exc:  # noqa: BLE001
                raise MachineryError(f"cannot parse simulate file {f}: {exc}")
        return behs, res
    finally:
        shutil.rmtree(d, ignore_errors=True)


# ---------------------------------------------------------------- dot dumps
_re_node = re.compile(r'^(-?\d+) \[label="((?:[^"\\]|\\.)*)"(.*)\];?$')
_re_edge = re.compile(r'^(-?\d+) -> (-?\d+) \[label="((?:[^"\\]|\\.)*)"')


def parse_dot(path: str) -> Tuple[Dict[str, dict], List[Tuple[str, str, str]], List[str]]:
    """Return (nodes id->state, edges (src,dst,label), initial ids)."""
    nodes: Dict[str, dict] = {}
    edges: List[Tuple[str, str, str]] = []
    inits: List[str] = []
    for ln in open(path):
        ln = ln.rstrip("\n")
        m = _re_edge.match(ln)
        if m:
            edges.append((m.group(1), m.group(2), m.group(3).replace('\\"', '"')))
            continue
        m = _re_node.match(ln)
        if m:
            lab = m.group(2).replace("\\n", "\n").replace('\\"', '"').replace("\\\\", "\\")
            try:
                nodes[m.group(1)] = parse_state(lab)
            except Exception:  # noqa: BLE001
                nodes[m.group(1)] = {"_raw": lab}
            if "style = filled" in m.group(3):
                inits.append(m.group(1))
    return nodes, edges, inits


def transition_cover(nodes: Dict[str, dict], edges: List[Tuple[str, str, str]], inits: List[str],
                     max_paths: int = 100000) -> List[List[Tuple[str, str, str]]]:
    """Paths from initial states covering every edge at least once (BFS-tree + one edge)."""
    from collections import deque
    adj: Dict[str, List[Tuple[str, str]]] = {}
    for s, d, l in edges:
        adj.setdefault(s, []).append((d, l))
    parent: Dict[str, Optional[Tuple[str, str]]] = {i: None for i in inits}
    dq = deque(inits)
    while dq:
        u = dq.popleft()
        for d, l in adj.get(u, []):
            if d not in parent:
                parent[d] = (u, l)
                dq.append(d)

    def path_to(n: str) -> List[Tuple[str, str, str]]:
        p = []
        while parent.get(n) is not None:
            u, l = parent[n]
            p.append((u, n, l))
            n = u
        return list(reversed(p))

    covered = set()
    paths = []
    # longest-first greedy: extend tree paths by uncovered edges
    for s, d, l in edges:
        if (s, d, l) in covered or s not in parent:
            continue
        p = path_to(s) + [(s, d, l)]
        # greedily continue along uncovered edges
        cur = d
        while True:
            nxt = None
            for d2, l2 in adj.get(cur, []):
                if (cur, d2, l2) not in covered and (cur, d2, l2) not in p:
                    nxt = (cur, d2, l2)
                    break
            if nxt is None:
                break
            p.append(nxt)
            cur = nxt[1]
        for e in p:
            covered.add(e)
        paths.append(p)
        if len(paths) >= max_paths:
            break
    return paths


# ---------------------------------------------------------------- trace batches
@dataclass
class TraceVerdict:
    tid: int
    ok: bool
    pos: int          # number of events consumed
    total: int
    clause: str       # failing clause name or ""
    info: Any = None  # extra value supplied by the spec (e.g. deviations used)


def validate_batch(module: str, cfg: str, traces: List[dict], *, timeout: float = 900,
                   spec_dir: str = SPEC_DIR, env: Optional[dict] = None,
                   keep: Optional[str] = None, heap: str = "8g") -> Tuple[List[TraceVerdict], TLCResult]:
    """Validate recorded traces with a trace spec that prints <<"VP","T",tid,pos,total,clause,info>>.

    Every trace gets a verdict line from the spec's POSTCONDITION; a missing line is a
    machinery failure, never a pass.
    """
    d = mktemp("batch")
    path = os.path.join(d, "batch.json")
    for k, t in enumerate(traces):
        t["tid"] = k + 1
    with open(path, "w") as f:
        json.dump(traces, f, separators=(",", ":"))
    try:
        e = {"TRACE_FILE": path}
        if env:
            e.update(env)
        res = run_tlc(module, cfg, workers=1, env=e, timeout=timeout, deadlock=False,
                      spec_dir=spec_dir, heap=heap)
        if keep:
            shutil.copy(path, keep)
        if res.kind == "error" or res.timed_out:
            tail = "\n".join(res.output.splitlines()[-40:])
            raise MachineryError(f"trace validation {module}/{cfg} failed (timed_out={res.timed_out}):\n{tail}")
        verdicts: Dict[int, TraceVerdict] = {}
        for v in res.printed:
            if v and v[0] == "T":
                tid, pos, total, clause = v[1], v[2], v[3], v[4]
                info = v[5] if len(v) > 5 else None
                verdicts[tid] = TraceVerdict(tid, clause == "" and pos == total, pos, total, clause, info)
        missing = [t["tid"] for t in traces if t["tid"] not in verdicts]
        if missing:
            tail = "\n".join(res.output.splitlines()[-40:])
            raise MachineryError(f"no verdict for traces {missing[:10]} from {module}/{cfg}:\n{tail}")
        return [verdicts[t["tid"]] for t in traces], res
    finally:
        shutil.rmtree(d, ignore_errors=True)


def cover_behaviours(module: str, cfg: str, *, timeout: float = 300, spec_dir: str = SPEC_DIR,
                     max_paths: int = 100000, workers: int = 1) -> Tuple[List[List[Tuple[str, dict]]], TLCResult]:
    """Exhaustive run with a state-graph dump; returns behaviours (same shape as
    simulate_behaviours) that together traverse every edge of the reachable graph."""
    d = mktemp("dot")
    try:
        dot = os.path.join(d, "graph.dot")
        res = run_tlc(module, cfg, workers=workers, timeout=timeout, dump_dot=dot, deadlock=False, spec_dir=spec_dir)
        require_clean(res, f"dump {module}/{cfg}")
        if not os.path.exists(dot):
            raise MachineryError(f"TLC wrote no state graph for {module}/{cfg}")
        nodes, edges, inits = parse_dot(dot)
        paths = transition_cover(nodes, edges, inits, max_paths=max_paths)
        behs = []
        for p in paths:
            if not p:
                continue
            beh = [("Init", nodes[p[0][0]])]
            for (_s, dst, lab) in p:
                beh.append((lab, nodes[dst]))
            behs.append(beh)
        return behs, res
    finally:
        shutil.rmtree(d, ignore_errors=True)
