"""Common driver: CLI, exit codes, evidence, known findings, replays."""
from __future__ import annotations

import argparse
import hashlib
import importlib
import json
import os
import random
import re
import sys
import time
import traceback
from dataclasses import dataclass, field
from typing import Any, Dict, List, Optional

from . import tlc as tlcmod
from .tlc import MachineryError, TLCResult

VERIF = os.path.dirname(os.path.dirname(os.path.abspath(__file__)))
EVIDENCE_DIR = os.environ.get("VERIF_EVIDENCE_DIR") or os.path.join(VERIF, "evidence")
REPLAY_DIR = os.environ.get("VERIF_REPLAY_DIR") or os.path.join(VERIF, "replays")
FINDINGS = os.path.join(VERIF, "known_findings.json")


@dataclass
class Violation:
    clause: str                 # name of the violated property clause / invariant
    signature: str              # what specifically fails (input class, call site, history)
    detail: Any = None          # replay payload (trace, behaviour, input)
    source: str = ""            # model | trace | replay


@dataclass
class Ctx:
    prop: str
    tier: str
    seed: int
    rng: random.Random
    selftest: bool = False
    replay: Optional[str] = None
    t0: float = field(default_factory=time.time)
    states: int = 0
    transitions: int = 0
    model_runs: List[dict] = field(default_factory=list)
    trace_states: int = 0
    traces: int = 0
    evaluations: int = 0
    distinct: set = field(default_factory=set)
    samples: List[Any] = field(default_factory=list)
    violations: List[Violation] = field(default_factory=list)
    drifts: Dict[str, int] = field(default_factory=dict)
    notes: List[str] = field(default_factory=list)
    action_cover: Dict[str, int] = field(default_factory=dict)
    exhaustive: bool = False
    assumptions: List[str] = field(default_factory=list)
    extra: Dict[str, Any] = field(default_factory=dict)
    rule: str = ""

    @property
    def quick(self) -> bool:
        return self.tier == "quick"

    def pick(self, quick: Any, thorough: Any) -> Any:
        return quick if self.quick else thorough

    def log(self, *a: Any) -> None:
        print(f"[{self.prop} {time.time()-self.t0:6.1f}s]", *a, flush=True)

    def add_model(self, name: str, res: TLCResult, exhaustive: bool = True) -> None:
        self.states += res.distinct
        self.transitions += res.generated
        d = res.summary()
        d["name"] = name
        d["exhaustive"] = exhaustive and res.ok
        if res.coverage:
            d["coverage"] = {k: v[1] for k, v in res.coverage.items()}
        self.model_runs.append(d)

    def add_trace_batch(self, n: int, res: TLCResult) -> None:
        self.traces += n
        self.trace_states += res.distinct

    def drift(self, what: str) -> None:
        self.drifts[what] = self.drifts.get(what, 0) + 1

    def sample(self, s: Any, cap: int = 6) -> None:
        if len(self.samples) < cap:
            self.samples.append(s)

    def violation(self, clause: str, signature: str, detail: Any = None, source: str = "") -> None:
        self.violations.append(Violation(clause, signature, detail, source))

    def expect_model_ok(self, name: str, res: TLCResult, exhaustive: bool = True) -> bool:
        """Register a model run; an invariant violated in the model is a violation of the
        property by the design as specified (reported with the counterexample)."""
        tlcmod.require_clean(res, name)
        if res.timed_out and exhaustive:
            self.notes.append(f"{name}: TLC timed out after {res.wall_s:.0f}s; not exhaustive")
            exhaustive = False
        self.add_model(name, res, exhaustive)
        if res.violated:
            self.violation(f"model:{res.violated}", f"{name}: {res.violated} violated in the bounded model",
                           {"trace": [(a, _jsonable(s)) for a, s in res.trace]}, "model")
            return False
        return True


def _jsonable(x: Any) -> Any:
    if isinstance(x, dict):
        return {str(k): _jsonable(v) for k, v in x.items()}
    if isinstance(x, (list, tuple)):
        return [_jsonable(v) for v in x]
    if isinstance(x, (set, frozenset)):
        try:
            return sorted((_jsonable(v) for v in x), key=repr)
        except Exception:  # noqa: BLE001
            return [_jsonable(v) for v in x]
    if isinstance(x, bytes):
        return list(x)
    if isinstance(x, (str, int, float, bool)) or x is None:
        return x
    return repr(x)


def load_findings(prop: str) -> List[dict]:
    if not os.path.exists(FINDINGS):
        return []
    data = json.load(open(FINDINGS))
    return [f for f in data.get("findings", []) if f.get("property") == prop]


def classify(ctx: Ctx) -> tuple:
    """Split violations into (unlisted, known{id->list})."""
    findings = [f for f in load_findings(ctx.prop) if f.get("status") == "open"]
    unlisted: List[Violation] = []
    known: Dict[str, List[Violation]] = {}
    for v in ctx.violations:
        hit = None
        for f in findings:
            m = f.get("match", {})
            if re.fullmatch(m.get("clause", ".*"), v.clause) and re.search(m.get("signature", ""), v.signature):
                hit = f
                break
        if hit is None:
            unlisted.append(v)
        else:
            known.setdefault(hit["id"], []).append(v)
    return unlisted, known, {f["id"]: f for f in findings}


def write_evidence(ctx: Ctx, n_viol: int, known_ids: List[str]) -> None:
    os.makedirs(EVIDENCE_DIR, exist_ok=True)
    cov: Dict[str, Any] = {
        "states": max(1, ctx.states + ctx.trace_states),
        "transitions": max(1, ctx.transitions + ctx.trace_states),
        "traces_validated_against_impl": ctx.traces,
        "samples": ctx.samples or ["(no sample recorded)"],
        "evaluations": max(ctx.evaluations, ctx.traces),
        "distinct_nontrivial": len(ctx.distinct),
        "rule": ctx.rule,
        "exhaustive": bool(ctx.model_runs) and all(m.get("exhaustive") for m in ctx.model_runs),
        "model_states": ctx.states,
        "model_transitions": ctx.transitions,
        "trace_validation_states": ctx.trace_states,
        "model_runs": ctx.model_runs,
        "refinement_drift": ctx.drifts,
        "known_findings_reproduced": known_ids,
        "notes": ctx.notes,
    }
    cov.update(ctx.extra)
    ev = {
        "property_id": ctx.prop,
        "tier": ctx.tier,
        "seed": ctx.seed,
        "level": "model_checking",
        "coverage": cov,
        "assumptions": ctx.assumptions,
        "wall_s": round(time.time() - ctx.t0, 2),
        "violations": n_viol,
    }
    with open(os.path.join(EVIDENCE_DIR, f"{ctx.prop}.json"), "w") as f:
        json.dump(_jsonable(ev), f, indent=1)


def write_replay(ctx: Ctx, v: Violation) -> str:
    os.makedirs(REPLAY_DIR, exist_ok=True)
    payload = {"property": ctx.prop, "clause": v.clause, "signature": v.signature,
               "source": v.source, "seed": ctx.seed, "tier": ctx.tier,
               "detail": _jsonable(v.detail)}
    blob = json.dumps(payload, sort_keys=True)
    h = hashlib.sha1(blob.encode()).hexdigest()[:10]
    path = os.path.join(REPLAY_DIR, f"{ctx.prop}-{h}.json")
    with open(path, "w") as f:
        f.write(json.dumps(payload, indent=1))
    return path


def assert_repo_import() -> None:
    import aiohttp  # noqa: WPS433

    root = os.environ.get("VERIF_REPO", "/repo").rstrip("/") + "/"
    if not aiohttp.__file__.startswith(root):
        raise MachineryError(f"aiohttp imported from {aiohttp.__file__}, expected {root}")


def main(argv: Optional[List[str]] = None) -> int:
    ap = argparse.ArgumentParser(prog="check")
    ap.add_argument("prop")
    ap.add_argument("--tier", default=os.environ.get("VERIF_TIER") or "quick", choices=["quick", "thorough"])
    ap.add_argument("--seed", type=int, default=None)
    ap.add_argument("--replay", default=None)
    ap.add_argument("--selftest", action="store_true")
    args = ap.parse_args(argv)
    seed = args.seed
    if seed is None:
        try:
            seed = int(os.environ.get("VERIF_SEED", "") or 20260922)
        except ValueError:
            seed = 20260922
    seed = seed % (2 ** 31 - 1)
    prop = args.prop.upper()
    ctx = Ctx(prop=prop, tier=args.tier, seed=seed, rng=random.Random(seed),
              selftest=args.selftest, replay=args.replay)
    rc = 2
    try:
        assert_repo_import()
        mod = importlib.import_module(f"props.{prop}")
        if args.replay:
            rc = mod.replay(ctx, args.replay)
            return rc
        if args.selftest:
            rc = mod.selftest(ctx)
            return rc
        mod.run(ctx)
        unlisted, known, fmap = classify(ctx)
        for fid, vs in known.items():
            print(f"KNOWN-FINDING: property={prop} {fmap[fid]['what']} [{fid}; {len(vs)} occurrence(s)]")
        for w, n in sorted(ctx.drifts.items()):
            print(f"DRIFT: property={prop} refinement clause '{w}' differed {n} time(s) (model no longer mirrors the code; not a violation)")
        seen = set()
        for v in unlisted:
            key = (v.clause, v.signature)
            if key in seen:
                continue
            seen.add(key)
            path = write_replay(ctx, v)
            print(f"VIOLATION property={prop} replay={path}")
            print(f"  clause={v.clause} signature={v.signature}")
            if len(seen) >= 8:
                break
        write_evidence(ctx, len(unlisted), sorted(known))
        ctx.log(f"done: states={ctx.states} traces={ctx.traces} violations={len(unlisted)} known={sorted(known)}")
        rc = 1 if unlisted else 0
        return rc
    except MachineryError as exc:
        print(f"MACHINERY-ERROR property={prop}: {exc}", file=sys.stderr)
        return 2
    except Exception:  # noqa: BLE001
        traceback.print_exc()
        print(f"MACHINERY-ERROR property={prop}: unexpected exception in the harness", file=sys.stderr)
        return 2
    finally:
        tlcmod.cleanup_scratch()
