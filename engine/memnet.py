"""In-memory transports honouring the asyncio.Transport contract.

MemTransport is attached to one protocol.  The harness (or a peer transport)
delivers inbound bytes with feed(); while the protocol has paused reading the
bytes queue inside the transport, like a socket buffer.  Outbound bytes are
appended to .written (and forwarded to .peer if a pipe was made with pipe()).
close()/abort() schedule protocol.connection_lost() with call_soon, as real
transports do.
"""
from __future__ import annotations

import asyncio
from typing import Any, Callable, List, Optional


class MemTransport(asyncio.Transport):
    def __init__(self, loop: asyncio.AbstractEventLoop, protocol: Any = None, *,
                 extra: Optional[dict] = None, name: str = "t") -> None:
        super().__init__(extra or {})
        self.loop = loop
        self.protocol = protocol
        self.name = name
        self.written = bytearray()
        self.writes: List[bytes] = []
        self.inbox: List[bytes] = []        # inbound bytes waiting while reading is paused
        self.reading_paused = False
        self.closing = False
        self.closed = False                 # connection_lost delivered
        self.aborted = False
        self.eof_written = False
        self.peer: Optional["MemTransport"] = None
        self.on_write: Optional[Callable[[bytes], None]] = None
        self.pause_calls = 0
        self.resume_calls = 0
        self.log: List[Any] = []
        self._lost_exc: Optional[BaseException] = None
        self.write_paused = False           # harness-controlled back-pressure
        self.hold_inbound_eof = False
        self._eof_pending = False

    # ---- asyncio.BaseTransport
    def get_extra_info(self, name: str, default: Any = None) -> Any:
        return self._extra.get(name, default)

    def is_closing(self) -> bool:
        return self.closing

    def close(self) -> None:
        if self.closing:
            return
        self.closing = True
        self.log.append("close")
        self.loop.call_soon(self._call_connection_lost, None)
        if self.peer is not None and not self.peer.closing:
            self.loop.call_soon(self.peer.peer_closed)

    def abort(self) -> None:
        self.aborted = True
        self.close()

    def set_protocol(self, protocol: Any) -> None:
        self.protocol = protocol

    def get_protocol(self) -> Any:
        return self.protocol

    # ---- read side
    def is_reading(self) -> bool:
        return not self.reading_paused and not self.closing

    def pause_reading(self) -> None:
        self.pause_calls += 1
        self.reading_paused = True
        self.log.append("pause")

    def resume_reading(self) -> None:
        self.resume_calls += 1
        was = self.reading_paused
        self.reading_paused = False
        self.log.append("resume")
        if was and (self.inbox or self._eof_pending):
            self.loop.call_soon(self._drain_inbox)

    def _drain_inbox(self) -> None:
        while self.inbox and not self.reading_paused and not self.closed:
            data = self.inbox.pop(0)
            self.protocol.data_received(data)
        if self._eof_pending and not self.inbox and not self.reading_paused and not self.closed:
            self._eof_pending = False
            self._deliver_eof()

    def feed(self, data: bytes) -> bool:
        """Inbound bytes from the network. Returns True if delivered now."""
        if self.closed or self.closing:
            return False
        if self.reading_paused or self.inbox:
            self.inbox.append(data)
            return False
        self.protocol.data_received(data)
        return True

    def feed_eof(self) -> None:
        """Peer half-closed."""
        if self.closed or self.closing:
            return
        if self.reading_paused or self.inbox:
            self._eof_pending = True
            return
        self._deliver_eof()

    def _deliver_eof(self) -> None:
        keep = self.protocol.eof_received()
        if not keep:
            self.close()

    def peer_closed(self) -> None:
        """The other end closed the connection (FIN after all data)."""
        self.feed_eof()

    def drop(self, exc: Optional[BaseException] = None) -> None:
        """Connection lost abruptly (RST / network failure)."""
        if self.closed:
            return
        self.closing = True
        self.inbox.clear()
        self.loop.call_soon(self._call_connection_lost, exc)

    def _call_connection_lost(self, exc: Optional[BaseException]) -> None:
        if self.closed:
            return
        self.closed = True
        self.closing = True
        try:
            self.protocol.connection_lost(exc)
        finally:
            pass

    # ---- write side
    def write(self, data: Any) -> None:
        if self.closing:
            self.log.append(("write-after-close", len(data)))
            return
        b = bytes(data)
        if not b:
            return
        self.written += b
        self.writes.append(b)
        if self.on_write is not None:
            self.on_write(b)
        if self.peer is not None:
            self.loop.call_soon(self.peer.feed, b)

    def writelines(self, list_of_data: Any) -> None:
        self.write(b"".join(bytes(x) for x in list_of_data))

    def write_eof(self) -> None:
        self.eof_written = True
        if self.peer is not None:
            self.loop.call_soon(self.peer.feed_eof)

    def can_write_eof(self) -> bool:
        return True

    def get_write_buffer_size(self) -> int:
        return 0

    def get_write_buffer_limits(self) -> Any:
        return (16384, 65536)

    def set_write_buffer_limits(self, high: Any = None, low: Any = None) -> None:
        pass

    # harness-controlled write back-pressure
    def pause_protocol_writing(self) -> None:
        if not self.write_paused:
            self.write_paused = True
            self.protocol.pause_writing()

    def resume_protocol_writing(self) -> None:
        if self.write_paused:
            self.write_paused = False
            self.protocol.resume_writing()

    def take_written(self) -> bytes:
        b = bytes(self.written)
        self.written.clear()
        return b


def attach(loop: asyncio.AbstractEventLoop, protocol: Any, **kw: Any) -> MemTransport:
    tr = MemTransport(loop, protocol, **kw)
    protocol.connection_made(tr)
    return tr


def pipe(loop: asyncio.AbstractEventLoop, proto_a: Any, proto_b: Any) -> tuple:
    """Connect two protocols back to back; bytes written on one arrive at the other
    one loop iteration later (call_soon), never synchronously."""
    ta = MemTransport(loop, proto_a, name="a")
    tb = MemTransport(loop, proto_b, name="b")
    ta.peer, tb.peer = tb, ta
    proto_a.connection_made(ta)
    proto_b.connection_made(tb)
    return ta, tb
