"""wirekit - a real aiohttp client talking to a real aiohttp server, in memory, through a relay
that re-segments the byte stream of each direction.

    kit = WireKit(loop, app)                      # app: web.Application (AppRunner.setup() is run)
    kit.scripts = (Whole(), ByteWise(600))        # (client->server, server->client) for the next link
    t = kit.spawn("r1", coro using kit.session)   # real ClientSession
    kit.settle(30)                                # run ready handles and timers for <= 30 virtual s
    link = kit.links[i]                           # one per connection the connector created
    link.c2s / link.s2c                           # Direction: .sent (all bytes written), .delivered
    link.srv_closed / link.cli_closed             # which end closed its transport
    link.own_close                                # ends that closed on their own decision: a FIN is delivered to the peer
                                                  # only once the loop is idle (settle), so a close that happened before any
                                                  # FIN delivery was decided without knowing what the other end does
    kit.close()

Both protocol objects are the real ones: the connector is a BaseConnector subclass whose
_create_connection() builds a real ResponseHandler, asks the real web.Server for a real
RequestHandler and joins the two with a Link.  Nothing here judges anything.

Segmentation scripts (one per direction) decide how many of the pending bytes the next
delivery hands to data_received(); exactly one delivery per direction per loop iteration:
    Whole()            everything pending (writes of one iteration coalesce)
    ByteWise(limit)    one byte at a time up to stream offset `limit`, then everything pending
    Cuts([o1, o2..])   deliveries end at the absolute stream offsets o1 < o2 < ... (and wherever the
                       pending bytes end); after the last offset everything pending
    Fixed(k)           k bytes at a time

Wire helpers (an independent, minimal splitter - the TLA+ monitor re-checks its arithmetic):
    parse_head(buf, start) -> dict | None     start line, header list, offset of the first body byte
    split_chunked(buf, start) -> dict         chunk records of a chunked body starting at `start`
    cut_plans(wire, heads) -> {name: [offsets]}   content-dependent cut offsets of a recorded stream
"""
from __future__ import annotations

import asyncio
from asyncio import constants as aio_constants
from asyncio import transports as aio_transports
from typing import Any, Dict, List, Optional, Tuple

from .memnet import MemTransport


# ---------------------------------------------------------------- segmentation scripts
class Whole:
    name = "whole"

    def take(self, off: int, avail: int) -> int:
        return avail


class ByteWise:
    def __init__(self, limit: int = 1 << 30) -> None:
        self.limit = limit
        self.name = f"byte<{limit}"

    def take(self, off: int, avail: int) -> int:
        return 1 if off < self.limit else avail


class Fixed:
    def __init__(self, k: int) -> None:
        self.k = max(1, k)
        self.name = f"fixed{k}"

    def take(self, off: int, avail: int) -> int:
        return min(self.k, avail)


class Cuts:
    def __init__(self, offsets: List[int], name: str = "cuts") -> None:
        self.offsets = sorted(set(o for o in offsets if o > 0))
        self.name = name

    def take(self, off: int, avail: int) -> int:
        for o in self.offsets:
            if o > off:
                return min(avail, o - off)
        return avail


# ---------------------------------------------------------------- transports and relay
class WireTransport(aio_transports._FlowControlMixin, MemTransport):
    """One end of a Link.  Outbound bytes go to the link's direction queue.
    (_FlowControlMixin + _sendfile_compatible: loop.sendfile() accepts it in fallback mode.)"""

    _sendfile_compatible = aio_constants._SendfileMode.FALLBACK

    def __init__(self, loop: Any, protocol: Any, link: "Link", side: str, **kw: Any) -> None:
        MemTransport.__init__(self, loop, protocol, **kw)
        self._loop = loop
        self._protocol_paused = False
        self._set_write_buffer_limits()
        self.link = link
        self.side = side            # "c" | "s"
        self.dr_excs: List[BaseException] = []
        self.n_deliveries = 0

    def _deliver(self, data: bytes) -> None:
        self.n_deliveries += 1
        try:
            self.protocol.data_received(data)
        except (SystemExit, KeyboardInterrupt):
            raise
        except BaseException as exc:  # noqa: BLE001 - the asyncio transport contract
            self.dr_excs.append(exc)
            self.loop.call_exception_handler({
                "message": "Fatal error: protocol.data_received() call failed.",
                "exception": exc, "transport": self, "protocol": self.protocol})
            self.drop(exc)

    def feed(self, data: bytes) -> bool:
        if self.closed or self.closing:
            return False
        if self.reading_paused or self.inbox:
            self.inbox.append(data)
            return False
        self._deliver(data)
        return True

    def _drain_inbox(self) -> None:
        while self.inbox and not self.reading_paused and not self.closed and not self.closing:
            self._deliver(self.inbox.pop(0))
        if self._eof_pending and not self.inbox and not self.reading_paused and not self.closed:
            self._eof_pending = False
            self._deliver_eof()

    def write(self, data: Any) -> None:
        if self.closing:
            self.log.append(("write-after-close", len(data)))
            return
        b = bytes(data)
        if not b:
            return
        self.written += b
        self.writes.append(b)
        self.link._enqueue(self.side, b)

    def write_eof(self) -> None:
        self.eof_written = True
        self.link._fin(self.side)

    def close(self) -> None:
        if self.closing:
            return
        self.link._note_close(self.side)
        self.closing = True
        self.log.append("close")
        self.loop.call_soon(self._call_connection_lost, None)
        self.link._fin(self.side)

    def drop(self, exc: Optional[BaseException] = None) -> None:
        if not self.closing:
            self.link._note_close(self.side)
        super().drop(exc)
        self.link._fin(self.side)


class Direction:
    def __init__(self, name: str, script: Any) -> None:
        self.name = name
        self.script = script
        self.sent = bytearray()         # everything the sender wrote
        self.pending = bytearray()
        self.off = 0                    # stream offset of the next byte to deliver
        self.fin = False                # sender closed / half-closed
        self.fin_held = False           # all data delivered, the FIN waits for Link.release_fins()
        self.fin_done = False
        self.pump_scheduled = False
        self.segments = 0
        self.lost = 0                   # bytes that reached a receiver that was already closed


class Link:
    """client protocol <-> server protocol with a scripted relay in each direction."""

    def __init__(self, loop: Any, cproto: Any, sproto: Any, scripts: Tuple[Any, Any], idx: int = 0) -> None:
        self.loop = loop
        self.idx = idx
        self.c2s = Direction("c2s", scripts[0])
        self.s2c = Direction("s2c", scripts[1])
        self.close_order: List[str] = []
        self.own_close: set = set()      # ends that closed before any FIN had been delivered on this link
        self.hold_fin = True             # FINs are delivered only by release_fins() (WireKit.settle: when the loop is idle)
        self.decided = False
        self.c_tr = WireTransport(loop, cproto, self, "c", name=f"c{idx}")
        self.s_tr = WireTransport(loop, sproto, self, "s", name=f"s{idx}",
                                  extra={"peername": ("127.0.0.1", 40000 + idx), "sockname": ("127.0.0.1", 80)})
        self.cproto = cproto
        self.sproto = sproto
        sproto.connection_made(self.s_tr)
        cproto.connection_made(self.c_tr)

    # ---- observation
    @property
    def srv_closed(self) -> bool:
        return self.s_tr.closing

    @property
    def cli_closed(self) -> bool:
        return self.c_tr.closing

    def first_closer(self) -> str:
        return self.close_order[0] if self.close_order else ""

    # ---- plumbing
    def _dir(self, side: str) -> Tuple[Direction, WireTransport]:
        return (self.c2s, self.s_tr) if side == "c" else (self.s2c, self.c_tr)

    def _note_close(self, side: str) -> None:
        if side not in self.close_order:
            self.close_order.append(side)
            if not (self.c2s.fin_done or self.s2c.fin_done):
                self.own_close.add(side)

    def _enqueue(self, side: str, data: bytes) -> None:
        d, _ = self._dir(side)
        d.sent += data
        d.pending += data
        self._schedule(side)

    def _fin(self, side: str) -> None:
        d, _ = self._dir(side)
        if not d.fin:
            d.fin = True
            self._schedule(side)

    def _schedule(self, side: str) -> None:
        d, _ = self._dir(side)
        if not d.pump_scheduled:
            d.pump_scheduled = True
            self.loop.call_soon(self._pump, side)

    def _pump(self, side: str) -> None:
        d, rx = self._dir(side)
        d.pump_scheduled = False
        if d.pending:
            n = max(1, min(len(d.pending), d.script.take(d.off, len(d.pending))))
            seg = bytes(d.pending[:n])
            del d.pending[:n]
            d.off += n
            d.segments += 1
            if rx.closing or rx.closed:
                d.lost += n
            else:
                rx.feed(seg)
        if d.pending:
            self._schedule(side)
        elif d.fin and not d.fin_done:
            if self.hold_fin:
                d.fin_held = True
            else:
                self._deliver_fin(side)

    def _deliver_fin(self, side: str) -> None:
        d, rx = self._dir(side)
        if d.fin_done:
            return
        d.fin_done = True
        d.fin_held = False
        if not (rx.closing or rx.closed):
            rx.feed_eof()

    def fins_held(self) -> bool:
        return (self.c2s.fin_held and not self.c2s.fin_done) or (self.s2c.fin_held and not self.s2c.fin_done)

    def release_fins(self) -> None:
        """Deliver the FINs that are waiting.  Until the first call each end has decided about the connection
        without knowing what the other end did: own_close is exactly the set of ends that chose to close."""
        for side in ("c", "s"):
            d, _ = self._dir(side)
            if d.fin_held and not d.fin_done and not d.pending:
                self._deliver_fin(side)


class WireKit:
    def __init__(self, loop: Any, app: Any, *, server_kw: Optional[dict] = None,
                 session_kw: Optional[dict] = None, connector_kw: Optional[dict] = None) -> None:
        import aiohttp
        from aiohttp.client_proto import ResponseHandler
        from aiohttp.connector import BaseConnector

        from . import srvkit

        srvkit.enable_eager(loop)
        self.loop = loop
        self.srv = srvkit.ServerKit(loop, app=app, mode="app", **(server_kw or {}))
        self.links: List[Link] = []
        self.scripts: Tuple[Any, Any] = (Whole(), Whole())
        self.tasks: Dict[str, asyncio.Task] = {}
        self.aiohttp = aiohttp
        kit = self

        class WireConnector(BaseConnector):
            async def _create_connection(self, req: Any, traces: Any, timeout: Any) -> Any:  # type: ignore[override]
                cproto = ResponseHandler(kit.loop)
                sproto = kit.srv.server()
                link = Link(kit.loop, cproto, sproto, kit.scripts, idx=len(kit.links))
                kit.links.append(link)
                return cproto

        self._connector_cls = WireConnector
        self._connector_kw = dict(connector_kw or {})
        self._session_kw = dict(session_kw or {})
        self.session: Any = None
        self.new_session()

    def new_session(self, **over: Any) -> Any:
        """(Re)create the ClientSession + connector; the server (app, runner) is kept."""
        if self.session is not None and not self.session.closed:
            self.close_session()
        ckw = dict(self._connector_kw)
        ckw.update(over.pop("connector_kw", {}))
        ckw.setdefault("enable_cleanup_closed", False)
        ckw.setdefault("keepalive_timeout", 3600.0)      # the pool's idle timer must not fire inside settle()
        skw = dict(self._session_kw)
        skw.update(over)
        self.connector = self._connector_cls(**ckw)
        self.session = self.aiohttp.ClientSession(connector=self.connector, **skw)
        return self.session

    def spawn(self, name: str, coro: Any) -> asyncio.Task:
        t = self.loop.create_task(coro)
        self.tasks[name] = t
        return t

    def settle(self, horizon: float = 0.0, max_steps: int = 2000000) -> None:
        """Run until nothing is ready; fire timers that are due within `horizon` virtual seconds."""
        deadline = self.loop.time() + horizon
        while True:
            self.loop.run_until_idle(timers=False, max_steps=max_steps)
            if horizon > 0 and self.loop.advance(limit=deadline):
                continue
            # nothing is ready and no timer is due within the horizon: only now do the FINs travel
            held = [ln for ln in self.links if ln.fins_held()]
            if held:
                for ln in held:
                    ln.release_fins()
                continue
            break

    def close_session(self) -> None:
        async def _c() -> None:
            await self.session.close()
        t = self.loop.create_task(_c())
        self.loop.run_until_idle()
        for tk in list(self.tasks.values()):
            if not tk.done():
                tk.cancel()
        self.loop.run_until_idle()
        for tk in self.tasks.values():
            if tk.done() and not tk.cancelled():
                tk.exception()
        if t.done() and not t.cancelled():
            t.exception()
        self.tasks.clear()

    def drop_links(self) -> None:
        """Tear down every connection (both ends) and forget them."""
        for ln in self.links:
            for tr in (ln.c_tr, ln.s_tr):
                if not tr.closed:
                    tr.drop(None)
        self.loop.run_until_idle()
        self.links.clear()

    def close(self) -> None:
        self.close_session()
        self.drop_links()
        self.srv.close()
        self.loop.run_until_idle()
        self.loop._scheduled.clear()
        self.loop.exc_contexts.clear()


# ---------------------------------------------------------------- wire helpers
def parse_head(buf: bytes, start: int = 0) -> Optional[dict]:
    """Start line + header fields of the message that begins at `start` (None if incomplete).
    Leading empty lines are skipped (RFC 9112 2.2).  Names are lower-cased; values stripped of OWS."""
    n = len(buf)
    while buf[start:start + 2] == b"\r\n":
        start += 2
    end = buf.find(b"\r\n\r\n", start)
    if end < 0:
        return None
    lines = buf[start:end].split(b"\r\n")
    headers: List[Tuple[str, str]] = []
    for ln in lines[1:]:
        k, sep, v = ln.partition(b":")
        headers.append((k.decode("latin-1").lower(), v.decode("utf-8", "surrogateescape").strip(" \t")))
    return {"start": start, "line": lines[0].decode("utf-8", "surrogateescape"), "headers": headers,
            "body_at": min(end + 4, n)}


def split_chunked(buf: bytes, start: int) -> dict:
    """Chunk records of a chunked body that begins at `start`.
    -> {"ok": complete and well formed, "short": not complete but a well-formed prefix (the bytes just end),
        "recs": [[size_line_len, size], ...] (incl. the last-chunk with size 0),
        "trailer": bytes of the trailer section incl. its final CRLF, "end": offset after the body,
        "data": the de-chunked bytes}"""
    p = start
    recs: List[List[int]] = []
    data = bytearray()
    n = len(buf)

    def out(ok: bool, short: bool, trailer: int, end: int) -> dict:
        return {"ok": ok, "short": short, "recs": recs, "trailer": trailer, "end": end, "data": bytes(data)}
    hexd = b"0123456789abcdefABCDEF"
    while True:
        le = buf.find(b"\r\n", p)
        if le < 0:
            rest = buf[p:]
            clean = all(c in hexd for c in rest.rstrip(b"\r")) and rest.count(b"\r") <= 1
            return out(False, clean, 0, p)
        line = buf[p:le]
        hexpart = line.split(b";", 1)[0]
        if not hexpart or any(c not in hexd for c in hexpart):
            return out(False, False, 0, p)
        size = int(hexpart, 16)
        recs.append([len(line), size])
        p = le + 2
        if size == 0:
            # trailer section: zero or more field lines, then CRLF
            q = p
            while True:
                te = buf.find(b"\r\n", q)
                if te < 0:
                    return out(False, True, 0, p)
                if te == q:
                    return out(True, False, te + 2 - p, te + 2)
                q = te + 2
        if n < p + size + 2:
            recs.pop()
            return out(False, buf[p + size:] in (b"", b"\r"), 0, p)
        if buf[p + size:p + size + 2] != b"\r\n":
            return out(False, False, 0, p)
        data += buf[p:p + size]
        p += size + 2


def cut_plans(wire: bytes, head: Optional[dict], chunked: bool) -> Dict[str, List[int]]:
    """Content-dependent cut offsets for one direction of a recorded exchange (first message)."""
    plans: Dict[str, List[int]] = {}
    if head is None:
        return plans
    b = head["body_at"]
    s = head["start"]
    mid = s + max(1, (b - s) // 2)
    plans["head-mid"] = [mid]
    plans["head-crlf"] = [b - 3, b - 1]               # inside the final CRLFCRLF
    plans["head-line1"] = [s + 3, wire.find(b"\r\n", s) + 1]   # inside the start line, between its CR and LF
    plans["head|body"] = [b]
    nbody = len(wire) - b
    if nbody > 0:
        th = [b + t + d for t in (2048, 65536) for d in (-1, 0, 1) if 0 < t + d < nbody]
        if th:
            plans["body-thresholds"] = th
        plans["body-1"] = [b + 1, len(wire) - 1]
    if chunked and nbody > 0:
        le = wire.find(b"\r\n", b)
        if le > b:
            plans["chunk-size-line"] = [b + 1, le, le + 1]     # inside the hex digits / before LF
            plans["chunk-size-line2"] = [le + 1, le + 3]
        endc = len(wire)
        plans["chunk-last"] = [max(b + 1, endc - 4), endc - 2, endc - 1]     # inside 0CRLFCRLF
    return plans
