"""Client-side kit: a real ClientSession whose connections are real ResponseHandlers on
in-memory transports with a scripted peer at the other end.

    kit = ClientKit(loop, limit=..., limit_per_host=..., session_kw={...})
    t = kit.spawn("r1", kit.session.get("http://a/x"))     # task; run with kit.loop
    c = kit.conns[i]                                         # PeerConn objects in creation order
    c.requests()        -> list of parsed requests the client wrote so far (method, target, headers, body)
    c.feed(b"...")      -> bytes from the peer (queues while the client paused reading)
    c.close_by_peer() / c.drop(exc)
    c.owner             -> name of the request currently holding this connection (None = idle/pooled)
    kit.create_gate     -> if set to a dict name->Future, _create_connection waits on it (stall/fail)

The connector is a BaseConnector subclass: no DNS, no sockets, no TLS; everything above
(_request loop, ClientRequest, ResponseHandler, HttpResponseParser, StreamReader, CookieJar,
pool accounting) is the real code from the repository.
"""
from __future__ import annotations

import asyncio
from typing import Any, Callable, Dict, List, Optional

from .memnet import MemTransport


class PeerConn:
    def __init__(self, kit: "ClientKit", idx: int, key: Any, proto: Any, tr: MemTransport) -> None:
        self.kit = kit
        self.idx = idx
        self.key = key
        self.proto = proto
        self.tr = tr
        self.owner: Optional[str] = None
        self.history: List[str] = []      # names of the requests that used this connection
        self._parsed_upto = 0
        self._reqs: List[dict] = []

    # ---- what the client wrote
    def raw(self) -> bytes:
        return bytes(self.tr.written)

    def requests(self) -> List[dict]:
        """Parse complete requests (head + Content-Length / chunked body) out of the written bytes."""
        buf = bytes(self.tr.written)
        pos = self._parsed_upto
        while True:
            end = buf.find(b"\r\n\r\n", pos)
            if end < 0:
                break
            head = buf[pos:end].split(b"\r\n")
            try:
                method, target, version = head[0].decode("latin-1").split(" ", 2)
            except ValueError:
                break
            headers = []
            for ln in head[1:]:
                k, _, v = ln.partition(b":")
                headers.append((k.decode("latin-1").strip(), v.decode("latin-1").strip()))
            hd = {k.lower(): v for k, v in headers}
            body_start = end + 4
            if hd.get("transfer-encoding", "").lower().endswith("chunked"):
                body = bytearray()
                p = body_start
                complete = False
                while True:
                    le = buf.find(b"\r\n", p)
                    if le < 0:
                        break
                    try:
                        size = int(buf[p:le].split(b";")[0].strip() or b"0", 16)
                    except ValueError:
                        break
                    if size == 0:
                        te = buf.find(b"\r\n\r\n", le)
                        if buf[le:le + 4] == b"\r\n\r\n":
                            p = le + 4
                            complete = True
                        elif te >= 0:
                            p = te + 4
                            complete = True
                        break
                    if len(buf) < le + 2 + size + 2:
                        break
                    body += buf[le + 2:le + 2 + size]
                    p = le + 2 + size + 2
                if not complete:
                    break
                nxt = p
            else:
                n = int(hd.get("content-length", "0") or 0)
                if len(buf) < body_start + n:
                    break
                body = bytearray(buf[body_start:body_start + n])
                nxt = body_start + n
            self._reqs.append({"method": method, "target": target, "version": version,
                               "headers": headers, "body": bytes(body)})
            pos = nxt
        self._parsed_upto = pos
        return list(self._reqs)

    # ---- what the peer does
    def feed(self, data: bytes) -> bool:
        return self.tr.feed(data)

    def close_by_peer(self) -> None:
        self.tr.feed_eof()

    def drop(self, exc: Optional[BaseException] = None) -> None:
        self.tr.drop(exc or ConnectionResetError("reset by peer (harness)"))

    @property
    def open(self) -> bool:
        return not self.tr.closing


class ClientKit:
    def __init__(self, loop: Any, *, limit: int = 100, limit_per_host: int = 0,
                 keepalive_timeout: float = 3600.0, force_close: bool = False,
                 session_kw: Optional[dict] = None) -> None:
        import aiohttp
        from aiohttp.client_proto import ResponseHandler
        from aiohttp.connector import BaseConnector, Connection

        self.loop = loop
        self.conns: List[PeerConn] = []
        self.create_gate: Optional[Dict[str, asyncio.Future]] = None
        self.on_create: Optional[Callable[[PeerConn], None]] = None
        self.current: Optional[str] = None
        self.tasks: Dict[str, asyncio.Task] = {}
        self.acquire_log: List[tuple] = []     # (request name, conn idx, request key)
        self.acquire_alive: List[bool] = []
        kit = self

        class KitConnector(BaseConnector):
            async def _create_connection(self, req: Any, traces: Any, timeout: Any) -> Any:  # type: ignore[override]
                gate = kit.create_gate
                if gate is not None:
                    fut = kit.loop.create_future()
                    gate[kit._task_name()] = fut
                    res = await fut
                    if isinstance(res, BaseException):
                        raise res
                proto = ResponseHandler(kit.loop)
                tr = MemTransport(kit.loop, proto, name=f"c{len(kit.conns)}")
                proto.connection_made(tr)
                pc = PeerConn(kit, len(kit.conns), req.connection_key, proto, tr)
                kit.conns.append(pc)
                if kit.on_create is not None:
                    kit.on_create(pc)
                return proto

            async def connect(self, req: Any, traces: Any, timeout: Any) -> Any:  # type: ignore[override]
                conn = await super().connect(req, traces, timeout)
                name = kit._task_name()
                pc = kit.by_proto(conn.protocol)
                if pc is not None:
                    pc.owner = name
                    pc.history.append(name)
                    kit.acquire_log.append((name, pc.idx, req.connection_key))
                    kit.acquire_alive.append(pc.open)   # was the transport still open when it was handed out?
                    conn.add_callback(lambda pc=pc, name=name: kit._released(pc, name))
                return conn

        self.connector = KitConnector(limit=limit, limit_per_host=limit_per_host,
                                      keepalive_timeout=keepalive_timeout, force_close=force_close,
                                      enable_cleanup_closed=False)
        kw = dict(session_kw or {})
        self.session = aiohttp.ClientSession(connector=self.connector, **kw)
        self.release_log: List[tuple] = []

    def _released(self, pc: PeerConn, name: str) -> None:
        if pc.owner == name:
            pc.owner = None
        self.release_log.append((name, pc.idx))

    def _task_name(self) -> str:
        t = asyncio.current_task()
        for n, tk in self.tasks.items():
            if tk is t:
                return n
        return self.current or "?"

    def by_proto(self, proto: Any) -> Optional[PeerConn]:
        for pc in self.conns:
            if pc.proto is proto:
                return pc
        return None

    def spawn(self, name: str, coro: Any) -> asyncio.Task:
        t = self.loop.create_task(coro)
        self.tasks[name] = t
        return t

    def close(self) -> None:
        async def _c() -> None:
            await self.session.close()
        t = self.loop.create_task(_c())
        self.loop.run_until_idle()
        for tk in list(self.tasks.values()):
            if not tk.done():
                tk.cancel()
        self.loop.run_until_idle()
        for tk in self.tasks.values():
            if tk.done() and not tk.cancelled():
                tk.exception()
        if t.done() and not t.cancelled():
            t.exception()
        self.loop._scheduled.clear()
        self.loop.exc_contexts.clear()


def http_response(status: int = 200, headers: Optional[List[tuple]] = None, body: bytes = b"",
                  *, version: str = "HTTP/1.1", reason: str = "OK", chunked: bool = False,
                  content_length: Optional[bool] = True) -> bytes:
    lines = [f"{version} {status} {reason}".encode("latin-1")]
    hs = list(headers or [])
    if chunked:
        hs.append(("Transfer-Encoding", "chunked"))
    elif content_length:
        hs.append(("Content-Length", str(len(body))))
    for k, v in hs:
        lines.append(f"{k}: {v}".encode("latin-1"))
    head = b"\r\n".join(lines) + b"\r\n\r\n"
    if chunked:
        out = bytearray()
        if body:
            out += f"{len(body):x}\r\n".encode() + body + b"\r\n"
        out += b"0\r\n\r\n"
        return head + bytes(out)
    return head + body
