"""wskit - drive one real aiohttp WebSocket session (server or client side) in memory.

Nothing here judges anything: it builds, drives, records.

Codec (independent of aiohttp, RFC 6455 section 5.2)
    encode_frame(opcode, payload=b"", *, fin=True, mask=None, rsv=0) -> bytes
    close_payload(code, reason=b"") -> bytes
    FrameDecoder().feed(data) -> [Frame(fin, rsv, opcode, masked, payload)]
    frame_kind(frame) -> "data" | "ping" | "pong" | "close" | "cont" | "other";  close_code(frame)

Sessions
    ServerSession(loop, ws_kw, compress=False)
                                 real web.Server -> RequestHandler on a MemTransport; the scripted
                                 peer sends the upgrade request; the handler prepares a real
                                 WebSocketResponse(**ws_kw) and parks until tear-down, so
                                 connection_lost -> _cancel(exc) is the real path
                                 compress=True: permessage-deflate is negotiated (frames the peer sends stay
                                 uncompressed, which the extension permits)
    ClientSession_(loop, ws_kw, compress=False)
                                 engine.clikit.ClientKit; ClientSession.ws_connect(**ws_kw); the
                                 scripted peer answers the upgrade with a 101 computed from
                                 Sec-WebSocket-Key; .ws is the real ClientWebSocketResponse
  both:  .ws  .tr (MemTransport of our side)  .side
         .on_tx = fn(kind, code)   called at write time for every frame WE put on the wire
         .on_tclose = fn()         called when our side calls transport.close()
         .deliver(kind, code)      bytes of one peer frame reach data_received now; returns False
                                   if the transport no longer accepts data
         .peer_frame_bytes(kind, code) -> bytes
         .drop() / .eof()          connection lost abruptly / peer FIN
         .local_close()            our side tears the connection down without the WebSocket object (client:
                                   ResponseHandler.close(), what session/connector close() do; server: transport.close())
         .pause_writing() / .resume_writing()     write back-pressure from the transport
         .teardown()

BLoop(loop)   iteration-accurate stepping of a StepLoop (the "|" marker of spec/WsSession.tla)
    .at_boundary()  .begin()  .head() -> label of the next handle  .step() -> label
    .io(fn, *args)  queue a network event as a handle (call at a boundary)
    .tick(dt=1) -> [labels of the timers that became due]      .settle()
    label(handle): task name | "io:<kind>" | "lost" | "tmo<task>" | "hb" | "pong" | "hbflush" |
                   "exec" "stask" "bgdone" "shield" "odone" (large compressed send) | "other:<name>"
"""
from __future__ import annotations

import asyncio
import base64
import hashlib
import struct
import threading
from asyncio import tasks as _tasks
from typing import Any, Callable, Dict, List, NamedTuple, Optional

from .memnet import MemTransport

WS_GUID = b"258EAFA5-E914-47DA-95CA-C5AB0DC85B11"

OP_CONT, OP_TEXT, OP_BIN, OP_CLOSE, OP_PING, OP_PONG = 0, 1, 2, 8, 9, 10


# ------------------------------------------------------------------ codec
def _mask(payload: bytes, key: bytes) -> bytes:
    return bytes(b ^ key[i & 3] for i, b in enumerate(payload))


def encode_frame(opcode: int, payload: bytes = b"", *, fin: bool = True, mask: Optional[bytes] = None,
                 rsv: int = 0) -> bytes:
    b0 = (0x80 if fin else 0) | ((rsv & 7) << 4) | (opcode & 0x0F)
    n = len(payload)
    mbit = 0x80 if mask is not None else 0
    if n < 126:
        head = bytes([b0, mbit | n])
    elif n < 65536:
        head = bytes([b0, mbit | 126]) + struct.pack("!H", n)
    else:
        head = bytes([b0, mbit | 127]) + struct.pack("!Q", n)
    if mask is not None:
        return head + mask + _mask(payload, mask)
    return head + payload


def close_payload(code: int, reason: bytes = b"") -> bytes:
    return struct.pack("!H", code) + reason


class Frame(NamedTuple):
    fin: bool
    rsv: int
    opcode: int
    masked: bool
    payload: bytes


class FrameDecoder:
    def __init__(self) -> None:
        self.buf = bytearray()

    def feed(self, data: bytes) -> List[Frame]:
        self.buf += data
        out: List[Frame] = []
        while True:
            b = self.buf
            if len(b) < 2:
                break
            fin, rsv, op = bool(b[0] & 0x80), (b[0] >> 4) & 7, b[0] & 0x0F
            masked, n = bool(b[1] & 0x80), b[1] & 0x7F
            pos = 2
            if n == 126:
                if len(b) < 4:
                    break
                n = struct.unpack("!H", bytes(b[2:4]))[0]
                pos = 4
            elif n == 127:
                if len(b) < 10:
                    break
                n = struct.unpack("!Q", bytes(b[2:10]))[0]
                pos = 10
            key = b""
            if masked:
                if len(b) < pos + 4:
                    break
                key = bytes(b[pos:pos + 4])
                pos += 4
            if len(b) < pos + n:
                break
            payload = bytes(b[pos:pos + n])
            if masked:
                payload = _mask(payload, key)
            del self.buf[:pos + n]
            out.append(Frame(fin, rsv, op, masked, payload))
        return out


def frame_kind(f: Frame) -> str:
    return {OP_TEXT: "data", OP_BIN: "data", OP_CONT: "cont", OP_CLOSE: "close", OP_PING: "ping",
            OP_PONG: "pong"}.get(f.opcode, "other")


def close_code(f: Frame) -> int:
    return struct.unpack("!H", f.payload[:2])[0] if f.opcode == OP_CLOSE and len(f.payload) >= 2 else 0


def accept_value(key: str) -> str:
    return base64.b64encode(hashlib.sha1(key.encode() + WS_GUID).digest()).decode()


# ------------------------------------------------------------------ loop helpers
def enable_eager(loop: Any) -> None:
    """asyncio.Task(..., eager_start=True) starts eagerly only on a running loop."""
    loop._thread_id = threading.get_ident()


class BLoop:
    """Single-handle stepping that knows where the _run_once boundaries are."""

    def __init__(self, loop: Any, names: Optional[Dict[Any, str]] = None) -> None:
        self.loop = loop
        self.iter_handles: List[Any] = []
        self.names: Dict[Any, str] = names if names is not None else {}
        self.extra_handles = 0

    def live(self) -> List[Any]:
        return [h for h in self.loop._ready if not h._cancelled]

    def at_boundary(self) -> bool:
        """No handle of the iteration in progress is left (cancelled handles do not count)."""
        if self.iter_handles:
            ids = {id(h) for h in self.iter_handles}
            if not any(id(h) in ids for h in self.live()):
                self.iter_handles = []
        return not self.iter_handles

    def idle(self) -> bool:
        return not self.live()

    def begin(self) -> None:
        self.iter_handles = list(self.live())       # references keep the ids unique

    def label(self, h: Any) -> str:
        cb = h._callback
        owner = getattr(cb, "__self__", None)
        if isinstance(owner, _tasks._PyTask):
            if owner in self.names:
                return self.names[owner]
            cn = getattr(owner.get_coro(), "__name__", "")
            return "stask" if cn == "_send_compressed_frame_async_locked" else "task:?"
        name = getattr(cb, "__name__", "") or type(cb).__name__
        if name == "_io_deliver":
            return "io:" + str(h._args[0])
        if name == "_io_resume":
            return "resume"
        if name in ("_call_connection_lost",):
            return "lost"
        if name == "_on_timeout":
            return "tmo" + self.names.get(getattr(owner, "_task", None), "?")
        if name == "_send_heartbeat":
            return "hb"
        if name == "_pong_not_received":
            return "pong"
        if name == "_flush_heartbeat_reset":
            return "hbflush"
        if name == "_run":                      # StepLoop.run_in_executor job (deflate of a large message)
            return "exec"
        if name == "discard":                   # WebSocketWriter._background_tasks.discard
            return "bgdone"
        if name == "_inner_done_callback":      # asyncio.shield
            return "shield"
        if name == "_outer_done_callback":
            return "odone"
        return "other:" + name

    def head(self) -> Optional[str]:
        lv = self.live()
        return self.label(lv[0]) if lv else None

    def step(self) -> Optional[str]:
        if self.at_boundary():
            self.begin()
        lv = self.live()
        if not lv:
            return None
        lab = self.label(lv[0])
        self.loop.step_one()
        return lab

    def io(self, fn: Callable, *args: Any) -> None:
        self.loop.call_soon(fn, *args)

    def tick(self, dt: float = 1.0) -> List[str]:
        """Advance virtual time by dt; timers that became due are queued and the iteration begins."""
        before = len(self.loop._ready)
        self.loop._vtime += dt
        self.loop._move_due_timers()
        new = [h for h in list(self.loop._ready)[before:] if not h._cancelled]
        if new:
            self.begin()
        return [self.label(h) for h in new]

    def settle(self, max_steps: int = 100000) -> int:
        n = 0
        while self.live():
            self.step()
            n += 1
            if n > max_steps:
                raise RuntimeError("BLoop.settle: step budget exceeded")
        self.iter_handles = []
        return n


def _quiet_logger() -> Any:
    import logging

    lg = logging.getLogger("verif.wskit.quiet")
    lg.propagate = False
    if not lg.handlers:
        lg.addHandler(logging.NullHandler())
    lg.setLevel(logging.CRITICAL + 1)
    return lg


# ------------------------------------------------------------------ sessions
class _Session:
    side = ""

    def __init__(self, loop: Any) -> None:
        self.loop = loop
        self.ws: Any = None
        self.tr: Optional[MemTransport] = None
        self.on_tx: Optional[Callable[[str, int], None]] = None
        self.on_tclose: Optional[Callable[[], None]] = None
        self._dec = FrameDecoder()
        self.tx_frames: List[Frame] = []
        self.mask_peer = False

    # -- wire observation
    def _hook(self, tr: MemTransport, skip: int) -> None:
        self.tr = tr
        state = {"skip": skip}

        def on_write(b: bytes) -> None:
            if state["skip"] > 0:
                k = min(state["skip"], len(b))
                state["skip"] -= k
                b = b[k:]
            if not b:
                return
            for f in self._dec.feed(b):
                self.tx_frames.append(f)
                if self.on_tx is not None:
                    self.on_tx(frame_kind(f), close_code(f))

        tr.on_write = on_write
        orig_close = tr.close

        def close() -> None:
            was = tr.closing
            orig_close()
            if not was and self.on_tclose is not None:
                self.on_tclose()

        tr.close = close  # type: ignore[method-assign]

    # -- the scripted peer
    def peer_frame_bytes(self, kind: str, code: int = 0) -> bytes:
        mask = b"\x11\x22\x33\x44" if self.mask_peer else None
        if kind == "data":
            return encode_frame(OP_TEXT, b"hello", mask=mask)
        if kind == "ping":
            return encode_frame(OP_PING, b"p", mask=mask)
        if kind == "pong":
            return encode_frame(OP_PONG, b"", mask=mask)
        if kind == "close":
            return encode_frame(OP_CLOSE, close_payload(code or 1000, b"bye"), mask=mask)
        if kind == "bad":
            return encode_frame(0x0B, b"", mask=mask)      # reserved control opcode: PROTOCOL_ERROR 1002
        raise ValueError(kind)

    def deliver(self, kind: str, code: int = 0) -> bool:
        assert self.tr is not None
        if self.tr.closing or self.tr.closed:
            return False
        self.tr.feed(self.peer_frame_bytes(kind, code))
        return True

    def drop(self) -> None:
        assert self.tr is not None
        self.tr.drop(ConnectionResetError("reset by peer (harness)"))

    def eof(self) -> None:
        assert self.tr is not None
        self.tr.feed_eof()

    def local_close(self) -> None:
        """The connection is torn down from OUR side by somebody else than the WebSocket object."""
        assert self.tr is not None
        self.tr.close()

    def pause_writing(self) -> None:
        assert self.tr is not None
        if not self.tr.closing:
            self.tr.pause_protocol_writing()

    def resume_writing(self) -> None:
        assert self.tr is not None
        self.tr.resume_protocol_writing()


class ServerSession(_Session):
    side = "server"

    def __init__(self, loop: Any, ws_kw: Optional[dict] = None, *, compress: bool = False) -> None:
        super().__init__(loop)
        from aiohttp import web

        self.mask_peer = True       # clients mask
        self.park: asyncio.Future = loop.create_future()
        self.handler_exc: Optional[BaseException] = None
        sess = self

        async def handler(request: Any) -> Any:
            ws = web.WebSocketResponse(compress=compress, **(ws_kw or {}))
            await ws.prepare(request)
            sess.ws = ws
            try:
                await sess.park
            except asyncio.CancelledError:
                raise
            return ws

        self.server = web.Server(handler, access_log=None, logger=_quiet_logger())
        self.proto = self.server()
        tr = MemTransport(loop, self.proto, name="srv",
                          extra={"peername": ("127.0.0.1", 40000), "sockname": ("127.0.0.1", 80)})
        self.proto.connection_made(tr)
        key = base64.b64encode(b"0123456789abcdef").decode()
        req = (f"GET /ws HTTP/1.1\r\nHost: h\r\nUpgrade: websocket\r\nConnection: Upgrade\r\n"
               f"Sec-WebSocket-Key: {key}\r\nSec-WebSocket-Version: 13\r\n"
               + ("Sec-WebSocket-Extensions: permessage-deflate\r\n" if compress else "") + "\r\n").encode()
        tr.feed(req)
        loop.run_until_idle()
        if self.ws is None or b"101" not in bytes(tr.written[:16]):
            raise RuntimeError(f"server upgrade failed: {bytes(tr.written[:80])!r}")
        if bool(self.ws.compress) != compress:
            raise RuntimeError("permessage-deflate negotiation did not go as scripted")
        self.handler_task = self.proto._task_handler
        self._hook(tr, 0)
        tr.written.clear()

    def teardown(self) -> None:
        loop = self.loop
        if not self.park.done():
            self.park.set_result(None)
        loop.run_until_idle()
        assert self.tr is not None
        if not self.tr.closed:
            self.tr.drop(None)
        loop.run_until_idle()
        t = self.handler_task
        if t is not None and not t.done():
            t.cancel()
            loop.run_until_idle()
        try:
            loop.run_coro(self.server.shutdown(0.01))
        except Exception:  # noqa: BLE001
            pass
        loop._scheduled.clear()


class ClientSession_(_Session):
    side = "client"

    def __init__(self, loop: Any, ws_kw: Optional[dict] = None, *, compress: bool = False) -> None:
        super().__init__(loop)
        from .clikit import ClientKit

        self.kit = ClientKit(loop)
        kw = dict(ws_kw or {})
        kw["compress"] = 15 if compress else 0
        t = self.kit.spawn("ws", self.kit.session.ws_connect("http://host/ws", **kw))
        loop.run_until_idle()
        if not self.kit.conns:
            raise RuntimeError("client did not connect")
        c = self.kit.conns[0]
        reqs = c.requests()
        if not reqs:
            raise RuntimeError("client wrote no upgrade request")
        hd = {k.lower(): v for k, v in reqs[0]["headers"]}
        resp = ("HTTP/1.1 101 Switching Protocols\r\nUpgrade: websocket\r\nConnection: upgrade\r\n"
                f"Sec-WebSocket-Accept: {accept_value(hd['sec-websocket-key'])}\r\n"
                + ("Sec-WebSocket-Extensions: permessage-deflate\r\n" if compress else "") + "\r\n").encode()
        c.feed(resp)
        loop.run_until_idle()
        if not t.done() or t.exception() is not None:
            raise RuntimeError(f"ws_connect failed: {t!r}")
        self.ws = t.result()
        if bool(self.ws.compress) != compress:
            raise RuntimeError("permessage-deflate negotiation did not go as scripted")
        self.conn = c
        self._hook(c.tr, 0)
        c.tr.written.clear()

    def local_close(self) -> None:
        self.conn.proto.close()

    def teardown(self) -> None:
        assert self.tr is not None
        if not self.tr.closed:
            self.tr.drop(None)
        self.loop.run_until_idle()
        try:
            self.ws._response.close()
        except Exception:  # noqa: BLE001
            pass
        self.kit.close()
        self.loop._scheduled.clear()
