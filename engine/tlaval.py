"""Parser for TLA+ values as TLC prints them (states, PrintT output, simulate files).

Mapping: record -> dict, function (a :> b @@ ...) -> dict, sequence -> list,
set -> frozenset (or sorted list when unhashable), string -> str, int -> int,
TRUE/FALSE -> bool, model value / identifier -> ModelValue(str).
"""
from __future__ import annotations

import re
from typing import Any, Tuple


class ModelValue(str):
    def __repr__(self) -> str:  # pragma: no cover
        return f"MV({str.__repr__(self)})"


_ws = re.compile(r"\s*")
_int = re.compile(r"-?\d+")
_ident = re.compile(r"[A-Za-z_][A-Za-z0-9_!]*")


class _P:
    def __init__(self, s: str) -> None:
        self.s = s
        self.i = 0

    def ws(self) -> None:
        self.i = _ws.match(self.s, self.i).end()

    def peek(self, tok: str) -> bool:
        self.ws()
        return self.s.startswith(tok, self.i)

    def eat(self, tok: str) -> None:
        self.ws()
        if not self.s.startswith(tok, self.i):
            raise ValueError(f"expected {tok!r} at {self.i}: {self.s[self.i:self.i+40]!r}")
        self.i += len(tok)

    def value(self) -> Any:
        self.ws()
        s, i = self.s, self.i
        if s.startswith("<<", i):
            self.i += 2
            out = []
            if self.peek(">>"):
                self.eat(">>")
                return out
            while True:
                out.append(self.value())
                if self.peek(","):
                    self.eat(",")
                    continue
                self.eat(">>")
                return out
        if s.startswith("[", i):
            self.i += 1
            d = {}
            if self.peek("]"):
                self.eat("]")
                return d
            while True:
                self.ws()
                m = _ident.match(self.s, self.i)
                if not m:
                    raise ValueError(f"record field expected at {self.i}")
                self.i = m.end()
                self.eat("|->")
                d[m.group()] = self.value()
                if self.peek(","):
                    self.eat(",")
                    continue
                self.eat("]")
                return d
        if s.startswith("{", i):
            self.i += 1
            out = []
            if self.peek("}"):
                self.eat("}")
                return frozenset()
            while True:
                out.append(self.value())
                if self.peek(","):
                    self.eat(",")
                    continue
                self.eat("}")
                try:
                    return frozenset(_freeze(x) for x in out)
                except TypeError:
                    return out
        if s.startswith("(", i):
            self.i += 1
            d = {}
            while True:
                k = self.value()
                self.eat(":>")
                v = self.value()
                d[_freeze(k)] = v
                if self.peek("@@"):
                    self.eat("@@")
                    continue
                self.eat(")")
                return d
        if s.startswith('"', i):
            j = i + 1
            buf = []
            while s[j] != '"':
                if s[j] == "\\":
                    j += 1
                    buf.append({"n": "\n", "t": "\t", "r": "\r"}.get(s[j], s[j]))
                else:
                    buf.append(s[j])
                j += 1
            self.i = j + 1
            return "".join(buf)
        m = _int.match(s, i)
        if m:
            self.i = m.end()
            # ranges a..b are printed for intervals
            if self.s.startswith("..", self.i):
                self.i += 2
                m2 = _int.match(self.s, self.i)
                self.i = m2.end()
                return frozenset(range(int(m.group()), int(m2.group()) + 1))
            return int(m.group())
        m = _ident.match(s, i)
        if m:
            self.i = m.end()
            w = m.group()
            if w == "TRUE":
                return True
            if w == "FALSE":
                return False
            return ModelValue(w)
        raise ValueError(f"cannot parse TLA+ value at {i}: {s[i:i+60]!r}")


def _freeze(x: Any) -> Any:
    if isinstance(x, dict):
        return tuple(sorted((k, _freeze(v)) for k, v in x.items()))
    if isinstance(x, list):
        return tuple(_freeze(v) for v in x)
    if isinstance(x, (set, frozenset)):
        return frozenset(_freeze(v) for v in x)
    return x


def parse_value(s: str) -> Any:
    p = _P(s)
    v = p.value()
    p.ws()
    if p.i != len(p.s):
        raise ValueError(f"trailing text after value: {p.s[p.i:p.i+40]!r}")
    return v


def parse_value_prefix(s: str, start: int = 0) -> Tuple[Any, int]:
    p = _P(s)
    p.i = start
    v = p.value()
    return v, p.i


_conj = re.compile(r"^\s*/\\\s*([A-Za-z_][A-Za-z0-9_]*)\s*=\s*", re.M)


def parse_state(text: str) -> dict:
    """Parse a TLC state: lines '/\\ var = value' (values may span lines)."""
    out = {}
    ms = list(_conj.finditer(text))
    if not ms:
        # single-variable states are printed as 'var = value'
        m = re.match(r"\s*([A-Za-z_][A-Za-z0-9_]*)\s*=\s*", text)
        if m:
            out[m.group(1)] = parse_value(text[m.end():].strip())
        return out
    for k, m in enumerate(ms):
        end = ms[k + 1].start() if k + 1 < len(ms) else len(text)
        out[m.group(1)] = parse_value(text[m.end():end].strip())
    return out
