"""Deterministic single-step asyncio event loop with virtual time.

The loop keeps asyncio's FIFO ready queue and timer heap but has no selector:
  * step_one()      pops and runs exactly one ready handle
  * run_iteration() runs the handles that are ready *now* (one _run_once batch)
  * advance()       (only when nothing is ready) jumps virtual time to the next
                    timer deadline and moves due timers to the ready queue
  * run_until_idle  iterate until no ready handle remains (optionally firing timers)

asyncio.Task / asyncio.Future are replaced by the pure-Python classes in the
harness process so that a ready handle can be attributed to the task it steps
(handle._callback.__self__).  External stimuli (network deliveries, peer close)
are injected by the driver between iterations, exactly where a selector loop
would deliver them.
"""
from __future__ import annotations

import asyncio
import heapq
from asyncio import base_events, events, futures, tasks
from typing import Any, Callable, List, Optional


def install_py_tasks() -> None:
    """Use the pure-Python Task/Future so handles can be attributed to tasks."""
    asyncio.Task = tasks.Task = tasks._PyTask  # type: ignore[misc]
    asyncio.Future = futures.Future = futures._PyFuture  # type: ignore[misc]
    asyncio.tasks.Task = tasks._PyTask  # type: ignore[misc]
    asyncio.futures.Future = futures._PyFuture  # type: ignore[misc]
    # the C accelerated helpers keep their own registries; switch to the python ones
    for name in (
        "_register_task",
        "_unregister_task",
        "_enter_task",
        "_leave_task",
        "_swap_current_task",
        "current_task",
        "all_tasks",
    ):
        py = getattr(tasks, "_py_" + name, None)
        if py is not None:
            setattr(tasks, name, py)
            if hasattr(asyncio, name):
                setattr(asyncio, name, py)
    if hasattr(futures, "_PyFuture"):
        pass


class StepLoop(base_events.BaseEventLoop):
    """asyncio loop stepped by the harness; time is virtual."""

    def __init__(self) -> None:
        super().__init__()
        self._vtime = 0.0
        self._clock_resolution = 1e-9
        self.exc_contexts: List[dict] = []
        self.set_exception_handler(self._record_exc)
        self.steps = 0
        self._executor_inline = True

    # -- BaseEventLoop plumbing -------------------------------------------------
    def time(self) -> float:  # virtual clock
        return self._vtime

    def _process_events(self, event_list: Any) -> None:  # pragma: no cover
        pass

    def _write_to_self(self) -> None:
        pass

    def _record_exc(self, loop: Any, context: dict) -> None:
        self.exc_contexts.append(context)

    def run_in_executor(self, executor: Any, func: Callable, *args: Any):  # type: ignore[override]
        # run inline but complete on a later loop step, like a thread hop would
        fut = self.create_future()

        def _run() -> None:
            if fut.cancelled():
                return
            try:
                res = func(*args)
            except BaseException as exc:  # noqa: BLE001
                if not fut.cancelled():
                    fut.set_exception(exc)
            else:
                if not fut.cancelled():
                    fut.set_result(res)

        self.call_soon(_run)
        return fut

    # -- stepping ---------------------------------------------------------------
    def install(self) -> "StepLoop":
        events._set_running_loop(None)
        asyncio.set_event_loop(self)
        events._set_running_loop(self)
        return self

    def uninstall(self) -> None:
        events._set_running_loop(None)
        asyncio.set_event_loop(None)

    def _drop_cancelled_head(self) -> None:
        while self._ready and self._ready[0]._cancelled:
            self._ready.popleft()

    def ready_count(self) -> int:
        return sum(1 for h in self._ready if not h._cancelled)

    def peek_task(self) -> Optional[Any]:
        """Task that the head ready handle will step, or None."""
        self._drop_cancelled_head()
        if not self._ready:
            return None
        cb = self._ready[0]._callback
        owner = getattr(cb, "__self__", None)
        if isinstance(owner, tasks._PyTask):
            return owner
        return None

    def ready_owners(self) -> List[Any]:
        out = []
        for h in self._ready:
            if h._cancelled:
                continue
            out.append(getattr(h._callback, "__self__", None))
        return out

    def step_one(self) -> bool:
        self._drop_cancelled_head()
        if not self._ready:
            return False
        h = self._ready.popleft()
        self.steps += 1
        h._run()
        return True

    def run_iteration(self) -> int:
        """One _run_once: move due timers, then run handles ready at entry."""
        self._move_due_timers()
        n = len(self._ready)
        ran = 0
        for _ in range(n):
            if not self._ready:
                break
            h = self._ready.popleft()
            if h._cancelled:
                continue
            self.steps += 1
            h._run()
            ran += 1
        return ran

    def _move_due_timers(self) -> None:
        sched = self._scheduled
        while sched and sched[0]._cancelled:
            h = heapq.heappop(sched)
            h._scheduled = False
            self._timer_cancelled_count = max(0, self._timer_cancelled_count - 1)
        end = self._vtime + self._clock_resolution
        while sched and sched[0]._when < end:
            h = heapq.heappop(sched)
            h._scheduled = False
            if h._cancelled:
                self._timer_cancelled_count = max(0, self._timer_cancelled_count - 1)
                continue
            self._ready.append(h)

    def next_timer(self) -> Optional[float]:
        live = [h._when for h in self._scheduled if not h._cancelled]
        return min(live) if live else None

    def pending_timers(self) -> List[Any]:
        return [h for h in self._scheduled if not h._cancelled]

    def advance(self, limit: Optional[float] = None) -> bool:
        """Jump to the next timer deadline (<= limit); queue due timers."""
        nt = self.next_timer()
        if nt is None:
            if limit is not None and limit > self._vtime:
                self._vtime = limit
            return False
        if limit is not None and nt > limit:
            self._vtime = max(self._vtime, limit)
            return False
        self._vtime = max(self._vtime, nt)
        self._move_due_timers()
        return True

    def advance_to(self, when: float) -> None:
        """Run everything (ready handles and timers) up to virtual time `when`."""
        while True:
            self.run_until_idle(timers=False)
            nt = self.next_timer()
            if nt is None or nt > when:
                break
            self.advance()
        self._vtime = max(self._vtime, when)
        self._move_due_timers()
        self.run_until_idle(timers=False)

    def run_until_idle(self, timers: bool = False, max_steps: int = 200000,
                       until: Optional[float] = None) -> int:
        """Run ready handles until none remain; if timers, also fire timers (<= until)."""
        ran = 0
        while True:
            self._move_due_timers()
            self._drop_cancelled_head()
            if self._ready:
                ran += self.run_iteration()
                if ran > max_steps:
                    raise RuntimeError("StepLoop: step budget exceeded (livelock?)")
                continue
            if timers and self.advance(limit=until):
                continue
            return ran

    def run_coro(self, coro: Any, timers: bool = True, until: Optional[float] = None,
                 max_steps: int = 200000) -> Any:
        """Convenience: run a coroutine to completion on the stepping loop."""
        t = self.create_task(coro)
        ran = 0
        while not t.done():
            n = self.run_until_idle(timers=False, max_steps=max_steps)
            ran += n
            if t.done():
                break
            if not (timers and self.advance(limit=until)):
                if not self._ready:
                    break
        if not t.done():
            raise StuckError(t)
        return t.result()

    def is_idle(self) -> bool:
        self._drop_cancelled_head()
        return not self._ready

    def close(self) -> None:  # type: ignore[override]
        self._ready.clear()
        self._scheduled.clear()
        try:
            super().close()
        except Exception:  # noqa: BLE001
            pass


class StuckError(RuntimeError):
    def __init__(self, task: Any) -> None:
        super().__init__(f"task did not finish: {task!r}")
        self.task = task


def new_loop() -> StepLoop:
    install_py_tasks()
    return StepLoop().install()
