"""Shared harness for C01 / C03 / C10: drive the real aiohttp HTTP parsers (and a real
server connection) with a byte stream under a given segmentation, record what they did,
and hand the records to TLC (spec/HttpFramingTrace.tla).  Nothing here interprets HTTP:
the records hold raw bytes / flags / exception class names; every grammar, framing and
limit decision is taken by the TLA+ reference.
"""
from __future__ import annotations

import logging
import sys
from dataclasses import dataclass
from typing import Any, Dict, Iterable, List, Optional, Sequence, Tuple

from . import steploop
from .memnet import attach
from .tlc import MachineryError, validate_batch

TRACE_MODULE = "HttpFramingTrace"
TRACE_CFG = "HttpFramingTrace.cfg"

# named known deviations the trace spec can emit (clause names; see HttpFraming.tla / HttpFramingTrace.tla)
DEV_CLAUSES = {
    "TargetCTLAccepted", "AbsTargetEmptyHostAccepted",
    "TEonHTTP10Accepted", "HeadRequestBodySkipped", "ChunkExtCTLAccepted",
    "LimitByCallPosition", "LimitCutBeforeLF", "DataAfterCloseSegDependent",
    "BodyError5xx", "StalePauseStall", "LaxChunkCRSegDependent", "ErrorTextNotEncodable",
}


@dataclass(frozen=True)
class Limits:
    max_line: int = 8190
    max_field: int = 8190
    max_headers: int = 128
    limit: int = 2 ** 16          # read buffer limit of the payload StreamReader

    def key(self) -> Tuple[int, int, int, int]:
        return (self.max_line, self.max_field, self.max_headers, self.limit)


DEFAULT_LIMITS = Limits()
# work bound constants (C10): line events inside http_parser.py per feed_data call
#   work <= WA * bytes_in_call + WB * retained_before + WC      (fitted x4 on the unchanged tree)
#   sum(work) <= WRA * sum(bytes) + WRK * calls + WC            (per run, amortised)
# measured on the unchanged tree over generated / adversarial streams: 12, 8, 310 and 10, 29; margin x4
WA, WB, WC = 48, 32, 1240
WRA, WRK = 40, 120


def tla_cfg(mode: str, lim: Limits, *, until_eof: bool = False, with_body: bool = True,
            decode: bool = False, expect: Sequence[bytes] = ()) -> dict:
    return {"mode": mode, "lax": mode == "response", "maxLine": lim.max_line, "maxField": lim.max_field,
            "maxHeaders": lim.max_headers, "untilEof": bool(until_eof), "withBody": bool(with_body),
            "bodyOpaque": bool(decode), "expect": [list(b) for b in expect],
            "limit": min(lim.limit, 2 ** 30), "wA": WA, "wB": WB, "wC": WC, "wRA": WRA, "wRK": WRK}


_loop: Optional[steploop.StepLoop] = None


def get_loop() -> steploop.StepLoop:
    global _loop
    if _loop is None:
        _loop = steploop.new_loop()
        logging.disable(logging.CRITICAL)
    return _loop


def segments(data: bytes, cuts: Sequence[int]) -> List[bytes]:
    out = []
    prev = 0
    for c in cuts:
        if c <= prev or c >= len(data):
            continue
        out.append(data[prev:c])
        prev = c
    out.append(data[prev:])
    return out


# ---------------------------------------------------------------- work meter (C10)
class WorkMeter:
    """Counts Python line events executed inside aiohttp/http_parser.py (sys.monitoring,
    scoped to that module's code objects).  Never wall clock."""

    TOOL = 4

    def __init__(self) -> None:
        import aiohttp.http_parser as hp

        self.count = [0]
        self.mon = sys.monitoring
        try:
            self.mon.use_tool_id(self.TOOL, "verif-http")
        except ValueError:
            self.mon.free_tool_id(self.TOOL)
            self.mon.use_tool_id(self.TOOL, "verif-http")
        cnt = self.count

        def on_line(code: Any, line: int) -> Any:
            cnt[0] += 1

        self.mon.register_callback(self.TOOL, self.mon.events.LINE, on_line)
        self.codes = []
        seen = set()

        def add_code(co: Any) -> None:
            if id(co) in seen or co.co_filename != hp.__file__:
                return
            seen.add(id(co))
            self.codes.append(co)
            for k in co.co_consts:
                if hasattr(k, "co_code"):
                    add_code(k)

        for obj in vars(hp).values():
            if getattr(obj, "__module__", None) != hp.__name__:
                continue
            if hasattr(obj, "__code__"):
                add_code(obj.__code__)
            elif isinstance(obj, type):
                for m in vars(obj).values():
                    f = getattr(m, "__func__", m)
                    if hasattr(f, "__code__"):
                        add_code(f.__code__)
                    elif isinstance(m, property) and m.fget is not None:
                        add_code(m.fget.__code__)
        if len(self.codes) < 10:
            raise MachineryError("work meter: could not find the parser's code objects")
        for co in self.codes:
            self.mon.set_local_events(self.TOOL, co, self.mon.events.LINE)

    def close(self) -> None:
        for co in self.codes:
            self.mon.set_local_events(self.TOOL, co, 0)
        self.mon.register_callback(self.TOOL, self.mon.events.LINE, None)
        self.mon.free_tool_id(self.TOOL)


# ---------------------------------------------------------------- parser level
class _Stub:
    """Transport stand-in: only flow control is observed."""

    def __init__(self) -> None:
        self.paused = False

    def pause_reading(self) -> None:
        self.paused = True

    def resume_reading(self) -> None:
        self.paused = False

    def get_extra_info(self, name: str, default: Any = None) -> Any:
        return default

    def is_closing(self) -> bool:
        return False


def _is_limit_exc(e: BaseException) -> bool:
    from aiohttp.http_exceptions import LineTooLong

    if isinstance(e, LineTooLong):
        return True
    msg = getattr(e, "message", "") or ""
    return isinstance(msg, str) and msg.startswith("Too many")


class ParserRun:
    """One stream fed to one fresh parser under one segmentation."""

    __slots__ = ("mode", "parser", "proto", "msgs", "exc", "eof_exc", "upgraded", "tail", "calls",
                 "meter", "dead", "hang", "fed_eof")

    def __init__(self, mode: str, lim: Limits, *, until_eof: bool = False, with_body: bool = True,
                 meter: Optional[WorkMeter] = None, decode: bool = False) -> None:
        from aiohttp.base_protocol import BaseProtocol
        from aiohttp import http_parser as hp

        loop = get_loop()
        run = self

        class Proto(BaseProtocol):
            __slots__ = ()

            def data_received(self, data: bytes) -> None:   # resume_reading() -> data_received(b"")
                run._feed(data)

        self.mode = mode
        self.proto = Proto(loop)
        self.proto.transport = _Stub()  # type: ignore[assignment]
        req_cls = getattr(hp, "HttpRequestParserPy", None) or hp.HttpRequestParser
        resp_cls = getattr(hp, "HttpResponseParserPy", None) or hp.HttpResponseParser
        if mode == "request":
            self.parser = req_cls(self.proto, loop, lim.limit, max_line_size=lim.max_line,
                                  max_field_size=lim.max_field, max_headers=lim.max_headers,
                                  auto_decompress=decode)
        else:
            self.parser = resp_cls(self.proto, loop, lim.limit, max_line_size=lim.max_line,
                                   max_field_size=lim.max_field, max_headers=lim.max_headers,
                                   auto_decompress=decode, read_until_eof=until_eof,
                                   response_with_body=with_body)
        self.proto._parser = self.parser
        self.msgs: List[list] = []     # [msg, payload, bytearray body, set chunk ends]
        self.exc: Optional[BaseException] = None
        self.eof_exc: Optional[BaseException] = None
        self.upgraded = False
        self.tail = bytearray()
        self.calls: List[list] = []
        self.meter = meter
        self.dead = False
        self.hang = False
        self.fed_eof = False

    # -- retained bytes (C10): incomplete line + lines of an incomplete header/trailer block
    def _retained(self) -> Tuple[int, int, int]:
        p = self.parser
        tail = len(getattr(p, "_tail", b"") or b"")
        ls = getattr(p, "_lines", None) or ()
        lines = sum(len(x) for x in ls)
        n = len(ls)
        pp = getattr(p, "_payload_parser", None)
        if pp is not None:
            tail += len(getattr(pp, "_chunk_tail", b"") or b"")
            ts = getattr(pp, "_trailer_lines", None) or ()
            lines += sum(len(x) for x in ts)
            n += len(ts)
        return tail, lines, n

    def _feed(self, data: bytes) -> None:
        if self.dead:
            return
        meter = self.meter
        if meter is not None:
            t0, l0, _n0 = self._retained()
            w0 = meter.count[0]
        raised = 0
        try:
            out, upgraded, tail = self.parser.feed_data(data)
        except BaseException as e:  # noqa: BLE001 - the class that escapes is the observation
            if isinstance(e, (KeyboardInterrupt, SystemExit, MemoryError)):
                raise
            self.exc = e
            self.dead = True
            raised = 1
            out, upgraded, tail = (), False, b""
        if meter is not None:
            t1, l1, n1 = self._retained()
            self.calls.append([len(data), t0 + l0, t1, l1, meter.count[0] - w0, raised, n1])
        for m, p in out:
            self.msgs.append([m, p, bytearray(), set()])
        if upgraded:
            self.upgraded = True
            if tail:
                self.tail += tail

    def _drain(self) -> None:
        """Act as the body consumer: take whatever the payload readers hold (this is also what
        resumes a parser that paused itself on the read-buffer limit)."""
        for guard in range(10000):
            progressed = False
            for rec in self.msgs:
                p = rec[1]
                if not hasattr(p, "_buffer"):
                    continue
                if p.exception() is not None:
                    continue
                sp = getattr(p, "_http_chunk_splits", None)
                if sp:
                    rec[3].update(sp)
                try:
                    d = p.read_nowait(-1)
                except BaseException as e:  # noqa: BLE001
                    if isinstance(e, (KeyboardInterrupt, SystemExit, MemoryError)):
                        raise
                    d = b""
                if d:
                    rec[2] += d
                    progressed = True
            if not progressed:
                return
        self.hang = True

    def run(self, data: bytes, cuts: Sequence[int], eof: bool = True) -> None:
        for seg in segments(data, cuts):
            if self.dead:
                break
            self._feed(seg)
            self._drain()
        if eof and not self.dead:
            self.fed_eof = True
            try:
                self.parser.feed_eof()
            except BaseException as e:  # noqa: BLE001
                if isinstance(e, (KeyboardInterrupt, SystemExit, MemoryError)):
                    raise
                self.eof_exc = e
            self._drain()

    # -- outcome
    def key(self) -> tuple:
        from aiohttp.http_exceptions import HttpProcessingError

        ms = []
        limitish = False
        for m, p, body, ends in self.msgs:
            pe = p.exception()
            if pe is not None and not isinstance(pe, BaseException):
                pe = pe()  # a class
            if pe is not None and _is_limit_exc(pe):
                limitish = True
            splits_known = hasattr(p, "_http_chunk_splits") or not hasattr(p, "_buffer")
            if self.mode == "request":
                head = (m.method.encode("utf-8", "surrogateescape"), m.path.encode("utf-8", "surrogateescape"),
                        int(m.version[0]), int(m.version[1]), 0, b"")
            else:
                head = (b"", b"", int(m.version[0]), int(m.version[1]), int(m.code),
                        m.reason.encode("utf-8", "surrogateescape"))
            ms.append(head + (tuple((bytes(k), bytes(v)) for k, v in m.raw_headers), bytes(body),
                              tuple(sorted(ends)), bool(splits_known), bool(p.is_eof()),
                              type(pe).__name__ if pe is not None else "",
                              isinstance(pe, HttpProcessingError) if pe is not None else True,
                              bool(m.should_close), bool(m.upgrade), bool(m.chunked)))
        e, ee = self.exc, self.eof_exc
        if e is not None and _is_limit_exc(e):
            limitish = True
        # input the parser still holds back at the end although nobody asked it to wait any more
        pend = bool(getattr(self.parser, "_payload_has_more_data", False)) and e is None
        after_close = e is not None and str(getattr(e, "message", "")).startswith("Data after")
        return (tuple(ms), type(e).__name__ if e else "", isinstance(e, HttpProcessingError) if e else True,
                limitish, type(ee).__name__ if ee else "", isinstance(ee, HttpProcessingError) if ee else True,
                self.upgraded, bytes(self.tail), self.hang, self.fed_eof, pend, after_close)


def blank_event() -> dict:
    return {"kind": "parse", "cutsets": [], "nruns": 0, "msgs": [], "exc": "", "excHttp": True, "excLimit": False,
            "eofExc": "", "eofHttp": True, "upgraded": False, "tail": [], "hang": False, "fedEof": True,
            "calls": [], "dispatched": [], "written": [], "closed": False, "loopExc": [], "taskExc": "",
            "pendingInput": False, "excAfterClose": False, "lastStartMax": 0}


def event_from_key(key: tuple) -> dict:
    ms, exc, exc_http, limitish, eof_exc, eof_http, upgraded, tail, hang, fed_eof, pend, after_close = key
    ev = blank_event()
    ev.update({"exc": exc, "excHttp": exc_http, "excLimit": limitish, "eofExc": eof_exc, "eofHttp": eof_http,
               "upgraded": upgraded, "tail": list(tail), "hang": hang, "fedEof": fed_eof, "pendingInput": pend,
               "excAfterClose": after_close})
    for (method, target, vmaj, vmin, code, reason, hdrs, body, ends, known, peof, perr, perr_http,
         close, upgrade, chunked) in ms:
        ev["msgs"].append({"method": list(method), "target": list(target), "vmaj": vmaj, "vmin": vmin, "code": code,
                           "reason": list(reason), "headers": [[list(k), list(v)] for k, v in hdrs],
                           "body": list(body), "chunks": list(ends), "chunksKnown": known, "peof": peof,
                           "perr": perr, "perrHttp": perr_http, "close": close, "upgrade": upgrade,
                           "chunked": chunked})
    return ev


def run_parser(mode: str, data: bytes, cuts: Sequence[int], lim: Limits, *, until_eof: bool = False,
               with_body: bool = True, meter: Optional[WorkMeter] = None, decode: bool = False) -> ParserRun:
    r = ParserRun(mode, lim, until_eof=until_eof, with_body=with_body, meter=meter, decode=decode)
    r.run(data, cuts)
    return r


# ---------------------------------------------------------------- client connection level
class ClientRun:
    """One response stream fed to a real aiohttp.client_proto.ResponseHandler on a MemTransport:
    observes how parser errors are mapped (client error + closed transport)."""

    def __init__(self, lim: Limits, *, until_eof: bool = False, with_body: bool = True) -> None:
        from aiohttp.client_proto import ResponseHandler

        self.loop = get_loop()
        self.proto = ResponseHandler(self.loop)
        self.tr = attach(self.loop, self.proto)
        self.msgs: List[list] = []
        self.loop_exc: List[str] = []
        self.begin(lim, until_eof=until_eof, with_body=with_body)

    def begin(self, lim: Limits, *, until_eof: bool = False, with_body: bool = True) -> None:
        """Start the next exchange on this connection the way ClientRequest.send() does: the response of THIS
        request is to be read with THESE limits (a pooled connection is reused with per-request settings)."""
        self.proto.set_response_params(read_until_eof=until_eof, skip_payload=not with_body,
                                       read_bufsize=lim.limit, max_line_size=lim.max_line,
                                       max_field_size=lim.max_field, max_headers=lim.max_headers,
                                       auto_decompress=False)
        self.msgs = []
        self.loop_exc = []

    def _pull(self) -> None:
        for _ in range(10000):
            n = len(self.proto)
            if n == 0:
                break
            try:
                m, p = self.loop.run_coro(self.proto.read())
            except BaseException as e:  # noqa: BLE001
                if isinstance(e, (KeyboardInterrupt, SystemExit, MemoryError)):
                    raise
                break
            self.msgs.append([m, p, bytearray(), set()])
        for rec in self.msgs:
            p = rec[1]
            if not hasattr(p, "_buffer") or p.exception() is not None:
                continue
            sp = getattr(p, "_http_chunk_splits", None)
            if sp:
                rec[3].update(sp)
            try:
                d = p.read_nowait(-1)
            except BaseException as e:  # noqa: BLE001
                if isinstance(e, (KeyboardInterrupt, SystemExit, MemoryError)):
                    raise
                d = b""
            if d:
                rec[2] += d

    def run(self, data: bytes, cuts: Sequence[int], keep_open: bool = False) -> dict:
        from aiohttp.client_exceptions import ClientError
        from aiohttp.http_exceptions import HttpProcessingError

        loop = self.loop
        loop.exc_contexts.clear()
        for seg in segments(data, cuts):
            if self.tr.closing:
                break
            try:
                self.tr.feed(seg)
            except BaseException as e:  # noqa: BLE001
                if isinstance(e, (KeyboardInterrupt, SystemExit, MemoryError)):
                    raise
                self.loop_exc.append(type(e).__name__)
                break
            loop.run_until_idle()
            for _ in range(50):
                before = sum(len(r[2]) for r in self.msgs) + len(self.msgs)
                self._pull()
                loop.run_until_idle()
                if sum(len(r[2]) for r in self.msgs) + len(self.msgs) == before:
                    break
        for c in loop.exc_contexts:
            ex = c.get("exception")
            if ex is not None:
                self.loop_exc.append(type(ex).__name__)
        loop.exc_contexts.clear()
        pe = self.proto.exception()
        cause = getattr(pe, "__cause__", None) if pe is not None else None
        under = cause if cause is not None else pe
        ev = blank_event()
        ms = []
        limitish = under is not None and _is_limit_exc(under)
        for m, p, body, ends in self.msgs:
            x = p.exception()
            xc = getattr(x, "__cause__", None) if x is not None else None
            if xc is not None and _is_limit_exc(xc):
                limitish = True
            ms.append({"method": [], "target": [], "vmaj": int(m.version[0]), "vmin": int(m.version[1]),
                       "code": int(m.code), "reason": list(m.reason.encode("utf-8", "surrogateescape")),
                       "headers": [[list(k), list(v)] for k, v in m.raw_headers], "body": list(bytes(body)),
                       "chunks": sorted(ends), "chunksKnown": hasattr(p, "_http_chunk_splits") or not hasattr(p, "_buffer"),
                       "peof": bool(p.is_eof()), "perr": type(x).__name__ if x is not None else "",
                       "perrHttp": isinstance(x, (HttpProcessingError, ClientError)) if x is not None else True,
                       "close": bool(m.should_close), "upgrade": bool(m.upgrade), "chunked": bool(m.chunked)})
        ev.update({"kind": "client", "msgs": ms,
                   "exc": type(under).__name__ if under is not None else "",
                   "excHttp": isinstance(under, HttpProcessingError) if under is not None else True,
                   "excLimit": bool(limitish), "fedEof": False,
                   "excAfterClose": under is not None and str(getattr(under, "message", "")).startswith("Data after"),
                   "closed": bool(self.tr.closing), "loopExc": list(self.loop_exc),
                   "taskExc": type(pe).__name__ if pe is not None else "",
                   "upgraded": bool(getattr(self.proto, "upgraded", False))})
        if not keep_open:
            self.close()
        return ev

    def close(self) -> None:
        if not self.tr.closed:
            self.tr.drop(None)
            self.loop.run_until_idle()
        self.loop.exc_contexts.clear()


def client_key(ev: dict) -> tuple:
    import json
    return (json.dumps(ev["msgs"], sort_keys=True), ev["exc"], ev["excHttp"], ev["closed"], tuple(ev["loopExc"]),
            ev["taskExc"], ev["upgraded"])


# ---------------------------------------------------------------- connection level
class ConnHarness:
    """A real aiohttp.web Application served by real RequestHandler objects on MemTransports
    under the stepping loop.  The handler reads the whole body and answers 200."""

    def __init__(self, lim: Limits) -> None:
        from aiohttp import web
        from aiohttp import web_response

        # the Date header is the only wall-clock dependent output: freeze it (harness process only)
        if getattr(web_response, "rfc822_formatted_time", None) is not None:
            web_response.rfc822_formatted_time = lambda: "Thu, 01 Jan 1970 00:00:00 GMT"  # type: ignore[assignment]
        self.loop = get_loop()
        self.lim = lim
        self.seen: List[dict] = []
        harness = self

        async def serve(request: Any) -> Any:
            rec = {"method": list(request.method.encode("utf-8", "surrogateescape")),
                   "target": list(str(getattr(getattr(request, "_message", None), "path", None) or request.raw_path)
                                  .encode("utf-8", "surrogateescape")),
                   "body": [], "bstate": "pending"}
            harness.seen.append(rec)
            try:
                body = await request.read()
            except BaseException as e:  # noqa: BLE001
                rec["bstate"] = "err:" + type(e).__name__
                raise
            rec["body"] = list(body)
            rec["bstate"] = "ok"
            return web.Response(text="ok")

        @web.middleware
        async def catch_all(request: Any, handler: Any) -> Any:
            try:
                return await handler(request)
            except (web.HTTPNotFound, web.HTTPMethodNotAllowed):
                return await serve(request)

        app = web.Application(middlewares=[catch_all], client_max_size=2 ** 26)
        app.router.add_route("*", "/{tail:.*}", serve)
        self.runner = web.AppRunner(app, max_line_size=lim.max_line, max_field_size=lim.max_field,
                                    max_headers=lim.max_headers, read_bufsize=lim.limit, access_log=None)
        self.loop.run_coro(self.runner.setup())

    def run(self, data: bytes, cuts: Sequence[int]) -> dict:
        loop = self.loop
        self.seen = []
        loop.exc_contexts.clear()
        proto = self.runner.server()
        tr = attach(loop, proto)
        loop.run_until_idle()
        loop_exc: List[str] = []
        for seg in segments(data, cuts):
            if tr.closing:
                break
            try:
                tr.feed(seg)
            except BaseException as e:  # noqa: BLE001 - escaped data_received: asyncio would drop the connection
                if isinstance(e, (KeyboardInterrupt, SystemExit, MemoryError)):
                    raise
                loop_exc.append(type(e).__name__)
                break
            if not self._settle():
                loop_exc.append("Livelock")      # the connection never becomes idle again: an observation, not a harness fault
                break
        for c in loop.exc_contexts:
            ex = c.get("exception")
            if ex is not None:
                loop_exc.append(type(ex).__name__)
        loop.exc_contexts.clear()
        task_exc = ""
        th = getattr(proto, "_task_handler", None)
        if th is not None and th.done() and not th.cancelled():
            ex = th.exception()
            if ex is not None:
                task_exc = type(ex).__name__
        ev = blank_event()
        seen, written = self.seen, bytes(tr.written)
        if "Livelock" in loop_exc:                # keep the record small: the verdict is the livelock itself
            seen, written = seen[:40], written[:4096]
        ev.update({"kind": "conn", "dispatched": [dict(r) for r in seen], "written": list(written),
                   "closed": bool(tr.closing), "loopExc": loop_exc, "taskExc": task_exc})
        # tidy up: end the connection
        if "Livelock" in loop_exc:
            th = getattr(proto, "_task_handler", None)
            if th is not None:
                th.cancel()
            tr.drop(None)
            if not self._settle():
                loop._ready.clear()               # discard whatever still spins; the next run gets a fresh connection
        else:
            if not tr.closing:
                try:
                    tr.feed_eof()
                    self._settle()
                except BaseException:  # noqa: BLE001
                    pass
            if not tr.closed:
                tr.drop(None)
                self._settle()
        loop.exc_contexts.clear()
        return ev

    def _settle(self) -> bool:
        """Run the loop until idle; False if it does not become idle within the step budget."""
        try:
            self.loop.run_until_idle(max_steps=30000)
            return True
        except RuntimeError as e:
            if "step budget" in str(e):
                return False
            raise


def conn_key(ev: dict) -> tuple:
    return (tuple((bytes(d["method"]), bytes(d["target"]), bytes(d["body"]), d["bstate"]) for d in ev["dispatched"]),
            bytes(ev["written"]), ev["closed"], tuple(ev["loopExc"]), ev["taskExc"])


# ---------------------------------------------------------------- groups -> traces -> TLC
class Group:
    """All observations of one (stream, configuration): distinct outcomes with the
    segmentations that produced them."""

    MAX_CUTSETS = 4

    def __init__(self, mode: str, data: bytes, lim: Limits, *, until_eof: bool = False, with_body: bool = True,
                 src: str = "", label: str = "", decode: bool = False, expect: Sequence[bytes] = ()) -> None:
        self.prelude: List[list] = []  # earlier exchanges on the same client connection: [stream, limits, cuts]
        self.decode = decode          # auto-decompression on: payloads hold decoded bytes
        self.expect = list(expect)    # plain text of the bodies the generator compressed
        self.mode = mode
        self.data = data
        self.lim = lim
        self.until_eof = until_eof
        self.with_body = with_body
        self.src = src
        self.label = label
        self.outcomes: Dict[tuple, dict] = {}
        self.order: List[tuple] = []
        self.nruns = 0

    def _add(self, key: tuple, make: Any, cuts: Sequence[int]) -> None:
        self.nruns += 1
        ev = self.outcomes.get(key)
        if ev is None:
            ev = make()
            self.outcomes[key] = ev
            self.order.append(key)
        ev["nruns"] += 1
        last_start = max([c for c in cuts if 0 < c < len(self.data)] or [0])
        if last_start > ev["lastStartMax"]:
            ev["lastStartMax"] = last_start
        if len(ev["cutsets"]) < self.MAX_CUTSETS:
            ev["cutsets"].append(list(cuts))

    def parse(self, cuts: Sequence[int], meter: Optional[WorkMeter] = None) -> ParserRun:
        r = run_parser(self.mode, self.data, cuts, self.lim, until_eof=self.until_eof, with_body=self.with_body,
                       meter=meter, decode=self.decode)
        k = r.key()
        if meter is not None:
            calls = r.calls
            k2 = ("parse", k, tuple(tuple(c) for c in calls))

            def make() -> dict:
                ev = event_from_key(k)
                ev["calls"] = [list(c) for c in calls]
                return ev
            self._add(k2, make, cuts)
        else:
            self._add(("parse", k), lambda: event_from_key(k), cuts)
        return r

    def client(self, cuts: Sequence[int]) -> dict:
        ev = ClientRun(self.lim, until_eof=self.until_eof, with_body=self.with_body).run(self.data, cuts)
        self._add(("client", client_key(ev)), lambda: ev, cuts)
        return ev

    def add_client_event(self, ev: dict, cuts: Sequence[int]) -> None:
        """Record a client-connection observation made elsewhere (an exchange on a reused connection)."""
        self._add(("client", client_key(ev)), lambda: ev, cuts)

    def conn(self, harness: ConnHarness, cuts: Sequence[int]) -> dict:
        ev = harness.run(self.data, cuts)
        self._add(("conn", conn_key(ev)), lambda: ev, cuts)
        return ev

    def trace(self) -> dict:
        cfg = tla_cfg(self.mode, self.lim, until_eof=self.until_eof, with_body=self.with_body,
                      decode=self.decode, expect=self.expect)
        return {"cfg": cfg, "src": self.src, "label": self.label, "stream": list(self.data),
                "events": [self.outcomes[k] for k in self.order], "nruns": self.nruns}


def judge_groups(ctx: Any, groups: List[Group], prop: str, label: str) -> Dict[str, int]:
    """Validate a batch of groups with TLC and turn verdicts into violations / drift notes.
    Returns counts of clauses seen."""
    stats: Dict[str, int] = {}
    if not groups:
        return stats
    traces = [g.trace() for g in groups]
    verdicts, res = validate_batch(TRACE_MODULE, TRACE_CFG, traces, timeout=1500)
    if res.violated:
        tail = "\n".join(res.output.splitlines()[-30:])
        raise MachineryError(f"reference invariant {res.violated} failed during trace validation:\n{tail}")
    ctx.add_trace_batch(sum(g.nruns for g in groups), res)
    for g, t, v in zip(groups, traces, verdicts):
        info = v.info if isinstance(v.info, (list, tuple)) and len(v.info) == 2 else ((), ())
        devs, drift = info
        allruns = [[e["kind"], e["cutsets"][0]] for e in t["events"] if e["cutsets"]]
        metered = any(e["calls"] for e in t["events"])
        notes = ctx.extra.setdefault("permitted_alternatives_and_notes", {})
        for d in drift or ():
            name = str(d[1])
            name = name.split(":")[0] if name.startswith(("RejectedSoft", "undecided")) else name
            notes[name] = notes.get(name, 0) + 1
        for d in devs or ():
            evi, name = int(d[0]), str(d[1])
            stats[name] = stats.get(name, 0) + 1
            ev = t["events"][evi - 1] if 1 <= evi <= len(t["events"]) else None
            cuts = ev["cutsets"][0] if ev and ev["cutsets"] else []
            ctx.violation(name, f"{name} [{g.mode}]",
                          {"stream": list(g.data), "mode": g.mode, "limits": list(g.lim.key()),
                           "until_eof": g.until_eof, "with_body": g.with_body, "cuts": cuts,
                           "decode": g.decode, "expect": [list(b) for b in g.expect], "prelude": g.prelude,
                           "kind": ev["kind"] if ev else "group", "label": g.label, "src": g.src,
                           "allruns": allruns if ev is None else [], "meter": metered}, "trace")
        if not v.ok:
            clause = v.clause or "Incomplete"
            stats[clause] = stats.get(clause, 0) + 1
            evi = v.pos + 1
            ev = t["events"][evi - 1] if v.clause and 1 <= evi <= len(t["events"]) and not clause.startswith("Segmentation") else None
            cuts = ev["cutsets"][0] if ev and ev["cutsets"] else []
            allcuts = [e["cutsets"][0] for e in t["events"] if e["cutsets"]]
            ctx.violation(clause, f"{clause} [{g.mode}] {g.label}",
                          {"stream": list(g.data), "mode": g.mode, "limits": list(g.lim.key()),
                           "until_eof": g.until_eof, "with_body": g.with_body, "cuts": cuts,
                           "decode": g.decode, "expect": [list(b) for b in g.expect], "prelude": g.prelude, "allcuts": allcuts,
                           "allruns": allruns, "meter": metered,
                           "kind": ev["kind"] if ev else "group", "label": g.label, "src": g.src,
                           "drift": [list(x) for x in (drift or ())]}, "trace")
    return stats


def replay_detail(ctx: Any, detail: dict) -> int:
    """Re-run one recorded failing input against the code and re-judge it."""
    lim = Limits(*detail["limits"])
    data = bytes(detail["stream"])
    g = Group(detail["mode"], data, lim, until_eof=detail.get("until_eof", False),
              with_body=detail.get("with_body", True), src="replay", label=detail.get("label", ""),
              decode=detail.get("decode", False), expect=[bytes(b) for b in detail.get("expect", [])])
    kind = detail.get("kind", "parse")
    if detail.get("prelude"):
        ex = [(bytes(d), Limits(*l), list(c)) for d, l, c in detail["prelude"]] + [(data, lim, detail.get("cuts") or [])]
        g = client_exchanges(ex, "replay", detail.get("label", ""))[-1]
        verdicts, _res = validate_batch(TRACE_MODULE, TRACE_CFG, [g.trace()])
        v = verdicts[0]
        devs = [str(d[1]) for d in (v.info[0] if v.info else ())]
        print(f"replay: ok={v.ok} clause={v.clause!r} deviations={devs} events={v.pos}/{v.total}")
        return 0 if v.ok and not devs else 1
    runs = [(k, c) for k, c in (detail.get("allruns") or [])]
    if not runs:
        cutsets = detail.get("allcuts") or [detail.get("cuts") or []]
        if detail.get("cuts") is not None and detail["cuts"] not in cutsets:
            cutsets.append(detail["cuts"])
        runs = [("parse" if kind == "group" else kind, c) for c in cutsets]
    elif kind != "group":
        runs = [(kind, detail.get("cuts") or [])] + [r for r in runs if r[0] == kind]
    harness = None
    meter = WorkMeter() if detail.get("meter") else None
    for k, cuts in runs:
        if k == "conn":
            harness = harness or ConnHarness(lim)
            g.conn(harness, cuts)
        elif k == "client":
            g.client(cuts)
        else:
            g.parse(cuts, meter)
    if meter is not None:
        meter.close()
    verdicts, _res = validate_batch(TRACE_MODULE, TRACE_CFG, [g.trace()])
    v = verdicts[0]
    devs = [str(d[1]) for d in (v.info[0] if v.info else ())]
    print(f"replay: ok={v.ok} clause={v.clause!r} deviations={devs} events={v.pos}/{v.total}")
    return 0 if v.ok and not devs else 1


# ---------------------------------------------------------------- corpora shared by the three drivers
LIMIT_CONFIGS = {
    "default": DEFAULT_LIMITS,
    "small-equal": Limits(96, 96, 12),
    "line>field": Limits(160, 80, 12),
    "line<field": Limits(80, 160, 12),
    "tiny-read-buffer": Limits(8190, 8190, 128, limit=4),
    "tiny-buffer-small": Limits(96, 96, 12, limit=2),
}


def request_corpus(rng: Any, n_valid: int, per_class: Optional[int], n_bytes: int,
                   classes: Optional[Sequence[str]] = None) -> Iterable[Tuple[str, str, bytes]]:
    """(src, label, stream): grammar-valid pipelines, every mutation class at every applicable
    position (per_class caps the positions sampled per class and stream), random byte edits."""
    from .gen import http as G

    for _k in range(n_valid):
        msgs = G.gen_request_stream(rng)
        parts = G.flatten(msgs)
        data = G.render(parts)
        yield "valid", "valid", data
        for cls in (classes or G.REQUEST_CLASSES):
            pc = None if per_class is None else per_class * G.CLASS_WEIGHT.get(cls, 1)
            for label, b in G.mutate_class(parts, cls, rng, per_class=pc):
                yield "mutation", label, b
        for label, b in G.random_byte_mutations(data, rng, n_bytes):
            yield "bytes", label, b


def response_corpus(rng: Any, n_valid: int, per_class: Optional[int], n_bytes: int
                    ) -> Iterable[Tuple[str, str, bytes, dict]]:
    from .gen import http as G

    for _k in range(n_valid):
        msgs, opts = G.gen_response_stream(rng)
        parts = G.flatten(msgs)
        data = G.render(parts)
        yield "valid", "valid", data, opts
        for cls in G.RESPONSE_CLASSES:
            pc = None if per_class is None else per_class * G.CLASS_WEIGHT.get(cls, 1)
            for label, b in G.mutate_class(parts, cls, rng, per_class=pc):
                yield "mutation", label, b, opts
        for label, b in G.random_byte_mutations(data, rng, n_bytes):
            yield "bytes", label, b, opts


def run_model(ctx: Any, name: str, cfg: str, *, timeout: float = 600, exhaustive: bool = True) -> Any:
    from .tlc import run_tlc

    res = run_tlc("HttpFramingMC", cfg, workers=16, timeout=timeout, deadlock=False)
    ok = ctx.expect_model_ok(name, res, exhaustive=exhaustive)
    ctx.log(f"model {name}: {res.distinct} states, {res.generated} transitions, ok={ok}, {res.wall_s:.0f}s")
    return res


def mc_cfg_text(**over: Any) -> str:
    """HttpFramingMC config text: the committed HttpFramingMC.cfg with constants overridden."""
    import os
    import re
    from .tlc import SPEC_DIR

    t = open(os.path.join(SPEC_DIR, "HttpFramingMC.cfg")).read()
    for k, v in over.items():
        t, n = re.subn(r"(?m)^  %s = .*$" % k, "  %s = %s" % (k, v), t)
        if n != 1:
            raise MachineryError(f"HttpFramingMC.cfg: constant {k} not found")
    return t


def write_mc_cfg(name: str, **over: Any) -> str:
    import os
    from .tlc import mktemp

    p = os.path.join(mktemp("httpmc"), name + ".cfg")
    with open(p, "w") as f:
        f.write(mc_cfg_text(**over))
    return p


def behaviours_to_streams(behs: List[List[Any]]) -> List[Tuple[bytes, List[int]]]:
    """TLC-simulated behaviours of HttpFramingMC -> (stream, cut positions at the lexeme boundaries)."""
    out = []
    seen = set()
    for beh in behs:
        data = bytearray()
        cuts = []
        for _label, st in beh[1:]:
            last = st.get("last")
            if not last:
                continue
            if data:
                cuts.append(len(data))
            data += bytes(last)
        b = bytes(data)
        if b and b not in seen:
            seen.add(b)
            out.append((b, cuts))
    return out


def selftest_common(ctx: Any, good: "Group", mutants: List[Tuple[str, Any]], model_mutants: List[Tuple[str, dict, str]]) -> int:
    """(i) a good recorded group must pass and each corrupted copy must be rejected by the trace spec;
    (ii) each spec-level mutant config must be caught by TLC with the expected invariant."""
    import copy
    from .tlc import run_tlc

    base = good.trace()
    traces = [base]
    for _name, fn in mutants:
        t = copy.deepcopy(base)
        fn(t)
        traces.append(t)
    vs, _res = validate_batch(TRACE_MODULE, TRACE_CFG, traces, timeout=600)
    ok = vs[0].ok and not (vs[0].info and vs[0].info[0])
    print(f"selftest: good trace ok={vs[0].ok} clause={vs[0].clause!r} info={vs[0].info}")
    for (name, _fn), v in zip(mutants, vs[1:]):
        caught = (not v.ok) or bool(v.info and v.info[0])
        print(f"selftest: corrupted trace [{name}] -> ok={v.ok} clause={v.clause!r} devs={v.info[0] if v.info else None}")
        ok = ok and caught
    for name, over, expect in model_mutants:
        cfg = write_mc_cfg("mutant_" + name, **over)
        res = run_tlc("HttpFramingMC", cfg, workers=16, timeout=600, deadlock=False)
        print(f"selftest: model mutant [{name}] -> violated={res.violated} (expected {expect})")
        ok = ok and res.violated == expect
    print("selftest", "passed" if ok else "FAILED")
    return 0 if ok else 2


def client_exchanges(exchanges: Sequence[Tuple[bytes, Limits, Sequence[int]]], src: str, label: str) -> List[Group]:
    """Several request/response exchanges on ONE client connection (a pooled keep-alive connection), each with its own
    per-request limits.  Every response becomes its own group and is judged against the limits of ITS request.  The
    sequence stops at the first exchange after which the connection is no longer reusable."""
    out: List[Group] = []
    run: Optional[ClientRun] = None
    for i, (data, lim, cuts) in enumerate(exchanges):
        if run is None:
            run = ClientRun(lim)
        else:
            run.begin(lim)
        ev = run.run(data, cuts, keep_open=True)
        g = Group("response", data, lim, src=src, label=f"{label} #{i + 1} limits={lim.key()}")
        g.prelude = [[list(d), list(l.key()), list(c)] for d, l, c in exchanges[:i]]
        ev["fedEof"] = False
        g.add_client_event(ev, cuts)
        out.append(g)
        if ev["exc"] or ev["closed"] or ev["loopExc"] or any(not m["peof"] for m in ev["msgs"]):
            break
    if run is not None:
        run.close()
    return out
