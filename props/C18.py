"""C18 - timeouts and cancellation are bounded and leave no residue.

spec/ClientTimeouts.tla       implementation-shaped model (TLC: every interleaving of victim, writer
                              task, shared resolver task, bystander, timers and caller cancel, small constants)
spec/ClientTimeoutsTrace.tla  observational monitor (same clause names) over executions of a real
                              ClientSession on a real TCPConnector (engine/tcpkit.py) under virtual time
Driver A: every scenario of the scenario-constrained model (stall point x timeout kind x cancel at the
          n-th step of the victim) replayed step by step; byte phases of the scripted response
          (mid status line, mid header, between CR and LF, mid chunk-size, mid chunk) enumerated per stall.
          + TLC-simulated behaviours of the free model (races the scripted environment does not produce).
Driver B: seeded random fault schedules (arbitrary byte segmentation, pauses, cancels, rare peer faults).
Every recorded execution is judged by TLC (ClientTimeoutsTrace); Python drives, records, projects.

Named deviations of the code as found (own clause names, proposed patches under proposed_fixes/):
  CancelSwallowedNestedTimer   total timeout + caller cancel while awaiting the response head -> TimeoutError
  ReadTimerRearmedAfterEof     sock_read timer re-armed on a connection already returned to the pool
"""
from __future__ import annotations

import asyncio
import json
import math
import os
import re
import threading
from typing import Any, Dict, List, Optional

from engine import steploop
from engine.runner import Ctx
from engine.tcpkit import TcpKit
from engine.tlc import MachineryError, cover_behaviours, mktemp, run_tlc, simulate_behaviours, validate_batch

HORIZON = 40.0          # harness watchdog timer: virtual time can always advance up to here
KINDS = ("total", "connect", "sock_connect", "sock_read")
BIG = 70000             # > StreamWriter LIMIT (64 KiB): write() drains inside the body
READ_BUFSIZE = 64       # small reader limit so that a ~300 byte chunk pauses reading


def ms(t: float) -> int:
    return int(round(t * 1000))


# the scripted response of the peer: head (status line + headers) and a chunked body of two chunks
def response_bytes(marker: str, chunked: bool = True, big: bool = False) -> Dict[str, bytes]:
    status = b"HTTP/1.1 200 OK\r\n"
    hdrs = b"X-Mark: " + marker.encode() + b"\r\nContent-Type: text/plain\r\n"
    d1 = (b"M" + marker.encode() + b";") + (b"x" * (300 if big else 10))
    d2 = b"tail-" + marker.encode()
    if chunked:
        head = status + hdrs + b"Transfer-Encoding: chunked\r\n\r\n"
        c1 = f"{len(d1):x}\r\n".encode() + d1 + b"\r\n"
        c2 = f"{len(d2):x}\r\n".encode() + d2 + b"\r\n0\r\n\r\n"
    else:
        head = status + hdrs + f"Content-Length: {len(d1) + len(d2)}\r\n\r\n".encode()
        c1, c2 = d1, d2
    return {"head": head, "c1": c1, "c2": c2, "body": d1 + d2,
            "status_len": len(status), "c1_sizeline": len(f"{len(d1):x}\r\n") if chunked else 0}


# byte phases inside the head at which the peer can stop (stall mid status line, mid header name, ...)
def head_cuts(head: bytes, status_len: int) -> List[int]:
    cuts = [5, status_len - 1, status_len, status_len + 3, status_len + 9, len(head) - 3, len(head) - 1]
    return sorted({c for c in cuts if 0 < c < len(head)})


class Req:
    def __init__(self, name: str) -> None:
        self.name = name
        self.status = "new"          # new | pending | ok | timeout | cancelled | error
        self.exc = ""
        self.exc_mro: List[str] = []
        self.t_start = -1.0
        self.t_end = -1.0
        self.got_response = False
        self.steps = 0               # loop steps of the request's main task so far
        self.cancel_requested = False
        self.cancel_effective = False
        self.fed = 0                 # bytes of the scripted response fed so far
        self.fed_parts: List[str] = []
        self.t_feed = -1.0
        self.t_written = -1.0
        self.t_resume = -1.0
        self.was_paused = False
        self.marker = name
        self.conn_at_end: Optional[int] = None
        self.body_ok = True
        self.had_conn = False
        self.conns_used: List[int] = []


class ToExec:
    """One execution: victim "v", bystander "b", follow-ups "f<i>" on one session."""

    def __init__(self, loop: steploop.StepLoop, *, limit: int = 1, to: Optional[dict] = None,
                 body: str = "none", expect100: bool = False, thr: float = 5.0,
                 big_chunk: bool = False, chunked_resp: bool = True, offset: float = 0.0,
                 cutsel: int = 0, horizon: float = HORIZON, readn: int = 0, retry: bool = False,
                 nby: int = 1) -> None:
        import aiohttp
        from aiohttp import ClientTimeout

        self.aiohttp = aiohttp
        self.loop = loop
        self.params = dict(limit=limit, to=dict(to or {}), body=body, expect100=expect100, thr=thr,
                           big_chunk=big_chunk, chunked_resp=chunked_resp, offset=offset, cutsel=cutsel,
                           horizon=horizon, readn=readn, retry=retry, nby=nby)
        # readn > 0: the victim consumes the body with content.read(readn) (the buffer is drained in
        #            parts, reading resumes while data is still buffered) instead of response.read()
        # retry:     when the victim's call fails its caller at once - in the same task step, from the
        #            exception handler - issues another request "v2" (eagerly started task, no timeouts)
        self.readn = readn
        self.retry = retry
        self.retry_started = False
        loop._thread_id = threading.get_ident()       # is_running() -> True: eager tasks start eagerly (3.12)
        loop._vtime = offset
        self.limit = limit
        self.to = {k: float((to or {}).get(k) or 0) for k in KINDS}
        self.thr = thr
        self.body = body
        self.expect100 = expect100
        self.big_chunk = big_chunk
        self.chunked_resp = chunked_resp
        self.cutsel = cutsel
        self.ClientTimeout = ClientTimeout
        noto = ClientTimeout(total=None, connect=None, sock_connect=None, sock_read=None)
        self.kit = TcpKit(loop, limit=limit, session_kw={"timeout": noto, "read_bufsize": READ_BUFSIZE})
        self.kit.dns_gate = True
        self.kit.sock_gate = True
        self.kit.on_create = self._on_create
        ct = self._timeout_of("v")
        # ClientTimeout raises `total` to the largest specific timeout (CHANGES/7274.feature): the
        # bound that is "configured" is what the public ClientTimeout object says
        self.eff = {"total": ct.total or 0.0, "connect": ct.connect or 0.0,
                    "sock_connect": ct.sock_connect or 0.0, "sock_read": ct.sock_read or 0.0}
        # nby = 2 adds a second bystander "c": a DNS lookup can then have an initiator and two joiners
        self.bys = ["b", "c"][:max(1, nby)]
        self.reqs: Dict[str, Req] = {"v": Req("v"), "v2": Req("v2")}
        for n in self.bys:
            self.reqs[n] = Req(n)
        self.events: List[dict] = []
        self.fault_injected = False
        self.pause_next_conn_of: Optional[str] = None
        self.horizon = horizon
        self.watchdog = loop.call_at(horizon, lambda: None)
        self.faulted_conns: List[int] = []     # connections the victim held / was creating when it failed
        self.v_end_recorded = False
        self.drifts: List[str] = []
        self.rec("init")

    # ------------------------------------------------------------------ requests
    def _timeout_of(self, name: str) -> Any:
        if name != "v":
            return self.ClientTimeout(total=None, connect=None, sock_connect=None, sock_read=None)
        t = self.to
        return self.ClientTimeout(total=t["total"] or None, connect=t["connect"] or None,
                                  sock_connect=t["sock_connect"] or None, sock_read=t["sock_read"] or None,
                                  ceil_threshold=self.thr)

    async def _go(self, name: str) -> None:
        rq = self.reqs[name]
        kw: Dict[str, Any] = {"timeout": self._timeout_of(name)}
        method = "GET"
        if name == "v" and (self.body != "none" or self.expect100):
            method = "POST"
            if self.body == "big":
                kw["data"] = b"B" * BIG
            elif self.body == "chunked":
                kw["data"] = b"small-body"
                kw["chunked"] = True
            else:
                kw["data"] = b"small-body"
            if self.expect100:
                kw["expect100"] = True
        try:
            r = await self.kit.session.request(method, f"http://host.test/{name}", **kw)
            rq.got_response = True
            if name == "v" and self.readn > 0:
                parts = []
                try:
                    while True:
                        chunk = await r.content.read(self.readn)
                        if not chunk:
                            break
                        parts.append(chunk)
                except BaseException:
                    r.close()          # what `async with response` / response.read() do on failure
                    raise
                data = b"".join(parts)
                r.release()
            else:
                data = await r.read()
            want = response_bytes(rq.marker, self.chunked_resp, self.big_chunk and name == "v")["body"]
            rq.body_ok = (data == want and r.headers.get("X-Mark") == rq.marker)
            rq.status = "ok" if rq.body_ok else "error"
            if not rq.body_ok:
                rq.exc = "WrongResponse"
        except asyncio.CancelledError:
            rq.status = "cancelled"
            rq.exc = "CancelledError"
            raise
        except asyncio.TimeoutError as e:
            rq.status = "timeout"
            rq.exc = type(e).__name__
            rq.exc_mro = [c.__name__ for c in type(e).__mro__]
            rq.t_end = self.loop.time()
            if name == "v" and self.retry:
                self._spawn_retry()
        except Exception as e:  # noqa: BLE001
            rq.status = "error"
            rq.exc = type(e).__name__
            rq.exc_mro = [c.__name__ for c in type(e).__mro__]
            rq.t_end = self.loop.time()
            if name == "v" and self.retry:
                self._spawn_retry()
        finally:
            if rq.t_end < 0:
                rq.t_end = self.loop.time()
            held = [pc.idx for pc in self.kit.conns if pc.owner == name]
            rq.conn_at_end = held[0] if held else None

    def _spawn_retry(self) -> None:
        """Retry-on-failure by the victim's caller: a new request started eagerly (its first step runs
        here, inside the victim's exception handler, before anything the failure woke up)."""
        self.retry_started = True
        rq = self.reqs["v2"]
        rq.status = "pending"
        rq.t_start = self.loop.time()
        prev = self.kit.current
        self.kit.current = "v2"
        try:
            t = asyncio.Task(self._go("v2"), loop=self.loop, eager_start=True)
        finally:
            self.kit.current = prev
        self.kit.tasks["v2"] = t

    def start(self, name: str) -> None:
        if name not in self.reqs:
            self.reqs[name] = Req(name)
        rq = self.reqs[name]
        rq.status = "pending"
        rq.t_start = self.loop.time()
        self.kit.spawn(name, self._go(name))
        self.rec("start", who=name)

    # ------------------------------------------------------------------ who is who
    def conn_of(self, name: str) -> Optional[Any]:
        for pc in self.kit.conns:
            if pc.owner == name:
                return pc
        return None

    def created_by(self, name: str) -> List[Any]:
        return [pc for pc in self.kit.conns if getattr(pc, "creator", None) == name]

    def _on_create(self, pc: Any) -> None:
        if self.pause_next_conn_of is not None and getattr(pc, "creator", None) == self.pause_next_conn_of:
            pc.tr.pause_protocol_writing()

    def task_label(self, task: Any) -> str:
        for n, tk in self.kit.tasks.items():
            if tk is task:
                return n
        co = getattr(task, "get_coro", lambda: None)()
        qn = getattr(co, "__qualname__", "") or ""
        if "_write_bytes" in qn:
            return "w"
        if "_resolve_host_with_throttle" in qn:
            return "r"
        return "?" + qn

    def phase(self, name: str) -> str:
        """Where the request is, as far as the harness can tell from its side of the stubs."""
        rq = self.reqs[name]
        if rq.status != "pending":
            return rq.status
        if self.conn_of(name) is not None or rq.had_conn:
            return "exchange"
        for c in self.kit.sock_calls:
            if c.owner == name and not c.finished:
                return "sock"
        for pc in self.created_by(name):
            if pc.owner is None and not pc.history and not pc.tr.closing:
                return "connmade"
        return "waiting"       # pool wait or DNS (not attributable from outside)

    # ------------------------------------------------------------------ environment
    def dns_done(self) -> bool:
        for c in self.kit.dns_calls:
            if c.pending:
                c.ok()
                self.rec("dnsdone")
                return True
        return False

    def sock_done(self, name: str) -> bool:
        for c in self.kit.sock_calls:
            if c.owner == name and c.pending:
                c.ok()
                self.rec("sockdone", who=name)
                return True
        return False

    def pause_writing(self, name: str) -> None:
        """The peer does not read: the transport's buffer is above the high-water mark as soon
        as the connection exists (or from now on, if it exists already)."""
        pc = self.conn_of(name)
        if pc is None:
            cands = [p for p in self.created_by(name) if not p.tr.closing and not p.history]
            pc = cands[-1] if cands else None      # created by `name`, not yet handed to anybody
        if pc is not None:
            pc.tr.pause_protocol_writing()
        elif not self.reqs[name].had_conn:
            self.pause_next_conn_of = name
        self.rec("pausewriting", who=name)

    def resume_writing(self, name: str) -> bool:
        pc = self.conn_of(name)
        self.pause_next_conn_of = None
        if pc is None or not pc.tr.write_paused:
            return False
        pc.tr.resume_protocol_writing()
        self.rec("resumewriting", who=name)
        return True

    def script(self, name: str) -> Dict[str, bytes]:
        return response_bytes(self.reqs[name].marker, self.chunked_resp, self.big_chunk and name == "v")

    def deliver(self, name: str, part: str) -> bool:
        """part: partial (head bytes that do not complete the head) | cont (100 Continue) |
        head (rest of the head) | qpart (chunk-size line only: nothing visible to the reader) |
        data (first chunk incl. data) | rest (everything that is left) | all"""
        pc = self.conn_of(name)
        rq = self.reqs[name]
        if pc is None or not pc.open:
            return False
        s = self.script(name)
        whole = s["head"] + s["c1"] + s["c2"]
        hl = len(s["head"])
        if part == "cont":
            data = b"HTTP/1.1 100 Continue\r\n\r\n"
            pc.feed(data)
            # an interim response carries no payload: it does not start the sock_read clock
            # (the timer is armed and dropped again); the send phase is not covered by sock_read
            rq.fed_parts.append(part)
            self.rec("deliver", who=name, part=part)
            return True
        if part == "partial":
            cuts = [c for c in head_cuts(s["head"], s["status_len"]) if c > rq.fed]
            if not cuts:
                return False
            upto = cuts[self.cutsel % len(cuts)]
        elif part == "head":
            upto = hl
        elif part == "qpart":
            upto = hl + (s["c1_sizeline"] - 1 if self.chunked_resp else 0)
        elif part == "data":
            upto = hl + len(s["c1"]) - (3 if self.chunked_resp else 0) - (self.cutsel % 3)
        else:
            upto = len(whole)
        if upto <= rq.fed:
            return False
        data = whole[rq.fed:upto]
        rq.fed = upto
        rq.fed_parts.append(part)
        pc.feed(data)
        rq.t_feed = self.loop.time()
        self.rec("deliver", who=name, part=part)
        return True

    def deliver_n(self, name: str, n: int) -> bool:
        """Feed the next n bytes of the scripted response (arbitrary segmentation)."""
        pc = self.conn_of(name)
        rq = self.reqs[name]
        if pc is None or not pc.open:
            return False
        s = self.script(name)
        whole = s["head"] + s["c1"] + s["c2"]
        if rq.fed >= len(whole) or n <= 0:
            return False
        data = whole[rq.fed:rq.fed + n]
        rq.fed += len(data)
        pc.feed(data)
        rq.t_feed = self.loop.time()
        self.rec("deliver", who=name, part=f"n{n}")
        return True

    def tick(self) -> bool:
        if self.loop.time() >= self.horizon:
            return False
        self.loop.advance()
        self.rec("tick")
        return True

    def cancel(self, name: str) -> None:
        rq = self.reqs[name]
        t = self.kit.tasks[name]
        rq.cancel_requested = True
        if not t.done():
            rq.cancel_effective = True
        t.cancel()
        self.rec("cancel", who=name)

    def peer_close(self, name: str) -> bool:
        pc = self.conn_of(name)
        if pc is None or not pc.open:
            return False
        self.fault_injected = True
        pc.close_by_peer()
        self.rec("peerclose", who=name)
        return True

    # ------------------------------------------------------------------ stepping
    def _run_nontask(self) -> None:
        while not self.loop.is_idle() and self.loop.peek_task() is None:
            self.loop.step_one()

    def head_label(self) -> Optional[str]:
        self._run_nontask()
        t = self.loop.peek_task()
        return None if t is None else self.task_label(t)

    def step(self) -> Optional[str]:
        """Run the non-task handles at the head of the ready queue and then one task step."""
        lab = self.head_label()
        if lab is None:
            self.rec("step", who="")
            return None
        if lab in self.reqs:
            self.reqs[lab].steps += 1
        self.loop.step_one()
        self.rec("step", who=lab)
        return lab

    def settle(self, max_steps: int = 2000) -> None:
        n = 0
        while not self.loop.is_idle():
            self.step()
            n += 1
            if n > max_steps:
                raise MachineryError("C18: loop does not settle")
        if self.events and not self.events[-1]["obs"]["idle"]:
            self.rec("idle")

    # ------------------------------------------------------------------ observation
    def _timer_kinds(self) -> List[str]:
        out = []
        for h in self.loop.pending_timers():
            if h is self.watchdog:
                continue
            qn = getattr(h._callback, "__qualname__", repr(h._callback))
            if "_weakref_handle" in qn:
                continue           # connector keep-alive cleanup (owned by the connector)
            out.append("read" if "_on_read_timeout" in qn else "total" if "TimeoutHandle" in qn
                       else "ctx" if "Timeout._on_timeout" in qn else qn)
        return sorted(out)

    def _foreign_tasks(self) -> List[str]:
        named = set(self.kit.tasks.values())
        out = []
        for t in asyncio.all_tasks(self.loop):
            if t in named or t.done():
                continue
            lab = self.task_label(t)
            if lab == "r":
                continue           # shared lookup, owned by the connector (shielded by design)
            out.append(lab)
        return sorted(out)

    def refs(self) -> Dict[str, int]:
        """Reference instants (ms) from which each configured timeout of the victim currently
        counts, as observable at the harness side of the stubs; -1 = that timeout does not
        currently apply."""
        v = self.reqs["v"]
        r = {"total": -1, "connect": -1, "sock_connect": -1, "sock_read": -1}
        if v.status != "pending":
            return r
        r["total"] = ms(v.t_start)
        pc = self.conn_of("v")
        if pc is None and not v.had_conn:
            r["connect"] = ms(v.t_start)
            for c in self.kit.sock_calls:
                if c.owner == "v" and c.pending:
                    r["sock_connect"] = ms(c.t_start)
        elif pc is not None:
            # counts from the request being written - or from response bytes that arrive earlier
            # (early response while the upload is still blocked): data_received() arms the timer too
            if (v.t_written >= 0 or v.t_feed >= 0) and not pc.tr.reading_paused and pc.open and not pc.tr.inbox:
                r["sock_read"] = ms(max(v.t_written, v.t_feed, v.t_resume))
        return r

    def _track(self) -> None:
        """Book-keeping after every harness action (all from the peer's side of the stubs)."""
        for name, rq in self.reqs.items():
            tk = self.kit.tasks.get(name)
            if tk is not None and tk.done() and rq.status == "pending":
                # the coroutine never ran (cancelled before its first step)
                rq.status = "cancelled" if tk.cancelled() else "error"
                rq.exc = "CancelledError" if tk.cancelled() else "?"
                rq.t_end = self.loop.time()
            pc = self.conn_of(name)
            if pc is None:
                continue
            rq.had_conn = True
            if pc.idx not in rq.conns_used:
                if rq.conns_used:
                    # aiohttp retried the request on another connection (idempotent method after
                    # a disconnect): the exchange, and the peer's script, start again there
                    rq.t_written = rq.t_feed = rq.t_resume = -1.0
                    rq.fed = 0
                    rq.was_paused = False
                rq.conns_used.append(pc.idx)
            if rq.t_written < 0 and rq.status == "pending":
                try:
                    done = len(pc.requests())
                except Exception:  # noqa: BLE001
                    done = 0
                # "written" = on the wire and accepted: while the transport has paused the
                # protocol's writing the client is still in its send phase (drain() pending)
                if done >= len(pc.history) and not pc.tr.write_paused:
                    rq.t_written = self.loop.time()
            if pc.tr.reading_paused:
                rq.was_paused = True
            elif rq.was_paused:
                rq.was_paused = False
                rq.t_resume = self.loop.time()
        v = self.reqs["v"]
        if v.status not in ("new", "pending", "ok") and not self.v_end_recorded:
            self.v_end_recorded = True
            s = self.script("v")
            complete = v.t_written >= 0 and v.fed >= len(s["head"] + s["c1"] + s["c2"])
            self.faulted_conns = sorted({pc.idx for pc in self.kit.conns
                                         if ("v" in pc.history[-1:] and not complete) or
                                         (getattr(pc, "creator", None) == "v" and not pc.history)})
        elif v.status == "ok":
            self.v_end_recorded = True

    def obs(self) -> dict:
        self._track()
        kit = self.kit
        thr = getattr(kit.connector, "_throttle_dns_futures", None)
        dnsw = -1 if thr is None else sum(len(s) for s in thr.values())
        st = {n: rq.status for n, rq in self.reqs.items()}
        return {
            "t": ms(self.loop.time()),
            "idle": self.loop.is_idle(),
            "st": st,
            "ph": {n: self.phase(n) for n in self.reqs},
            "refs": self.refs(),
            "tend": {n: ms(rq.t_end) if rq.t_end >= 0 else -1 for n, rq in self.reqs.items()},
            "open": [pc.idx for pc in kit.conns if not pc.tr.closing],
            "faulted": list(self.faulted_conns),
            "held": {n: (self.conn_of(n).idx if self.conn_of(n) is not None else -1) for n in self.reqs},
            "loosesocks": [s.idx for s in kit.sockets if not s.closed and not s.connected
                           and not any(c.sock is s and c.pending for c in kit.sock_calls)],
            "tasks": self._foreign_tasks(),
            "timers": self._timer_kinds(),
            "dnsw": dnsw,
            "cancelreq": bool(self.reqs["v"].cancel_effective),
            "gotresp": bool(self.reqs["v"].got_response),
            "interim": "cont" in self.reqs["v"].fed_parts,
            "vconns": len(self.reqs["v"].conns_used),
            "fault": self.fault_injected,
        }

    def rec(self, ev: str, who: str = "", part: str = "") -> None:
        self.events.append({"ev": ev, "who": who, "part": part, "obs": self.obs()})

    # ------------------------------------------------------------------ finishing
    def service(self, name: str) -> bool:
        """Do whatever the environment can do next for request `name`; False if nothing."""
        rq = self.reqs[name]
        if rq.status != "pending":
            return False
        pc = self.conn_of(name)
        if pc is not None:
            if pc.tr.write_paused:
                return self.resume_writing(name)
            if rq.t_written < 0 and self.expect100 and name == "v" and "cont" not in rq.fed_parts:
                return self.deliver(name, "cont")
            if rq.t_written < 0:
                return False
            return self.deliver(name, "all")
        if self.sock_done(name):
            return True
        return False

    def finish(self) -> None:
        """Un-stall everything, let bystander finish, then probe the session with follow-ups."""
        self.settle()
        v = self.reqs["v"]
        # the stall persists: let virtual time run to the horizon while the victim is pending, so
        # that every execution ends with the victim either finished or past all its deadlines
        while v.status == "pending" and self.tick():
            self.settle()
        for _ in range(60):
            progressed = False
            if self.dns_done():
                progressed = True
                self.settle()
            for name in list(self.reqs):
                if name == "v" and v.status == "pending" and not self.stall_released:
                    continue
                if self.service(name):
                    progressed = True
                    self.settle()
            if not progressed:
                break
        self.rec("served")
        pend = [n for n, rq in self.reqs.items() if rq.status == "pending"]
        if pend:
            self.rec("final")
            return
        # follow-ups: `limit` fresh requests must all get a slot at once and succeed
        names = [f"f{i + 1}" for i in range(self.limit)]
        for n in names:
            self.reqs[n] = Req(n)
        for e in self.events:
            for n in names:
                e["obs"]["st"].setdefault(n, "new")
                e["obs"]["ph"].setdefault(n, "new")
                e["obs"]["tend"].setdefault(n, -1)
                e["obs"]["held"].setdefault(n, -1)
        for n in names:
            self.start(n)
        self.settle()
        for _ in range(10):
            progressed = False
            if self.dns_done():
                progressed = True
                self.settle()
            for n in names:
                if self.conn_of(n) is None and self.sock_done(n):
                    progressed = True
                    self.settle()
            if not progressed:
                break
        self.rec("probe")
        for _ in range(20):
            progressed = False
            for n in names:
                if self.service(n):
                    progressed = True
                    self.settle()
            if not progressed:
                break
        self.rec("final")

    stall_released = True

    def teardown(self) -> None:
        self.watchdog.cancel()
        self.kit.close()
        # nothing may leak into the next execution on this loop
        left = [t for t in asyncio.all_tasks(self.loop) if not t.done()]
        for t in left:
            t.cancel()
        if left:
            self.loop.run_until_idle()
            self.loop._scheduled.clear()
            self.loop.exc_contexts.clear()
        self.loop._vtime = 0.0

    def trace(self, src: str) -> dict:
        cfg = {"limit": self.limit, "thr": ms(self.thr), "horizon": ms(self.horizon),
               "to": {k: ms(v) for k, v in self.eff.items()}}
        return {"cfg": cfg, "src": src, "params": self.params, "events": self.events}


# ---------------------------------------------------------------- model configs
CFG = """SPECIFICATION Spec
CONSTANTS
  Limit = {Limit}
  TOtotal = {TOtotal}
  TOconnect = {TOconnect}
  TOsockc = {TOsockc}
  TOread = {TOread}
  Thr = {Thr}
  Offset = {Offset}
  Horizon = {Horizon}
  Body = "{Body}"
  Expect100 = {Expect100}
  AllowCancel = {AllowCancel}
  AllowPause = {AllowPause}
  MaxPartial = {MaxPartial}
  BigChunk = {BigChunk}
  ShieldDns = {ShieldDns}
  CloseOnFail = {CloseOnFail}
  CancelWriter = {CancelWriter}
  RearmOnResume = {RearmOnResume}
  Handoff = {Handoff}
  TimerCoversBody = {TimerCoversBody}
  NestedUncancel = {NestedUncancel}
  RearmChecksEof = {RearmChecksEof}
  JoinerOwnFuture = {JoinerOwnFuture}
  ArmOnEarlyData = {ArmOnEarlyData}
  Bys = {Bys}
  EarlyResponse = {EarlyResponse}
  Scripted = {Scripted}
  StallsTotal = {StallsTotal}
  StallsConnect = {StallsConnect}
  StallsSockc = {StallsSockc}
  StallsRead = {StallsRead}
  MaxCancelAt = {MaxCancelAt}
  Orders = {Orders}
{invariants}CHECK_DEADLOCK FALSE
"""

DEFAULTS = dict(Limit=1, TOtotal=0, TOconnect=0, TOsockc=0, TOread=0, Thr=4, Offset=1, Horizon=14,
                Body="none", Expect100=False, AllowCancel=True, AllowPause=False, MaxPartial=1, BigChunk=False,
                ShieldDns=True, CloseOnFail=True, CancelWriter=True, RearmOnResume=True, Handoff=True,
                TimerCoversBody=True, NestedUncancel=False, RearmChecksEof=True, JoinerOwnFuture=True, ArmOnEarlyData=True, Bys=["b"], EarlyResponse=False, Scripted=False, StallsTotal=[], StallsConnect=[],
                StallsSockc=[], StallsRead=[], MaxCancelAt=0,
                Orders=["vb"])
INVARIANTS = ["Bounded", "TimeoutClass", "CancelPropagates", "NoResidue", "BystanderUnharmed",
              "SessionUsable", "Accounting"]


def tla(v: Any) -> str:
    if isinstance(v, bool):
        return "TRUE" if v else "FALSE"
    if isinstance(v, (list, tuple, set)):
        return "{" + ", ".join(f'"{x}"' for x in v) + "}"
    return str(v)


def write_cfg(name: str, invariants: Optional[List[str]] = None, **kw: Any) -> str:
    c = dict(DEFAULTS)
    c.update(kw)
    inv = INVARIANTS if invariants is None else invariants
    txt = CFG.format(invariants="".join(f"INVARIANT {i}\n" for i in inv),
                     **{k: (v if k == "Body" else tla(v)) for k, v in c.items()})
    d = mktemp("c18cfg")
    p = os.path.join(d, f"ClientTimeouts_{name}.cfg")
    with open(p, "w") as f:
        f.write(txt)
    return p


# ---------------------------------------------------------------- spec -> code (driver A)
_re_edge = re.compile(r'^(-?\d+) -> (-?\d+) \[label="((?:[^"\\]|\\.)*)"')
_re_node = re.compile(r'^(-?\d+) \[label="((?:[^"\\]|\\.)*)"(.*)\];?$')
_act = re.compile(r"(\w+)(?:\((.*)\))?$")


def _unesc(s: str) -> str:
    return s.replace("\\n", "\n").replace('\\"', '"').replace("\\\\", "\\")


def parse_action(label: str) -> tuple:
    m = _act.match(label.strip())
    args: List[Any] = []
    if m and m.group(2):
        for a in m.group(2).split(","):
            args.append(a.strip().strip('"'))
    return (m.group(1) if m else label, args)


def _rec_field(txt: str, name: str) -> Dict[str, str]:
    m = re.search(name + r" \|->\s*\[(.*?)\]", txt, re.S)
    return dict(re.findall(r'(\w+) \|-> "?(\w+)"?', m.group(1))) if m else {}


def node_info(label: str) -> dict:
    """Projection of a model state (only what the replay compares / needs)."""
    txt = _unesc(label)
    d: Dict[str, Any] = {}
    m = re.search(r"now \|-> (\d+)", txt)
    d["now"] = int(m.group(1)) if m else -1
    m = re.search(r"ready \|->\s*(.*?),\s*\n\s*boundary", txt, re.S)
    head = re.search(r'<<"(\w+)"(?:, "(\w+)")?>>', m.group(1)) if m else None
    d["head"] = (head.group(1), head.group(2)) if head else None
    d["pc"] = _rec_field(txt, "pc")
    d["outcome"] = _rec_field(txt, "outcome")
    m = re.search(r"scn =\s*\[(.*?)\]", txt, re.S)
    d["scn"] = dict(re.findall(r'(\w+) \|-> "?(\w+)"?', m.group(1))) if m else {}
    return d


def scenario_paths(cfg: str, *, timeout: float = 900, per_init: int = 4) -> tuple:
    """Exhaustive TLC run of a Scripted config with a state-graph dump; returns every maximal
    path from every initial state (= scenario), at most per_init per scenario."""
    d = mktemp("c18dot")
    dot = os.path.join(d, "g.dot")
    res = run_tlc("ClientTimeouts", cfg, workers=8, timeout=timeout, dump_dot=dot, deadlock=False)
    from engine.tlc import require_clean
    require_clean(res, "ClientTimeouts scripted dump")
    if not os.path.exists(dot):
        raise MachineryError("TLC wrote no state graph for the scripted ClientTimeouts config")
    nodes: Dict[str, str] = {}
    adj: Dict[str, List[tuple]] = {}
    inits: List[str] = []
    for ln in open(dot):
        ln = ln.rstrip("\n")
        m = _re_edge.match(ln)
        if m:
            if m.group(1) != m.group(2):
                adj.setdefault(m.group(1), []).append((m.group(2), _unesc(m.group(3))))
            continue
        m = _re_node.match(ln)
        if m:
            nodes[m.group(1)] = m.group(2)
            if "style = filled" in m.group(3):
                inits.append(m.group(1))
    info: Dict[str, dict] = {}

    def inf(n: str) -> dict:
        if n not in info:
            info[n] = node_info(nodes[n])
        return info[n]

    paths = []
    for i0 in inits:
        found = 0
        stack = [(i0, [])]
        while stack and found < per_init:
            n, pth = stack.pop()
            outs = adj.get(n, [])
            if not outs or len(pth) > 200:
                paths.append({"scn": inf(i0)["scn"], "steps": pth})
                found += 1
                continue
            for dst, lab in outs:
                stack.append((dst, pth + [(lab, inf(n), inf(dst))]))
    import shutil
    shutil.rmtree(d, ignore_errors=True)
    return paths, res


PHASE_OF_PC = {"new": "new", "start": "waiting", "PoolWait": "waiting", "DnsOwn": "waiting", "DnsWait": "waiting",
               "SockConnect": "sock", "ConnMade": "connmade", "AwaitHeaders": "exchange", "BodyRead": "exchange"}


KIND_CONST = {"total": "TOtotal", "connect": "TOconnect", "sockc": "TOsockc", "read": "TOread"}


def consts_for(mc: dict, scn: dict) -> dict:
    """Constants of one scenario: only the scenario's timeout kind is configured."""
    kind = scn.get("kind", "cfg")
    if kind == "cfg":
        return mc
    c = dict(mc)
    for k, name in KIND_CONST.items():
        if k != kind:
            c[name] = 0
    return c


def exec_for(loop: steploop.StepLoop, mc: dict, cutsel: int = 0, body_variant: int = 0, readn: int = 0,
             retry: bool = False) -> ToExec:
    nby = len(mc.get("Bys", ["b"]))
    body = {"none": "none", "small": "small", "block": ("big", "chunked")[body_variant % 2]}[mc["Body"]]
    return ToExec(loop, limit=mc["Limit"],
                  to={"total": mc["TOtotal"] / 2, "connect": mc["TOconnect"] / 2,
                      "sock_connect": mc["TOsockc"] / 2, "sock_read": mc["TOread"] / 2},
                  body=body, expect100=mc["Expect100"], thr=mc["Thr"] / 2, big_chunk=mc["BigChunk"],
                  chunked_resp=(cutsel % 2 == 0) or mc["BigChunk"], offset=mc["Offset"] / 2, cutsel=cutsel,
                  horizon=mc["Horizon"] / 2, readn=readn, retry=retry, nby=nby)


def model_phase(info: dict, q: str) -> str:
    pc = info["pc"].get(q, "new")
    if pc == "done":
        return info["outcome"].get(q, "?")
    return PHASE_OF_PC.get(pc, pc)


def replay_path(ctx: Ctx, loop: steploop.StepLoop, path: dict, mc: dict, cutsel: int = 0,
                body_variant: int = 0, src: str = "tlc-scenario", readn: int = 0, retry: bool = False) -> dict:
    x = exec_for(loop, consts_for(mc, path["scn"]), cutsel, body_variant, readn=readn, retry=retry)
    drift = None
    benign = False
    for (label, before, after) in path["steps"]:
        act, args = parse_action(label)
        done = True
        if act == "Run":
            head = before["head"]
            if head is None:
                drift = "replay:run-on-empty"
                break
            if head[0] == "task":
                lab = x.head_label()
                if lab != head[1]:
                    if lab in before["pc"] and before["pc"].get(lab) == "DnsWait" and before["pc"].get(head[1]) == "DnsWait":
                        benign = True      # the resolver wakes the joiners in set order: both orders are legal
                        break
                    drift = f"ready-order:{head[1]}"
                    break
                x.step()
            else:
                x._run_nontask()
                x.rec("step", who="")
        elif act == "Start":
            x.start(args[0])
        elif act == "DnsDone":
            done = x.dns_done()
        elif act == "SockDone":
            done = x.sock_done(args[0])
        elif act == "PauseNext":
            x.pause_writing("v")
        elif act == "ResumeWriting":
            done = x.resume_writing("v")
        elif act == "Deliver":
            done = x.deliver(args[0], args[1])
        elif act == "Tick":
            done = x.tick()
        elif act == "CallerCancel":
            x.cancel("v")
        else:
            raise MachineryError(f"C18: unknown model action {label}")
        if not done:
            drift = f"not-enabled:{act}"
            break
        ctx.action_cover[act] = ctx.action_cover.get(act, 0) + 1
        o = x.events[-1]["obs"]
        if o["t"] != after["now"] * 500:
            drift = f"time:{act}"
            break
        if any(model_phase(after, q) != (o["ph"][q] if o["st"][q] == "pending" else o["st"][q]) for q in ["v"] + x.bys):
            drift = f"state:{act}:{after['pc'].get('v')}/{after['pc'].get('b')}:{o['ph']['v']}/{o['ph']['b']}"
            break
        if x.retry_started:
            break      # the caller's immediate retry is a third party the model does not have: the rest
                       # of the execution (finish()) is judged by the monitor only
    if drift:
        ctx.drift(drift)
    x.finish()
    tr = x.trace(src)
    tr["scn"] = path["scn"]
    tr["drift"] = drift or ""
    x.teardown()
    return tr


# ---------------------------------------------------------------- judging
def judge(ctx: Ctx, traces: List[dict], label: str) -> List[Any]:
    if not traces:
        return []
    verdicts, res = validate_batch("ClientTimeoutsTrace", "ClientTimeoutsTrace.cfg", traces)
    ctx.add_trace_batch(len(traces), res)
    for t, v in zip(traces, verdicts):
        key = json.dumps([[e["ev"], e["who"], e["part"], e["obs"]["st"].get("v")] for e in t["events"]])
        if len(t["events"]) >= 6:
            ctx.distinct.add(hash(key))
        if not v.ok:
            ev = t["events"][v.pos] if v.pos < len(t["events"]) else {}
            hist = [f"{e['ev']}({e['who']}{':' + e['part'] if e['part'] else ''})" for e in t["events"][max(0, v.pos - 5):v.pos + 1]]
            info = v.info if isinstance(v.info, str) else ""
            kinds = "+".join(k for k, d in t["cfg"]["to"].items() if d)
            prevph = t["events"][v.pos - 1]["obs"]["ph"].get("v") if v.pos > 0 else "?"
            if v.clause in NAMED:
                sig = NAMED[v.clause]
            else:
                sig = f"{v.clause}[{info}] timeouts={kinds or 'none'} victim-phase={prevph} after " + ",".join(hist)
            ctx.violation(v.clause, sig, {"trace": t, "failed_at": v.pos, "label": label}, "trace")
    t0 = traces[0]
    ctx.sample({"src": t0["src"], "cfg": t0["cfg"], "scn": t0.get("scn"),
                "events": [[e["ev"], e["who"], e["part"], e["obs"]["t"], e["obs"]["st"]["v"], e["obs"]["ph"]["v"]]
                           for e in t0["events"][:14]]})
    return verdicts


def path_from_behaviour(beh: List[Any]) -> dict:
    """Adapter: a behaviour from simulate_behaviours -> the path shape replay_path consumes."""
    def info(st: dict) -> dict:
        ss = st["s"]
        rd = ss["ready"]
        head = None
        if rd:
            h = list(rd[0])
            head = (str(h[0]), str(h[1]) if len(h) > 1 else None)
        return {"now": int(ss["now"]), "head": head, "pc": {str(k): str(v) for k, v in ss["pc"].items()},
                "outcome": {str(k): str(v) for k, v in ss["outcome"].items()},
                "scn": {str(k): str(v) for k, v in st["scn"].items()}}
    infos = [info(st) for _, st in beh]
    steps = [(beh[i][0], infos[i - 1], infos[i]) for i in range(1, len(beh))]
    return {"scn": infos[0]["scn"], "steps": steps}


# ---------------------------------------------------------------- random fault schedules (driver B)
def random_exec(ctx: Ctx, loop: steploop.StepLoop, rng: Any) -> dict:
    limit = rng.choice([1, 1, 2, 3])
    to = {}
    for k in KINDS:
        if rng.random() < 0.45:
            to[k] = rng.choice([0.5, 1.0, 1.5, 2.5, 3.0, 6.0])
    body = rng.choice(["none", "none", "none", "small", "big", "chunked"])
    expect100 = body != "none" and rng.random() < 0.35
    big_chunk = rng.random() < 0.25
    x = ToExec(loop, limit=limit, to=to, body=body, expect100=expect100, thr=rng.choice([2.0, 5.0]),
               big_chunk=big_chunk, chunked_resp=big_chunk or rng.random() < 0.6,
               offset=rng.choice([0.0, 0.25, 0.5, 0.9]), cutsel=rng.randint(0, 6), horizon=20.0,
               readn=rng.choice([0, 0, 7, 40, 100, 250]), retry=rng.random() < 0.4,
               nby=rng.choice([1, 1, 2]))
    early = rng.random() < 0.25          # the peer may answer while the upload is still blocked
    allow_cancel = rng.random() < 0.6
    allow_fault = rng.random() < 0.08
    stall_v = rng.random() < 0.7        # the victim's environment tends to stall
    for _ in range(rng.randint(8, 70)):
        acts: List[tuple] = []
        for n in ["v"] + x.bys:
            if x.reqs[n].status == "new":
                acts += [("start", n)] * 4
        if not x.loop.is_idle():
            acts += [("step", None)] * 8
        if any(c.pending for c in x.kit.dns_calls):
            acts += [("dns", None)] * (1 if stall_v else 3)
        for n in ["v", "v2"] + x.bys:
            w = 1 if (n == "v" and stall_v) else 4
            if any(c.owner == n and c.pending for c in x.kit.sock_calls):
                acts += [("sock", n)] * w
            rq = x.reqs[n]
            pc = x.conn_of(n)
            if pc is not None and rq.status == "pending" and pc.open:
                if rq.t_written >= 0:
                    acts += [("feed", n)] * w
                    if n != "v":
                        acts += [("all", n)] * 3
                elif n == "v" and expect100 and "cont" not in rq.fed_parts:
                    acts += [("cont", n)] * 2
                elif n == "v" and early and pc.tr.write_paused and rq.fed < 100:
                    acts += [("earlyfeed", n)]
                if n == "v" and pc.tr.write_paused:
                    acts += [("resume", n)]
                if n == "v" and allow_fault and rng.random() < 0.1:
                    acts += [("peerclose", n)]
        v = x.reqs["v"]
        if v.status in ("new", "pending") and x.conn_of("v") is None and x.pause_next_conn_of is None \
                and body in ("big", "chunked") and rng.random() < 0.3:
            acts += [("pause", "v")]
        if v.status == "pending" and allow_cancel and not v.cancel_requested and rng.random() < 0.12:
            acts += [("cancel", "v")] * 2
        if x.loop.is_idle() and x.loop.time() < x.horizon:
            acts += [("tick", None)] * 3
        elif x.loop.time() < x.horizon and rng.random() < 0.1:
            acts += [("tick", None)]
        if not acts:
            break
        a, n = rng.choice(acts)
        if a == "start":
            x.start(n)
        elif a == "step":
            x.step()
        elif a == "dns":
            x.dns_done()
        elif a == "sock":
            x.sock_done(n)
        elif a == "feed":
            x.deliver_n(n, rng.choice([1, 2, 3, 5, 9, 17, 40, 400]))
        elif a == "earlyfeed":
            # early response while the upload is blocked: never the complete response (whether a
            # connection with a half-sent request may be reused is C06's question, not C18's)
            x.deliver_n(n, min(rng.choice([1, 3, 9, 17, 40]), 100 - x.reqs[n].fed))
        elif a == "all":
            x.deliver(n, "all")
        elif a == "cont":
            x.deliver(n, "cont")
        elif a == "resume":
            x.resume_writing(n)
        elif a == "pause":
            x.pause_writing(n)
        elif a == "peerclose":
            x.peer_close(n)
        elif a == "cancel":
            x.cancel(n)
        elif a == "tick":
            if not x.loop.is_idle():
                # time passes only while the loop is idle (virtual time)
                x.settle()
            x.tick()
    x.finish()
    tr = x.trace("random")
    x.teardown()
    return tr


def dedupe(traces: List[dict]) -> List[dict]:
    seen = set()
    out = []
    for t in traces:
        pr = t.get("params", {})
        k = json.dumps([t["cfg"], pr.get("body"), pr.get("chunked_resp"), pr.get("cutsel"), pr.get("readn"), pr.get("retry"),
                        [(e["ev"], e["who"], e["part"], e["obs"]["t"]) for e in t["events"]]])
        if k not in seen:
            seen.add(k)
            out.append(t)
    return out


# ---------------------------------------------------------------- check
NAMED = {
    "CancelSwallowedNestedTimer":
        "total timeout and caller cancel both reach the victim while it awaits the response head: "
        "TimerContext.__exit__ runs twice (ClientResponse.start inside ClientSession._request), both levels call "
        "task.uncancel(), the outer one turns the caller's CancelledError into TimeoutError",
    "ReadTimerNotStartedAfterInterim":
        "the sock_read timer is not started when the request body has been written after an interim "
        "100 Continue (start_timeout() takes the interim response's empty payload for a complete response): "
        "a peer that stalls after 100 Continue is never timed out",
    "ReadTimerRearmedAfterEof":
        "ResponseHandler.resume_reading() re-arms the sock_read timer after resuming the parser completed the "
        "payload and released the connection: the timer fires on the idle pooled connection, the next request "
        "that reuses it fails at once with SocketTimeoutError",
}
AS_CODED_INV = ["Bounded", "TimeoutClass", "CancelPropagatesButNested", "NoResidueButRearm", "BystanderUnharmed",
                "SessionUsable", "Accounting"]
ALL_STALLS = ["none", "pool", "dns", "sock", "headers", "partial", "body", "qpart", "data"]


def free_models(ctx: Ctx) -> List[tuple]:
    """(name, constants, as-coded invariants, also-check-the-repaired-design)"""
    no_su = [i for i in AS_CODED_INV if i != "SessionUsable"]
    ms_ = [
        ("total<thr L1", dict(TOtotal=3), AS_CODED_INV, True),
        ("all four kinds L2", dict(TOtotal=6, TOconnect=5, TOsockc=3, TOread=2, Limit=2), AS_CODED_INV, False),
        ("total + sock_read + big chunk (read pause/resume)", dict(TOtotal=6, TOread=3, BigChunk=True), no_su, True),
        ("total>=thr + sock_read + blocked writer + early response",
         dict(TOtotal=5, TOread=3, Body="block", AllowPause=True, EarlyResponse=True), AS_CODED_INV, False),
        ("sock_read + expect100", dict(TOread=3, Body="small", Expect100=True), AS_CODED_INV, False),
    ]
    if not ctx.quick:
        ms_ += [
            ("connect, two bystanders L3", dict(TOconnect=3, Limit=3, Bys=["b", "c"], MaxPartial=0), AS_CODED_INV, False),
            ("total, two bystanders L2", dict(TOtotal=3, Limit=2, Bys=["b", "c"], MaxPartial=0), AS_CODED_INV, False),
            ("connect>thr L1 offset 0", dict(TOconnect=5, Offset=0), AS_CODED_INV, False),
            ("sock_connect L2", dict(TOsockc=3, Limit=2), AS_CODED_INV, False),
            ("total + sock_read, 2 partial deliveries, L2", dict(TOtotal=7, TOread=3, MaxPartial=2, Limit=2, Horizon=16),
             AS_CODED_INV, True),
            ("total + expect100 + blocked writer", dict(TOtotal=5, Body="block", Expect100=False, AllowPause=True, Limit=2),
             AS_CODED_INV, False),
            ("total + read + big chunk L2", dict(TOtotal=6, TOread=3, BigChunk=True, Limit=2), no_su, True),
        ]
    return ms_


def scripted_configs(ctx: Ctx) -> List[tuple]:
    base = dict(Scripted=True, TOtotal=3, TOconnect=5, TOsockc=3, TOread=3, MaxCancelAt=ctx.pick(6, 8))
    main = dict(base, StallsTotal=ALL_STALLS,
                StallsConnect=ctx.pick(["pool", "dns", "sock", "headers"], ALL_STALLS),
                StallsSockc=ctx.pick(["sock", "dns"], ALL_STALLS),
                StallsRead=ctx.pick(["headers", "partial", "body", "qpart", "data", "sock"], ALL_STALLS),
                Orders=ctx.pick(["vb", "hold"], ["vb", "bv", "hold"]))
    out = [("body none", main),
           ("blocked writer, early response", dict(base, Body="block", AllowPause=True, EarlyResponse=True,
                                                   StallsTotal=["write", "wresume", "earlyp"],
                                                   StallsRead=["write", "wresume", "earlyp", "earlyh"], Orders=["vb"])),
           ("two bystanders (lookup with initiator + 2 joiners)",
            dict(base, Limit=3, Bys=["b", "c"], MaxCancelAt=ctx.pick(4, 6), StallsTotal=["dns", "sock"],
                 StallsConnect=["dns", "none"], Orders=["vb", "bv"])),
           ("expect100", dict(base, Body="small", Expect100=True, StallsTotal=["cont", "headers"],
                              StallsRead=["cont", "headers"], Orders=["vb"])),
           ("big chunk", dict(base, BigChunk=True, StallsTotal=["data"], StallsRead=["data", "none"], Orders=["vb"]))]
    if not ctx.quick:
        out += [("body none L2, total>=thr", dict(main, Limit=2, TOtotal=6, TOconnect=4, Offset=0)),
                ("blocked writer L2", dict(base, Limit=2, Body="block", AllowPause=True, StallsTotal=["write", "headers", "none"],
                                           StallsRead=["write", "body"], StallsConnect=["write"], Orders=["vb", "hold"]))]
    return out


def run(ctx: Ctx) -> None:
    ctx.rule = ("executions = every scenario of the scripted ClientTimeouts model (stall point x timeout kind x "
                "cancel at the n-th victim step, before/after its wake-up) replayed handle by handle into a real "
                "ClientSession/TCPConnector with stalled resolver, sockets and peer (several byte phases per stall) "
                "+ TLC-simulated free behaviours + seeded random fault schedules; distinct = different "
                "(event, request, part, victim status) sequences of >= 6 events")
    ctx.assumptions = [
        "virtual time: handles take no time, the clock moves only while the loop is idle (to the next timer)",
        "one address per host name; TLS handshake and happy-eyeballs staggering are below the stubbed socket layer",
        "the peer answers only after the request was written (100 Continue excepted); sock_read counts from the "
        "latest of request written / bytes received / reading resumed and does not cover the send phase",
        "the shared DNS lookup task belongs to the connector (shielded by design), not to the request",
        "a connection whose complete response was delivered before the fault may stay pooled (it is clean)",
        "WebSocket close timeouts are checked by C13",
        "eager task start as on Python 3.12 (loop.is_running() forced true on the stepping loop)",
    ]
    loop = steploop.new_loop()
    named_model: List[tuple] = []
    repaired = (not DEFAULTS["NestedUncancel"]) and DEFAULTS["RearmChecksEof"]
    # ---- 1. bounded models (free environment, every interleaving)
    for (name, kw, inv, ideal) in free_models(ctx):
        if repaired:
            inv = INVARIANTS           # nothing to exclude: the full clauses hold on the repaired design
        res = run_tlc("ClientTimeouts", write_cfg("free", invariants=inv, **kw), workers=16,
                      timeout=ctx.pick(400, 3000), deadlock=False)
        ok = ctx.expect_model_ok(f"ClientTimeouts[as coded, named deviations excluded]({name})", res)
        ctx.log(f"model[as coded] {name}: {res.distinct} states ok={ok} {res.wall_s:.0f}s")
        if ideal and not repaired:      # with repaired DEFAULTS the run above already is the repaired design
            res = run_tlc("ClientTimeouts", write_cfg("ideal", NestedUncancel=False, RearmChecksEof=True, **kw),
                          workers=16, timeout=ctx.pick(400, 3000), deadlock=False)
            ok = ctx.expect_model_ok(f"ClientTimeouts[repaired]({name})", res)
            ctx.log(f"model[repaired] {name}: {res.distinct} states ok={ok} {res.wall_s:.0f}s")
    # the as-coded model with the full invariants: TLC exhibits the two named deviations
    from engine.tlc import require_clean
    for (clause, inv, kw) in ([] if repaired else
                              [("CancelSwallowedNestedTimer", "CancelPropagates", dict(TOtotal=3)),
                               ("ReadTimerRearmedAfterEof", "NoResidue", dict(TOread=3, BigChunk=True))]):
        res = run_tlc("ClientTimeouts", write_cfg("dev", invariants=[inv], **kw), workers=8, timeout=300, deadlock=False)
        require_clean(res, f"ClientTimeouts[as coded, {inv}]")
        ctx.add_model(f"ClientTimeouts[as coded, full {inv}]", res, exhaustive=False)
        if res.violated == inv:
            named_model.append((clause, {"trace": [(a, st) for a, st in res.trace]}))
        elif res.violated:
            ctx.violation(f"model:{res.violated}", f"as-coded model: {res.violated}", {"trace": res.trace}, "model")
    # ---- 2. spec -> code: all scenarios of the scripted model
    traces: List[dict] = []
    nscn = 0
    for (name, kw) in scripted_configs(ctx):
        mc = dict(DEFAULTS)
        mc.update(kw)
        paths, res = scenario_paths(write_cfg("scr", invariants=[], **mc), timeout=ctx.pick(600, 3000),
                                    per_init=ctx.pick(3, 4))
        ctx.add_model(f"ClientTimeouts[scripted scenarios]({name})", res, exhaustive=True)
        scns = {json.dumps(p["scn"], sort_keys=True) for p in paths}
        nscn += len(scns)
        n0 = len(traces)
        for p in paths:
            labels = [l for l, _, _ in p["steps"]]
            has_cut = any(("partial" in l or '"data"' in l) for l in labels)
            variants = [(0, 0)]
            if has_cut:
                variants += [(c, 0) for c in ctx.pick((3, 6), (1, 2, 3, 4, 5, 6))]
            if mc["Body"] == "block":
                variants += [(0, 1)]
            for (cut, bv) in variants:
                traces.append(replay_path(ctx, loop, p, mc, cutsel=cut, body_variant=bv))
            if mc["BigChunk"]:
                # the consumer drains the buffer in parts: reading resumes with data still buffered
                for n in (100, 40):
                    traces.append(replay_path(ctx, loop, p, mc, cutsel=n % 7, readn=n))
            if any(a["outcome"].get("v") == "timeout" for _, _, a in p["steps"]):
                # the victim's caller retries at once from its exception handler (third party)
                traces.append(replay_path(ctx, loop, p, mc, cutsel=2 * (len(labels) % 4), retry=True,
                                          readn=100 if mc["BigChunk"] else 0))
        ctx.log(f"scripted {name}: {res.distinct} states, {len(scns)} scenarios, {len(paths)} paths, "
                f"{len(traces) - n0} replays; drift so far: {dict(ctx.drifts)}")
    ctx.extra["scenarios_replayed"] = nscn
    uniq = dedupe(traces)
    ctx.extra["scenario_replays"] = {"replays": len(traces), "distinct_executions": len(uniq)}
    ctx.log(f"{len(traces)} scenario replays, {len(uniq)} distinct executions to judge")
    for i in range(0, len(uniq), 1500):
        judge(ctx, uniq[i:i + 1500], "tlc-scenario")
    # ---- 3. TLC-simulated behaviours of the free model
    sims: List[dict] = []
    simcfgs = [("all four kinds L2", dict(TOtotal=6, TOconnect=5, TOsockc=3, TOread=2, Limit=2)),
               ("two bystanders L2", dict(TOtotal=6, TOconnect=3, Limit=2, Bys=["b", "c"])),
               ("early response", dict(TOtotal=6, TOread=3, Body="block", AllowPause=True, EarlyResponse=True)),
               ("expect100 + big chunk", dict(TOtotal=6, TOread=3, Body="small", Expect100=True, BigChunk=True))]
    if not ctx.quick:
        simcfgs.append(("blocked writer", dict(TOtotal=5, TOread=3, Body="block", AllowPause=True)))
    for (name, kw) in simcfgs:
        mc = dict(DEFAULTS)
        mc.update(kw)
        behs, _ = simulate_behaviours("ClientTimeouts", write_cfg("sim", invariants=[], **mc),
                                      num=ctx.pick(40, 600), depth=40, seed=ctx.seed, timeout=600)
        for k, b in enumerate(behs):
            pth = path_from_behaviour(b)
            has_q = any("qpart" in lab for lab, _, _ in pth["steps"])     # needs the chunked response script
            sims.append(replay_path(ctx, loop, pth, mc, cutsel=2 * (k % 4) if has_q else k % 7, body_variant=k % 2,
                                    src="tlc-sim", readn=(0, 100, 40)[k % 3] if mc["BigChunk"] else 0,
                                    retry=(k % 2 == 1)))
    ctx.log(f"replayed {len(sims)} simulated behaviours; drift: {dict(ctx.drifts)}")
    sims = dedupe(sims)
    for i in range(0, len(sims), 1500):
        judge(ctx, sims[i:i + 1500], "tlc-sim")
    # ---- 4. random fault schedules
    batch: List[dict] = []
    for _ in range(ctx.pick(1000, 8000)):
        batch.append(random_exec(ctx, loop, ctx.rng))
        if len(batch) >= 1500:
            judge(ctx, batch, "random")
            batch = []
    judge(ctx, batch, "random")
    seen = {v.clause for v in ctx.violations}
    for (clause, detail) in named_model:
        if clause in seen:
            ctx.violation(clause, NAMED[clause], detail, "model")
        else:
            # the as-coded model exhibits the deviation but no execution of the code did (e.g. the code
            # was repaired): the model no longer mirrors the code - a refinement matter, not a violation
            ctx.drift(f"model-deviation-not-observed-in-code:{clause}")
    ctx.evaluations = ctx.traces
    ctx.extra["replay_action_counts"] = dict(ctx.action_cover)
    loop.uninstall()


def reexecute(loop: steploop.StepLoop, t: dict) -> dict:
    """Run the recorded environment actions of a trace again against the real code."""
    p = dict(t["params"])
    x = ToExec(loop, **p)
    for e in t["events"]:
        ev, who, part = e["ev"], e["who"], e["part"]
        if ev in ("init", "idle"):
            continue
        if ev in ("served", "probe", "final") or (ev == "start" and who.startswith("f")):
            break
        if ev == "start":
            if who != "v2":
                x.start(who)
        elif ev == "step":
            if who:
                x.step()
            else:
                x._run_nontask()
                x.rec("step", who="")
        elif ev == "dnsdone":
            x.dns_done()
        elif ev == "sockdone":
            x.sock_done(who)
        elif ev == "pausewriting":
            x.pause_writing(who)
        elif ev == "resumewriting":
            x.resume_writing(who)
        elif ev == "deliver":
            if part.startswith("n") and part[1:].isdigit():
                x.deliver_n(who, int(part[1:]))
            else:
                x.deliver(who, part)
        elif ev == "tick":
            x.tick()
        elif ev == "cancel":
            x.cancel(who)
        elif ev == "peerclose":
            x.peer_close(who)
    x.finish()
    tr = x.trace("replay")
    x.teardown()
    return tr


def selftest(ctx: Ctx) -> int:
    import copy
    loop = steploop.new_loop()
    ok = True
    # (ii) spec-level mutants: a constant that disables the mechanism must be caught by TLC
    for (what, kw, want) in [
            ("CloseOnFail=FALSE (failed exchange returned to the pool)", dict(TOtotal=3, CloseOnFail=False), {"NoResidue", "SessionUsable"}),
            ("ShieldDns=FALSE (cancel reaches the shared lookup)", dict(TOtotal=3, Limit=2, ShieldDns=False), {"BystanderUnharmed"}),
            ("CancelWriter=FALSE", dict(TOtotal=3, Body="block", AllowPause=True, CancelWriter=False), {"NoResidue"}),
            ("RearmOnResume=FALSE", dict(TOread=3, BigChunk=True, RearmOnResume=False), {"Bounded"}),
            ("TimerCoversBody=FALSE", dict(TOtotal=3, TimerCoversBody=False), {"Bounded"}),
            ("JoinerOwnFuture=FALSE (joiners of a DNS lookup share one future)",
             dict(TOconnect=3, Limit=3, Bys=["b", "c"], MaxPartial=0, JoinerOwnFuture=False), {"BystanderUnharmed"}),
            ("ArmOnEarlyData=FALSE (early response bytes do not arm sock_read)",
             dict(TOread=3, Body="block", AllowPause=True, EarlyResponse=True, ArmOnEarlyData=False), {"Bounded"})]:
        res = run_tlc("ClientTimeouts", write_cfg("mut", NestedUncancel=False, RearmChecksEof=True, **kw),
                      workers=8, timeout=300, deadlock=False)
        print(f"mutant model {what}: violated={res.violated}")
        ok = ok and res.violated in want
    # vacuity: every action of the repaired model fires
    res = run_tlc("ClientTimeouts", write_cfg("cov", NestedUncancel=False, RearmChecksEof=True, TOtotal=6, TOread=3,
                                             Body="block", AllowPause=True, BigChunk=True),
                  workers=4, timeout=600, deadlock=False, coverage=True)
    dead = [a for a in ("Run", "CallerCancel", "Start", "SockDone", "DnsDone", "PauseNext", "ResumeWriting", "Tick", "Deliver")
            if res.coverage.get(a, (0, 0))[1] == 0]
    print("action coverage:", {k: v[1] for k, v in res.coverage.items()}, "never fired:", dead)
    ok = ok and res.ok and not dead
    # (i) trace-level: a good recorded execution and corrupted copies
    x = ToExec(loop, limit=1, to={"total": 1.5}, offset=0.5, horizon=7.0)
    x.start("v"); x.settle(); x.start("b"); x.settle(); x.dns_done(); x.settle(); x.sock_done("v"); x.settle()
    x.deliver("v", "partial"); x.settle(); x.tick(); x.settle()
    x.finish()
    good = x.trace("selftest")
    x.teardown()
    k = next(i for i, e in enumerate(good["events"]) if e["obs"]["st"]["v"] == "timeout")
    bad1 = copy.deepcopy(good)               # the victim's failure is dropped: it stays pending past the deadline
    for e in bad1["events"][k:]:
        e["obs"]["st"]["v"] = "pending"
        e["obs"]["refs"]["total"] = good["events"][k - 1]["obs"]["refs"]["total"]
        e["obs"]["t"] = max(e["obs"]["t"], 7000)
    bad2 = copy.deepcopy(good)               # the faulted connection is still open
    for e in bad2["events"][k:]:
        e["obs"]["open"] = sorted(set(e["obs"]["open"]) | set(e["obs"]["faulted"]) | {0})
        e["obs"]["faulted"] = e["obs"]["faulted"] or [0]
    bad3 = copy.deepcopy(good)               # the caller had cancelled: a TimeoutError swallows it
    for e in bad3["events"][k:]:
        e["obs"]["cancelreq"] = True
    bad3["events"][k - 1]["obs"]["ph"]["v"] = "waiting"
    bad4 = copy.deepcopy(good)               # the bystander is reported cancelled
    bad4["events"][-1]["obs"]["st"]["b"] = "cancelled"
    bad5 = copy.deepcopy(good)               # an event is dropped: the timeout comes before any delay elapsed
    del bad5["events"][k - 3:k]
    bad5["events"][k - 3]["obs"]["tend"]["v"] = 600
    bad6 = copy.deepcopy(good)               # the deadline was reached but the call goes on elsewhere: the
    for e in bad6["events"][k:]:             # reference vanishes (as after a silent retry), the call stays pending
        e["obs"]["st"]["v"] = "pending"
        e["obs"]["refs"] = {kk: -1 for kk in e["obs"]["refs"]}
    vs, _ = validate_batch("ClientTimeoutsTrace", "ClientTimeoutsTrace.cfg", [good, bad1, bad2, bad3, bad4, bad5, bad6])
    got = [(v.ok, v.clause) for v in vs]
    print(got)
    ok = ok and vs[0].ok and [v.clause for v in vs[1:]] == ["Bounded", "NoResidue", "CancelPropagates",
                                                            "BystanderUnharmed", "EarlyTimeout", "Bounded"]
    ok = ok and vs[6].info == "total-expired"
    print("selftest", "passed" if ok else "FAILED")
    loop.uninstall()
    return 0 if ok else 2


def replay(ctx: Ctx, path: str) -> int:
    payload = json.load(open(path))
    t = payload["detail"].get("trace") if isinstance(payload.get("detail"), dict) else None
    if not isinstance(t, dict) or "events" not in t:
        print("replay: model counterexample (TLC trace of the as-coded model):")
        for a, st in (t or [])[:60] if isinstance(t, list) else []:
            ss = st.get("s", {}) if isinstance(st, dict) else {}
            print("  ", a, "now", ss.get("now"), "pc", ss.get("pc"), "outcome", ss.get("outcome"))
        print("re-run ./check C18 to reproduce it against the code (trace replays are written for the same clause)")
        return 0
    loop = steploop.new_loop()
    tr = reexecute(loop, t)
    vs, _ = validate_batch("ClientTimeoutsTrace", "ClientTimeoutsTrace.cfg", [tr])
    v = vs[0]
    print(f"replay (events re-executed against the code): ok={v.ok} clause={v.clause!r} info={v.info!r} pos={v.pos}/{v.total}")
    for e in tr["events"][max(0, v.pos - 12):v.pos + 1]:
        o = e["obs"]
        print("  ", e["ev"], e["who"], e["part"], "t=", o["t"], "st=", o["st"], "timers=", o["timers"], "tasks=", o["tasks"])
    loop.uninstall()
    if not v.ok:
        print(f"VIOLATION property=C18 replay={path}")
        return 1
    return 0
