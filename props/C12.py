"""C12 - WebSocket reader enforces the protocol and its size bounds.

spec/WsFrames.tla       RFC 6455 / RFC 7692 reference frame reader (byte level, resumable)
spec/WsFramesMC.tla     bounded model over a frame-lexeme alphabet (TLC, exhaustive)
spec/WsFramesTrace.tla  judges executions of the real WebSocketReader + WebSocketDataQueue

Binding: every input stream is fed to a fresh real reader in a group of segmentations (whole,
every single cut, byte-at-a-time, random, pairs of cuts for short streams); each feed_data call
is recorded (messages read from the queue through its public read(), the queue's exception,
bytes retained by the reader object, inflate calls seen by a wrapper) and TLC decides.
"""
from __future__ import annotations

import asyncio
import copy
import json
import os
import zlib
from collections import deque
from typing import Any, Dict, List, Optional, Tuple

from engine import steploop
from engine.gen import wsframes as G
from engine.runner import Ctx
from engine.tlc import MachineryError, mktemp, run_tlc, simulate_behaviours, validate_batch

K_CONST = 144          # 14 header bytes + one 125-byte control frame + the 4-byte mask key + 1
DEFAULT_MAX = 4 * 1024 * 1024
INFL_LOG: List[dict] = []
_ORIG_DECOMP: Any = None


# ------------------------------------------------------------------ observation helpers
def install_inflate_wrapper() -> None:
    """Wrap (in this process only) the decompressor class the reader instantiates so that every
    inflate call is logged: input, max_length, result.  Inflate itself is uninterpreted."""
    global _ORIG_DECOMP
    import aiohttp._websocket.reader_py as rp

    if _ORIG_DECOMP is not None:
        return
    orig = getattr(rp, "ZLibDecompressor", None)
    if orig is None:
        raise MachineryError("aiohttp._websocket.reader_py.ZLibDecompressor not found: cannot observe inflate calls")
    _ORIG_DECOMP = orig

    class RecordingDecompressor(orig):  # type: ignore[misc,valid-type]
        def __init__(self, *a: Any, **k: Any) -> None:
            super().__init__(*a, **k)
            self._verif_indep = zlib.decompressobj(wbits=-15)

        def decompress_sync(self, data: Any, max_length: int = 0) -> bytes:
            data = bytes(data)
            ent = {"has": True, "inp": list(data), "maxlen": int(max_length), "ok": False, "outlen": 0,
                   "utf8": False, "out": [], "xeq": True, "err": "", "full": True}
            INFL_LOG.append(ent)
            try:
                # independent inflater; a block with BFINAL=1 ends a deflate stream, the rest of the
                # input starts a new one (RFC 7692 7.2.3.4)
                xo: Optional[bytes] = b""
                rest = data
                for _ in range(2000):
                    xo += self._verif_indep.decompress(rest)
                    if not self._verif_indep.eof:
                        break
                    rest = self._verif_indep.unused_data
                    self._verif_indep = zlib.decompressobj(wbits=-15)
                    if not rest:
                        break
            except Exception:  # noqa: BLE001
                xo = None
            try:
                out = super().decompress_sync(data, max_length)
            except Exception as exc:  # noqa: BLE001
                ent["err"] = type(exc).__name__
                ent["xeq"] = xo is None or type(exc).__name__ == "TooManyMembersError"
                raise
            ent["ok"] = True
            ent["outlen"] = len(out)
            ent["out"] = list(out) if len(out) <= 70000 else []
            try:
                out.decode("utf-8")
                ent["utf8"] = True
            except UnicodeDecodeError:
                ent["utf8"] = False
            capped = bool(max_length) and len(out) >= max_length      # stopped early: the rest was never looked at
            ent["xeq"] = capped or (xo is not None and xo[: len(out)] == out)
            # did the call return the whole message?  (it stopped at max_length: ask the independent inflater)
            ent["full"] = (not capped) or (xo is not None and len(xo) == len(out))
            return out

    rp.ZLibDecompressor = RecordingDecompressor  # type: ignore[misc]


class RecProto:
    """Recording mock protocol: what WebSocketDataQueue / WebSocketReader need of BaseProtocol."""

    def __init__(self) -> None:
        self._reading_paused = False
        self.calls: List[str] = []

    def pause_reading(self) -> None:
        self._reading_paused = True
        self.calls.append("pause")

    def resume_reading(self) -> None:
        self._reading_paused = False
        self.calls.append("resume")


def _sz(v: Any) -> int:
    if isinstance(v, (bytes, bytearray, memoryview)):
        return len(v)
    if isinstance(v, (list, tuple, deque)):
        return sum(len(x) for x in v if isinstance(x, (bytes, bytearray, memoryview)))
    return 0


def retained_bytes(reader: Any) -> int:
    """All byte containers held by the reader object (whatever they are called)."""
    return sum(_sz(v) for k, v in vars(reader).items() if k != "queue")


def retained_priv(reader: Any) -> int:
    try:
        return len(reader._tail) + sum(len(x) for x in reader._payload_fragments) + len(reader._partial)
    except Exception:  # noqa: BLE001
        return -1


def project(msg: Any) -> dict:
    t = int(msg.type)
    code = 0
    if t == 8:
        code = int(msg.data)
        data = (msg.extra or "").encode("utf-8", "surrogateescape")
        wsize = 0 if (code == 0 and not data) else 2 + len(data)
    elif isinstance(msg.data, str):
        try:
            data = msg.data.encode("utf-8")
        except UnicodeEncodeError:
            data = b"\xff<str not encodable>"
        wsize = len(data)
    else:
        data = bytes(msg.data)
        wsize = len(data)
    return {"t": t, "data": list(data), "code": code, "size": int(msg.size), "wsize": wsize}


class Run:
    """One fresh reader fed one segmentation of the stream."""

    def __init__(self, loop: steploop.StepLoop, cfg: dict) -> None:
        from aiohttp._websocket.reader_py import WebSocketDataQueue, WebSocketReader

        self.loop = loop
        self.proto = RecProto()
        self.queue = WebSocketDataQueue(self.proto, 2 ** 16, loop=loop)  # type: ignore[arg-type]
        self.reader = WebSocketReader(self.queue, cfg["max"], compress=cfg["compress"], decode_text=cfg["decode"])
        self.got: List[Any] = []
        self.exc: Optional[BaseException] = None
        self.consumer = loop.create_task(self._consume())
        loop.run_until_idle()

    async def _consume(self) -> None:
        while True:
            try:
                msg = await self.queue.read()
            except asyncio.CancelledError:
                raise
            except BaseException as exc:  # noqa: BLE001
                self.exc = exc
                return
            self.got.append(msg)

    async def _drain_after_error(self) -> None:
        for _ in range(1000):
            if not self.queue.is_eof():       # read() could block: not at EOF any more
                return
            try:
                msg = await self.queue.read()
            except BaseException:  # noqa: BLE001
                return
            self.got.append(msg)

    def exc_code(self) -> int:
        e = self.exc if self.exc is not None else self.queue.exception()
        if e is None:
            return 0
        if type(e).__name__ == "EofStream":
            return 0
        code = getattr(e, "code", None)
        if type(e).__name__ == "WebSocketError" and isinstance(code, int):
            return int(code)
        return 1

    def feed(self, chunk: bytes, n: int, st: bool, en: bool, seg: str) -> dict:
        before = len(self.got)
        escaped = ""
        try:
            self.reader.feed_data(chunk)
        except Exception as exc:  # noqa: BLE001  (feed_data is documented to capture errors itself)
            escaped = type(exc).__name__
        self.loop.run_until_idle()
        if self.consumer.done() and self.exc is not None:
            # the consumer has seen the error; anything the queue still hands out now was
            # delivered after the violation (read() does not block once the queue is at EOF)
            self.loop.run_coro(self._drain_after_error())
        ev = {"ev": "feed", "n": n, "st": st, "en": en, "seg": seg,
              "msgs": [project(m) for m in self.got[before:]],
              "exc": 1 if escaped else self.exc_code(),
              "retained": retained_bytes(self.reader), "rpriv": retained_priv(self.reader),
              "c0": 0, "c1": len(INFL_LOG),
              "frags": len(getattr(self.reader, "_payload_fragments", ())),
              "paused": bool(self.proto._reading_paused)}
        return ev

    def finish(self) -> None:
        if not self.consumer.done():
            self.consumer.cancel()
            self.loop.run_until_idle()


def run_group(loop: steploop.StepLoop, name: str, stream: bytes, cfg: dict,
              segs: List[Tuple[str, List[int]]], src: str) -> dict:
    events: List[dict] = []
    calls: List[dict] = []
    for sname, chunks in segs:
        del INFL_LOG[:]
        r = Run(loop, cfg)
        pos = 0
        base = len(calls)
        for i, n in enumerate(chunks):
            ev = r.feed(stream[pos:pos + n], n, i == 0, i == len(chunks) - 1, sname)
            ev["c0"], ev["c1"] = base, base + ev["c1"]
            events.append(ev)
            pos += n
        calls.extend(INFL_LOG)
        del INFL_LOG[:]
        r.finish()
    c = {"compress": bool(cfg["compress"]), "decode": bool(cfg["decode"]), "max": int(cfg["max"]),
         "K": K_CONST, "stream": list(stream), "calls": calls, "devs": []}
    return {"cfg": c, "src": src, "name": name, "events": events,
            "segs": [[s, ch] for s, ch in segs]}


# ------------------------------------------------------------------ judging
# Rules of the reference for which the code is known to deviate (DESIGN section 5 item 18 and the
# two fragmentation findings).  A failing trace is re-validated with these rules in deviation
# mode; if it then passes it is reported under the rule's own clause name "Accepted:<rule>" so
# that a known-findings entry can match exactly that and nothing else.
DEVIATION_RULES = ["close-code-1006", "interleave-nonfin", "interleave-fin-empty"]


def _report(ctx: Ctx, t: dict, clause: str, why: str, seg: str, pos: int, info: Any, devs_used: List[str]) -> None:
    klass = t["name"].split(":")[-1] if ":" in t["name"] else t["name"]
    sig = (f"{clause} rule={why or '-'} input={klass} compress={t['cfg']['compress']} "
           f"max_msg_size={t['cfg']['max']}")
    bad_ev = t["events"][pos] if pos < len(t["events"]) else {}
    detail = {"name": t["name"], "cfg": {k: t["cfg"][k] for k in ("compress", "decode", "max")},
              "stream": t["cfg"]["stream"], "segs": t["segs"], "failed_at_event": pos,
              "segmentation": seg, "rule": why, "deviation_rules_met": devs_used,
              "ref_codes": sorted(info[2]) if info and len(info) > 2 and not isinstance(info[2], (str, int)) else [],
              "code_exc": info[3] if info and len(info) > 3 else None,
              "event": {k: bad_ev.get(k) for k in ("n", "seg", "msgs", "exc", "retained")}}
    ctx.violation(clause, sig, detail, "trace")


def judge(ctx: Ctx, traces: List[dict], label: str) -> None:
    if not traces:
        return
    verdicts, res = validate_batch("WsFramesTrace", "WsFramesTrace.cfg", traces, timeout=1500)
    if res.violated:
        raise MachineryError(f"trace validation reported {res.violated}:\n" + "\n".join(res.output.splitlines()[-30:]))
    ctx.add_trace_batch(len(traces), res)
    failing: List[Tuple[dict, Any]] = []
    for t, v in zip(traces, verdicts):
        ctx.evaluations += sum(1 for e in t["events"] if e["st"])
        ctx.distinct.add(hash((bytes(t["cfg"]["stream"]), t["cfg"]["compress"], t["cfg"]["decode"], t["cfg"]["max"])))
        if v.ok:
            for d in ((v.info or [[]])[0] or []):
                ctx.drift(d[1])
        else:
            failing.append((t, v))
    if failing:
        # classify: the same executions with the known deviation rules in deviation mode
        re_tr = []
        for t, _v in failing:
            t2 = dict(t)
            t2["cfg"] = dict(t["cfg"], devs=list(DEVIATION_RULES))
            re_tr.append(t2)
        v2s, res2 = validate_batch("WsFramesTrace", "WsFramesTrace.cfg", re_tr, timeout=1500)
        ctx.trace_states += res2.distinct
        for (t, v), v2 in zip(failing, v2s):
            info = v.info or []
            if v2.ok:
                used = sorted((v2.info or [[], []])[1] or [])
                if used:
                    for d in used:
                        _report(ctx, t, "Accepted:" + d, d, info[0] if info else "?", v.pos, info, used)
                    continue
            vv = v2 if not v2.ok else v
            info = vv.info or []
            _report(ctx, t, vv.clause, info[1] if len(info) > 1 else "", info[0] if info else "?", vv.pos, info, [])
    t0 = traces[0]
    ctx.sample({"src": t0["src"], "name": t0["name"], "cfg": {k: t0["cfg"][k] for k in ("compress", "decode", "max")},
                "stream_len": len(t0["cfg"]["stream"]), "runs": len(t0["segs"]),
                "first_events": [{k: e[k] for k in ("n", "seg", "msgs", "exc", "retained")} for e in t0["events"][:3]]})


class Batcher:
    def __init__(self, ctx: Ctx, label: str, max_events: int = 40000) -> None:
        self.ctx, self.label, self.max_events = ctx, label, max_events
        self.buf: List[dict] = []
        self.n = 0

    def add(self, t: dict) -> None:
        self.buf.append(t)
        self.n += len(t["events"])
        if self.n >= self.max_events:
            self.flush()

    def flush(self) -> None:
        judge(self.ctx, self.buf, self.label)
        self.buf, self.n = [], 0


# ------------------------------------------------------------------ model
MODEL_CFG = """SPECIFICATION Spec
CONSTANTS
  MaxMsg = {maxmsg}
  Compress = {compress}
  Decode = {decode}
  PendMax = {pend}
  ExpMax = {expmax}
  AccMax = 5
  Alphabet = "{alpha}"
{override}INVARIANT InvSelf
INVARIANT InvFailCodes
INVARIANT InvDeadAgree
INVARIANT InvRetained
INVARIANT InvType
INVARIANT InvAssembly
VIEW View
CHECK_DEADLOCK FALSE
"""


def write_cfg(maxmsg: int, compress: bool, decode: bool, pend: int, expmax: int, alpha: str, mutant: str = "") -> str:
    d = mktemp("c12cfg")
    p = os.path.join(d, f"WsFramesMC_{maxmsg}_{alpha}_{pend}.cfg")
    ov = f"CONSTANT Mut <- {mutant}\n" if mutant else ""
    with open(p, "w") as f:
        f.write(MODEL_CFG.format(maxmsg=maxmsg, compress=str(compress).upper(), decode=str(decode).upper(),
                                 pend=pend, expmax=expmax, alpha=alpha, override=ov))
    return p


def model_runs(ctx: Ctx) -> None:
    quick = [(4, True, True, 0, 1, "full"), (0, False, True, 0, 1, "full"), (4, True, False, 3, 2, "span"),
             (4, True, True, 3, 3, "full")]
    thorough = quick + [(0, True, True, 3, 3, "full"), (4, False, True, 3, 3, "mid"), (4, True, False, 3, 3, "full")]
    for (mx, comp, dec, pend, em, alpha) in ctx.pick(quick, thorough):
        cfg = write_cfg(mx, comp, dec, pend, em, alpha)
        res = run_tlc("WsFramesMC", cfg, workers=16, timeout=ctx.pick(400, 1500), deadlock=False)
        name = f"WsFramesMC(max={mx},compress={comp},decode={dec},pend={pend},alphabet={alpha})"
        ok = ctx.expect_model_ok(name, res)
        ctx.log(f"model {name}: {res.distinct} states, ok={ok}, {res.wall_s:.0f}s")


# ------------------------------------------------------------------ drivers
def configs_for(ctx: Ctx) -> List[dict]:
    if ctx.quick:
        combos = [(0, False, True), (1, True, True), (16, False, True), (16, True, True), (1024, True, True),
                  (DEFAULT_MAX, False, True), (0, True, True), (16, False, False)]
    else:
        combos = [(mx, comp, True) for mx in (0, 1, 16, 1024, DEFAULT_MAX) for comp in (False, True)]
        combos += [(16, False, False), (0, True, False), (1024, True, False)]
    return [{"max": mx, "compress": comp, "decode": dec} for (mx, comp, dec) in combos]


def seg_opts(ctx: Ctx, n: int, k: int = 0) -> dict:
    # pairs of cuts: quick <= 10 bytes; thorough <= 40 bytes, and <= 120 bytes for every 12th group
    pairs = ctx.pick(10, 120 if k % 12 == 0 else 40)
    return {"pairs_upto": pairs, "all_cuts_upto": ctx.pick(48, 160), "bytewise_upto": ctx.pick(260, 1500),
            "n_random": ctx.pick(2, 6)}


def drive_injected(ctx: Ctx, loop: steploop.StepLoop) -> None:
    """Valid frame sequences with every violation class injected at every frame position.
    Every class appears at every frame position across the configurations (the position rotates with
    the class and the configuration); quick: one position per class and configuration, thorough: four."""
    rng = ctx.rng
    b = Batcher(ctx, "injected")
    classes_done: set = set()
    ngroups = 0
    for ci, cfg in enumerate(configs_for(ctx)):
        gen_max = cfg["max"] if cfg["max"] <= 2048 else 0
        streams = G.injected_streams(rng, gen_max, cfg["compress"])
        if cfg["max"] > 2048:
            # default cap: only header-level size classes (the payload itself would be megabytes)
            m = cfg["max"]
            streams += [("default-cap:too-big-declared-only", G.frame(1, G.OP_BIN, b"ab", declared=m + 1)),
                        ("default-cap:too-big-declared-at-cap", G.frame(1, G.OP_BIN, b"ab", declared=m)),
                        ("default-cap:below-cap-declared", G.frame(1, G.OP_BIN, b"ab", declared=m - 1)),
                        ("default-cap:too-big-fragments-declared",
                         G.frame(0, G.OP_BIN, bytes(300)) + G.frame(1, G.OP_CONT, b"x", declared=m - 299)),
                        ("default-cap:len64-2^31", G.frame(1, G.OP_BIN, b"ab", raw_len8=(2 ** 31).to_bytes(8, "big")))]
        byclass: Dict[str, List[Tuple[str, bytes]]] = {}
        for name, stream in streams:
            byclass.setdefault(name.split(":")[-1] if not name.startswith("valid:") else name, []).append((name, stream))
        for ki, (klass, lst) in enumerate(sorted(byclass.items())):
            if not klass.startswith("valid:"):
                npos = ctx.pick(1, 4)             # positions per class and configuration
                lst = [lst[(ki + 3 * ci + j * max(1, len(lst) // npos)) % len(lst)] for j in range(min(npos, len(lst)))]
            for name, stream in lst:
                classes_done.add(klass)
                segs = G.segmentations(rng, stream, **seg_opts(ctx, len(stream), ngroups))
                b.add(run_group(loop, name, stream, cfg, segs, "grammar+defect"))
                ngroups += 1
    b.flush()
    classes = sorted(c for c in classes_done if not c.startswith("valid:"))
    ctx.log(f"injected: {ngroups} groups; violation classes exercised: {len(classes)}")
    ctx.extra["violation_classes_exercised"] = classes


def drive_random(ctx: Ctx, loop: steploop.StepLoop) -> None:
    rng = ctx.rng
    b = Batcher(ctx, "random")
    cfgs = configs_for(ctx)
    n = ctx.pick(350, 3000)
    for name, stream in G.random_streams(rng, n):
        cfg = rng.choice(cfgs)
        segs = G.segmentations(rng, stream, pairs_upto=ctx.pick(0, 24), all_cuts_upto=ctx.pick(40, 64), bytewise_upto=300, n_random=1)
        b.add(run_group(loop, name, stream, cfg, segs, "random"))
    b.flush()


def drive_large(ctx: Ctx, loop: steploop.StepLoop) -> None:
    """Length-encoding boundaries and the fragment-count back-pressure (long frames)."""
    rng = ctx.rng
    b = Batcher(ctx, "large")
    for ln in (125, 126, 127, 65535, 65536, 65537):
        for mask in (None, G.M1):
            payload = bytes((i * 7 + ln) & 0x7F for i in range(ln))
            stream = G.frame(1, G.OP_TEXT, payload, mask=mask) + G.frame(1, G.OP_PING, b"!")
            cfgs = [{"max": 0, "compress": False, "decode": True}, {"max": ln, "compress": False, "decode": True},
                    {"max": ln + 1, "compress": False, "decode": True}]
            if ln > 1000 and ctx.quick:
                cfgs = cfgs[1:] if mask else cfgs[:1]
            for cfg in cfgs:
                segs = G.segmentations(rng, stream, all_cuts_upto=0, bytewise_upto=200, n_random=1)
                cuts = [s for s in segs[1:] if s[0].startswith("cut")]
                keep = cuts[:16] if ln < 1000 else cuts[:14:4]
                segs = segs[:1] + keep + [s for s in segs if s[0].startswith(("random", "bytewise"))]
                b.add(run_group(loop, f"large:len{ln}", stream, cfg, segs, "boundary"))
    # a frame dribbled in more reads than max_fragments: reading must be paused (refinement)
    stream = G.frame(1, G.OP_BIN, bytes(1100)) + G.frame(1, G.OP_TEXT, b"after")
    b.add(run_group(loop, "large:dribble", stream, {"max": 2048, "compress": False, "decode": True},
                    [("whole", [len(stream)]), ("bytewise", [1] * len(stream))], "boundary"))
    b.flush()


def drive_model_behaviours(ctx: Ctx, loop: steploop.StepLoop) -> None:
    """spec -> code: behaviours of WsFramesMC (frames chosen and chunked by TLC) replayed."""
    b = Batcher(ctx, "tlc-sim")
    for (mx, comp, dec) in ((4, True, True), (0, False, True)):
        cfgp = write_cfg(mx, comp, dec, 3, 3, "full")
        behs, _res = simulate_behaviours("WsFramesMC", cfgp, num=ctx.pick(100, 1500), depth=ctx.pick(14, 24),
                                         seed=ctx.seed, timeout=300)
        for beh in behs:
            chunks: List[int] = []
            frames = b""
            for _label, st in beh[1:]:
                last = st["last"]
                if last["ev"] == "frame":
                    frames += bytes(last["bytes"])
                elif last["ev"] == "feed":
                    chunks.append(int(last["n"]))
            fed = sum(chunks)
            if len(frames) > fed:
                chunks.append(len(frames) - fed)
            if not frames:
                continue
            cfg = {"max": mx, "compress": comp, "decode": dec}
            segs = [("whole", [len(frames)]), ("model", chunks), ("bytewise", [1] * len(frames))]
            b.add(run_group(loop, "tlc-sim", frames, cfg, segs, "tlc-sim"))
    b.flush()


def run(ctx: Ctx) -> None:
    ctx.rule = ("executions = one fresh real WebSocketReader per (stream, config, segmentation); groups = streams from "
                "the frame grammar with each violation class at each frame position, random bytes, length-boundary "
                "frames, TLC-simulated lexeme sequences; distinct = different (stream, config)")
    ctx.assumptions = ["inflate is uninterpreted: its results are logged by a wrapper around the decompressor class "
                       "the reader instantiates and cross-checked against an independent zlib inflater (drift only)",
                       "retained memory = total length of all byte containers held by the reader object after a call",
                       "streams are finite; a frame announcing >= 2^31 bytes is never completed",
                       "masking direction is not enforced (THREAT_MODEL 3.1); non-minimal length encodings are accepted",
                       "decode_text=False delivers TEXT payloads unvalidated (documented option)",
                       "pure-Python reader_py (the C reader is not built in this tree)"]
    install_inflate_wrapper()
    loop = steploop.new_loop()
    if not os.environ.get("VERIF_SKIP_MODELS"):       # (sensitivity experiments only: the models do not depend on /repo)
        model_runs(ctx)
    drive_model_behaviours(ctx, loop)
    ctx.log(f"tlc-sim replays done: traces={ctx.traces}")
    drive_injected(ctx, loop)
    ctx.log(f"injected done: traces={ctx.traces}")
    drive_large(ctx, loop)
    drive_random(ctx, loop)
    ctx.log(f"random done: traces={ctx.traces} runs={ctx.evaluations}")
    # report anything that is not one of the named deviations first
    ctx.violations.sort(key=lambda v: v.clause in tuple("Accepted:" + d for d in DEVIATION_RULES))
    loop.uninstall()


# ------------------------------------------------------------------ selftest / replay
def selftest(ctx: Ctx) -> int:
    install_inflate_wrapper()
    loop = steploop.new_loop()
    rng = ctx.rng
    cfg = {"max": 16, "compress": True, "decode": True}
    d = G.Deflater()
    stream = (G.frame(0, G.OP_TEXT, b"ab") + G.frame(1, G.OP_PING, b"p") + G.frame(1, G.OP_CONT, b"cd", mask=G.M1)
              + G.frame(1, G.OP_BIN, d.message(b"zzzz"), rsv=4) + G.frame(1, G.OP_CLOSE, G.close_payload(1005)))
    segs = G.segmentations(rng, stream, pairs_upto=0, n_random=1)
    good = run_group(loop, "selftest", stream, cfg, segs, "selftest")
    bad1 = copy.deepcopy(good)                       # corrupted payload byte
    e = next(e for e in bad1["events"] if e["msgs"] and e["msgs"][-1]["t"] == 1)
    e["msgs"][-1]["data"][0] ^= 1
    bad2 = copy.deepcopy(good)                       # dropped feed event (second half of a cut)
    k = next(i for i, e in enumerate(bad2["events"]) if e["seg"].startswith("cut") and e["en"])
    bad2["events"][k - 1]["en"] = True
    del bad2["events"][k]
    bad3 = copy.deepcopy(good)                       # the error code of the violation altered
    for e in bad3["events"]:
        if e["exc"] == 1002:
            e["exc"] = 1000
    bad4 = copy.deepcopy(good)                       # violation swallowed in one segmentation
    for e in bad4["events"]:
        if e["seg"] == "bytewise":
            e["exc"] = 0
    bad5 = copy.deepcopy(good)                       # retained memory above the bound
    bad5["events"][0]["retained"] = 16 + K_CONST + 1
    vs, _ = validate_batch("WsFramesTrace", "WsFramesTrace.cfg", [good, bad1, bad2, bad3, bad4, bad5])
    print([(v.ok, v.clause, v.pos) for v in vs])
    ok = vs[0].ok and all(not v.ok for v in vs[1:])
    # spec-level mutants of the reference: TLC must notice each of them
    for mut in ("MutNoCap", "MutNoLatch", "MutNoContCheck"):
        cfgp = write_cfg(4, True, True, 0, 1, "full", mutant=mut)
        res = run_tlc("WsFramesMC", cfgp, workers=16, timeout=400, deadlock=False)
        print(f"mutant {mut}: violated={res.violated}")
        ok = ok and res.violated is not None and res.kind == "invariant"
    loop.uninstall()
    print("selftest", "passed" if ok else "FAILED")
    return 0 if ok else 2


def replay(ctx: Ctx, path: str) -> int:
    payload = json.load(open(path))
    d = payload["detail"]
    install_inflate_wrapper()
    loop = steploop.new_loop()
    cfg = d["cfg"]
    stream = bytes(d["stream"])
    segs = [(s, list(ch)) for s, ch in d["segs"]]
    t = run_group(loop, d.get("name", "replay"), stream, cfg, segs, "replay")
    vs, _ = validate_batch("WsFramesTrace", "WsFramesTrace.cfg", [t])
    v = vs[0]
    print(f"replay: ok={v.ok} clause={v.clause!r} pos={v.pos}/{v.total} info={v.info}")
    if not v.ok:
        print(f"VIOLATION property=C12 replay={path}")
        return 1
    return 0
