"""C10 - Parsers are total and enforce their configured limits.

Reference: spec/HttpFraming.tla with limit constants; the bounded model (limits alphabet:
lines of limit-1 / limit / limit+1 bytes in every syntactic position, unterminated pieces)
shows that every over-limit construct ends in rejection and that the reader never waits on
more than limit+1 unterminated bytes.

Real code, judged by spec/HttpFramingTrace.tla:
  Total        only HttpProcessingError subclasses leave feed_data / feed_eof (parser level);
               on a server connection malformed input gives one 4xx and a closed transport and
               nothing escapes data_received; on a client connection the error becomes a client
               error on the protocol and the transport is closed;
  MustReject   start line > max_line_size, field / trailer line > max_field_size, more than
               max_headers fields: rejected (one read of slack for an unterminated line);
  Retention    bytes kept for an incomplete line / header block stay within the limits + one read;
  LinearWork   Python line events inside http_parser.py (sys.monitoring, never wall clock) per
               call and amortised per run stay under linear bounds.
"""
from __future__ import annotations

import json
from typing import Any, Dict, List

from engine import httpframing as H
from engine.gen import http as G
from engine.runner import Ctx

BATCH = 1500


class _Acc:
    def __init__(self, ctx: Ctx) -> None:
        self.ctx = ctx
        self.groups: List[H.Group] = []
        self.stats: Dict[str, int] = {}
        self.work_max = {"per_byte": 0.0, "per_call": 0, "calls": 0}

    def add(self, g: H.Group) -> None:
        for ev in g.outcomes.values():
            for c in ev["calls"]:
                self.work_max["calls"] += 1
                if c[0] > 0:
                    self.work_max["per_byte"] = max(self.work_max["per_byte"], round(c[4] / c[0], 1))
                self.work_max["per_call"] = max(self.work_max["per_call"], c[4])
        self.groups.append(g)
        if len(self.groups) >= BATCH:
            self.flush("batch")

    def flush(self, label: str) -> None:
        if not self.groups:
            return
        st = H.judge_groups(self.ctx, self.groups, "C10", label)
        for k, v in st.items():
            self.stats[k] = self.stats.get(k, 0) + v
        for g in self.groups:
            self.ctx.distinct.add(hash((g.data, g.lim.key(), g.mode)))
        if len(self.ctx.samples) < 5:
            g = self.groups[0]
            self.ctx.sample({"mode": g.mode, "label": g.label, "stream": g.data[:120].decode("latin1"),
                             "limits": list(g.lim.key()), "runs": g.nruns})
        self.ctx.log(f"judged {len(self.groups)} streams ({label}); clauses: {dict(sorted(self.stats.items()))}")
        self.groups = []


def run(ctx: Ctx) -> None:
    ctx.rule = ("executions = (stream, limits, segmentation) runs of both parsers, of RequestHandler and of ResponseHandler, "
                "judged by TLC; distinct = different (stream, limits, mode)")
    ctx.assumptions = [
        "work = Python line events executed inside aiohttp/http_parser.py (sys.monitoring LINE, scoped to that file); "
        "work done inside C-level bytes/regex operations is not visible to this measure",
        "linear-work constants fitted on the unchanged tree with margin x4 (per call 48*bytes+32*retained+1240; per run "
        "40*bytes+120*calls+1240): only gross (>= 4x) regressions at sizes <= 64 KiB are flagged",
        "retained bytes are read from the parser's private buffers (_tail, _lines, _chunk_tail, _trailer_lines); if they "
        "disappear the retention clause observes 0",
        "MustReject allows one read of slack for a line that never terminates (the parser notices on the next read)",
        "the header-count limit may be enforced up to 3 lines early (the parser counts the start line and the empty line)",
    ]
    rng = ctx.rng
    acc = _Acc(ctx)
    meter = H.WorkMeter()
    try:
        # ---- 1. bounded model: limit families in every syntactic position
        H.run_model(ctx, "HttpFramingMC(limits)",
                    H.write_mc_cfg("limits", MaxLine=30, MaxField=28, MaxHeaders=3, MaxPending=60, MaxLines=5, MaxMsgs=1,
                                   LexIds="{1, 16, 17, 24, 31, 40, 42, 47, 50, 51, 52, 53, 54, 55, 56, 57, 58, 59}"),
                    timeout=400)
        # ---- 2. limit -1/0/+1 families for every syntactic position x limit configurations
        lims = [H.Limits(40, 40, 8), H.Limits(60, 40, 8), H.Limits(40, 60, 8), H.Limits(40, 40, 8, limit=4), H.Limits(),
                H.Limits(300, 200, 20)]
        if not ctx.quick:
            lims += [H.Limits(8190, 4000, 64), H.Limits(1000, 8190, 128), H.Limits(64, 64, 4, limit=2)]
        conn_h: Dict[Any, H.ConnHarness] = {}
        for lim in lims:
            for pos in G.LIMIT_POSITIONS:
                for label, s, cutsets, mode in G.limit_family(pos, lim.max_line, lim.max_field, lim.max_headers):
                    g = H.Group(mode, s, lim, src="limit-family", label=f"{label} limits={lim.key()}")
                    g.parse([], meter)
                    g.parse(G.byte_at_a_time(len(s)) if len(s) <= 3000 else list(range(1, len(s), 61)), meter)
                    for cs in cutsets:
                        g.parse(cs, meter)
                    if mode == "request" and lim.limit > 16 and lim.max_line <= 400:
                        h = conn_h.get(lim.key()) or conn_h.setdefault(lim.key(), H.ConnHarness(lim))
                        g.conn(h, [])
                        if cutsets:
                            g.conn(h, cutsets[0])
                    acc.add(g)
        # runs of one non-LF byte after a plausible line, and blocks with too many lines that never end
        for lim in lims:
            if lim.limit <= 16:
                continue
            for label, s, cutsets, mode in G.unterminated_family(lim.max_line, lim.max_field, lim.max_headers):
                g = H.Group(mode, s, lim, src="unterminated", label=f"{label} limits={lim.key()}")
                g.parse([], meter)
                if len(s) <= 1500:
                    g.parse(G.byte_at_a_time(len(s)), meter)
                for cs in cutsets:
                    g.parse(cs, meter)
                if mode == "request" and lim.max_line <= 400:
                    h = conn_h.get(lim.key()) or conn_h.setdefault(lim.key(), H.ConnHarness(lim))
                    g.conn(h, cutsets[-1])
                acc.add(g)
        # a line between two unequal limits anywhere in a pipeline; header blocks around the count limit x body kinds
        for lim in lims:
            if lim.max_line > 400 or lim.limit <= 16:
                continue
            for label, s, cutsets, mode in (G.between_limits_family(lim.max_line, lim.max_field)
                                            + G.header_count_family(lim.max_headers)):
                g = H.Group(mode, s, lim, src="limit-family", label=f"{label} limits={lim.key()}")
                g.parse([], meter)
                g.parse(G.byte_at_a_time(len(s)), meter)
                for cs in cutsets:
                    g.parse(cs, meter)
                acc.add(g)
        # folded response headers: the sum of the raw continuation lines counts against max_field_size
        for lim in lims:
            if lim.limit <= 16:
                continue
            for label, s, cutsets, mode in G.fold_sum_family(lim.max_field):
                g = H.Group(mode, s, lim, src="fold-sum", label=f"{label} limits={lim.key()}")
                g.parse([], meter)
                for cs in cutsets:
                    g.parse(cs, meter)
                if len(s) <= 2000:
                    g.parse(G.byte_at_a_time(len(s)), meter)
                    g.client([])
                acc.add(g)
        # a pooled client connection reused with per-request limits: every response is judged against the limits
        # of ITS request (first exchange: a small response; second exchange: limit-sized responses for the new limits)
        per_req = [H.Limits(300, 200, 20), H.Limits(80, 80, 8), H.Limits(), H.Limits(40, 60, 8)]
        small = b"HTTP/1.1 200 OK\r\nContent-Length: 2\r\n\r\nok"
        for la in per_req:
            for lb in per_req:
                if la == lb:
                    continue
                fam = [x for pos in ("status-line", "field", "header-count", "fold")
                       for x in G.limit_family(pos, lb.max_line, lb.max_field, lb.max_headers) if x[3] == "response"]
                fam += [x for x in G.fold_sum_family(lb.max_field) if len(x[1]) < 30000]
                for label, s, _cs, _mode in fam:
                    for g in H.client_exchanges([(small, la, []), (s, lb, [])], "client-reuse", f"{label} after limits={la.key()}"):
                        acc.add(g)
        # numbers with very many digits
        for label, s, mode in G.long_number_family():
            g = H.Group(mode, s, H.DEFAULT_LIMITS, src="long-number", label=label)
            g.parse([], meter)
            g.parse([len(s) // 2], meter)
            g.parse(list(range(1, len(s), 997)), meter)
            if mode == "request":
                h = conn_h.get(H.DEFAULT_LIMITS.key()) or conn_h.setdefault(H.DEFAULT_LIMITS.key(), H.ConnHarness(H.DEFAULT_LIMITS))
                g.conn(h, [])
            else:
                g.client([])
            acc.add(g)
        acc.flush("limit families")
        # ---- 3. totality: hostile request targets, structure-aware mutations, raw random bytes
        dh = conn_h.get(H.DEFAULT_LIMITS.key()) or H.ConnHarness(H.DEFAULT_LIMITS)
        for t in G.HOSTILE_TARGETS:
            for method in (b"GET", b"CONNECT", b"OPTIONS"):
                s = method + b" " + t + b" HTTP/1.1\r\nHost: a\r\n\r\n"
                g = H.Group("request", s, H.DEFAULT_LIMITS, src="hostile-target", label=f"{method.decode()} {t[:40]!r}")
                g.parse([], meter)
                g.parse(G.byte_at_a_time(len(s)), meter)
                if method != b"OPTIONS":
                    g.conn(dh, [])
                acc.add(g)
        k = 0
        names = list(H.LIMIT_CONFIGS)
        for src, label, data in H.request_corpus(rng, ctx.pick(45, 250), ctx.pick(2, 8), ctx.pick(6, 20)):
            k += 1
            lim = H.LIMIT_CONFIGS[names[k % len(names)]]
            g = H.Group("request", data, lim, src=src, label=label)
            g.parse([], meter)
            g.parse(G.random_cuts(rng, len(data), 3), meter)
            if k % 5 == 0:
                g.parse(G.byte_at_a_time(len(data)), meter)
            if k % 6 == 0 and lim is H.DEFAULT_LIMITS:
                g.conn(dh, G.random_cuts(rng, len(data), 1))
            acc.add(g)
        k = 0
        for src, label, data, opts in H.response_corpus(rng, ctx.pick(35, 200), ctx.pick(2, 8), ctx.pick(6, 20)):
            k += 1
            lim = H.LIMIT_CONFIGS[names[k % len(names)]]
            g = H.Group("response", data, lim, src=src, label=label, **opts)
            g.parse([], meter)
            g.parse(G.random_cuts(rng, len(data), 3), meter)
            if k % 4 == 0:
                g.client([])
                g.client(G.random_cuts(rng, len(data), 2))
            acc.add(g)
        for i in range(ctx.pick(800, 5000)):
            n = rng.choice([1, 3, 8, 20, 60, 200])
            s = G.raw_random(rng, n)
            mode = "request" if i % 2 == 0 else "response"
            g = H.Group(mode, s, H.LIMIT_CONFIGS[names[i % len(names)]], src="raw-random", label="raw random bytes",
                        until_eof=(i % 4 == 1))
            g.parse([], meter)
            g.parse(G.random_cuts(rng, len(s), 2), meter)
            if i % 8 == 0 and mode == "request" and g.lim is H.DEFAULT_LIMITS:
                g.conn(dh, [])
            if i % 8 == 1 and mode == "response":
                g.client([])
            acc.add(g)
        acc.flush("totality")
        # ---- 4. work: long adversarial shapes, fed in tiny reads (a re-scan per read would be quadratic)
        host = b"Host: a\r\n"
        shapes = [
            ("many tiny fields", b"GET / HTTP/1.1\r\n" + host + b"".join(b"a:\r\n" for _ in range(120)) + b"\r\n", H.DEFAULT_LIMITS, "request"),
            ("many tiny chunks", b"POST / HTTP/1.1\r\n" + host + b"Transfer-Encoding: chunked\r\n\r\n" + b"1\r\nx\r\n" * ctx.pick(600, 3000) + b"0\r\n\r\n",
             H.DEFAULT_LIMITS, "request"),
            ("long pipeline", b"GET / HTTP/1.0\r\nConnection: keep-alive\r\n\r\n" * ctx.pick(8, 8), H.DEFAULT_LIMITS, "request"),
            ("many blank lines", b"\r\n" * ctx.pick(1500, 8000) + b"GET / HTTP/1.1\r\n" + host + b"\r\n", H.DEFAULT_LIMITS, "request"),
            ("one long field", b"GET / HTTP/1.1\r\n" + host + b"X: " + b"v" * 8100 + b"\r\n\r\n", H.DEFAULT_LIMITS, "request"),
            ("one long request line", b"GET /" + b"a" * 8100 + b" HTTP/1.1\r\n" + host + b"\r\n", H.DEFAULT_LIMITS, "request"),
            ("long chunk extension", b"POST / HTTP/1.1\r\n" + host + b"Transfer-Encoding: chunked\r\n\r\n3;" + b"e" * 8000 + b"\r\nabc\r\n0\r\n\r\n",
             H.DEFAULT_LIMITS, "request"),
            ("many trailers", b"POST / HTTP/1.1\r\n" + host + b"Transfer-Encoding: chunked\r\n\r\n0\r\n" + b"".join(b"t%d: v\r\n" % i for i in range(110)) + b"\r\n",
             H.DEFAULT_LIMITS, "request"),
            ("large body", b"POST / HTTP/1.1\r\n" + host + b"Content-Length: 60000\r\n\r\n" + b"x" * 60000, H.DEFAULT_LIMITS, "request"),
            ("response many folds", b"HTTP/1.1 200 OK\r\nX: a\r\n" + b" f\r\n" * 100 + b"Content-Length: 0\r\n\r\n", H.DEFAULT_LIMITS, "response"),
            ("response tiny chunks lf", b"HTTP/1.1 200 OK\nTransfer-Encoding: chunked\n\n" + b"1\nx\n" * ctx.pick(600, 3000) + b"0\n\n", H.DEFAULT_LIMITS, "response"),
            ("unterminated garbage", b"x" * 20000, H.DEFAULT_LIMITS, "request"),
        ]
        for label, s, lim, mode in shapes:
            g = H.Group(mode, s, lim, src="work", label=label)
            g.parse([], meter)
            g.parse(G.byte_at_a_time(len(s)) if len(s) <= 9000 else list(range(1, len(s), 7)), meter)
            g.parse(list(range(1, len(s), 13)), meter)
            acc.add(g)
        acc.flush("work shapes")
    finally:
        meter.close()
    ctx.extra["clauses_seen"] = acc.stats
    ctx.extra["work_observed_max"] = acc.work_max
    ctx.extra["work_bounds"] = {"per_call": [H.WA, H.WB, H.WC], "per_run": [H.WRA, H.WRK, H.WC]}
    ctx.evaluations = ctx.traces


def selftest(ctx: Ctx) -> int:
    meter = H.WorkMeter()
    try:
        lim = H.Limits(40, 40, 8)
        data = b"POST / HTTP/1.1\r\nHost: a\r\nTransfer-Encoding: chunked\r\n\r\n3\r\nabc\r\n0\r\nT: v\r\n\r\n"
        g = H.Group("request", data, lim, src="selftest", label="good")
        g.parse([], meter)
        g.parse([20, 50], meter)
    finally:
        meter.close()

    def foreign(t: dict) -> None:             # a ValueError escaping feed_data
        e = t["events"][0]
        e["msgs"] = []
        e["exc"] = "ValueError"
        e["excHttp"] = False

    def quadratic(t: dict) -> None:           # one call doing far more work than its bytes explain
        t["events"][0]["calls"][0][4] = 500000

    def retained(t: dict) -> None:            # an incomplete line kept far beyond the limit
        t["events"][0]["calls"][0][2] = 5000

    def over_limit_accepted(t: dict) -> None:  # a field line longer than max_field_size delivered
        long = b"POST / HTTP/1.1\r\nHost: a\r\nX: " + b"v" * 60 + b"\r\nTransfer-Encoding: chunked\r\n\r\n3\r\nabc\r\n0\r\nT: v\r\n\r\n"
        t["stream"] = list(long)
        t["events"][0]["msgs"][0]["headers"].insert(1, [list(b"X"), list(b"v" * 60)])
        t["events"] = t["events"][:1]

    def hang(t: dict) -> None:
        t["events"][0]["hang"] = True

    return H.selftest_common(
        ctx, g,
        [("foreign exception", foreign), ("super-linear work", quadratic), ("retention bound", retained),
         ("over-limit field accepted", over_limit_accepted), ("hang", hang)],
        [("noLimit", {"Mutant": '"noLimit"', "MaxLine": 30, "MaxField": 28, "MaxHeaders": 3, "MaxPending": 60, "MaxLines": 5,
                      "MaxMsgs": 1, "LexIds": "{1, 16, 17, 24, 31, 40, 42, 47, 50, 51, 52, 53, 54, 55, 56, 57, 58, 59}"},
          "InvPendingBound")])


def replay(ctx: Ctx, path: str) -> int:
    payload = json.load(open(path))
    rc = H.replay_detail(ctx, payload["detail"])
    if rc:
        print(f"VIOLATION property=C10 replay={path}")
    return rc
