"""C02 - wire round trip: what one aiohttp endpoint sends, the other receives.

spec/WireDecision.tla       framing / keep-alive decision tables of both ends + RFC 9112 6.3 oracle (TLC, full product)
spec/WireDecisionTrace.tla  monitor for recorded end-to-end executions (property clauses on observables + oracle;
                            refinement clauses against the decision tables -> drift only)
engine/wirekit.py           real ClientSession <-> relay with segmentation scripts <-> real RequestHandler / web.Application
"""
from __future__ import annotations

import asyncio
import copy
import io
import itertools
import json
import os
import zlib
from typing import Any, Dict, List, Optional, Tuple

from engine import steploop
from engine.runner import Ctx
from engine.tlc import MachineryError, mktemp, run_tlc, validate_batch
from engine.wirekit import ByteWise, Cuts, Fixed, Whole, WireKit, parse_head, split_chunked, cut_plans

# ------------------------------------------------------------------ dimensions (names = the model's values)
METHODS = ["GET", "HEAD", "POST", "CONNECT"]
VERSIONS = ["1.0", "1.1"]
RCONN = ["absent", "close", "keepalive"]
STATUSES = [200, 204, 304, 404]
KINDS = ["bytes0", "bytesN", "bytesChunked", "paySized", "payUnsized", "streamCL", "streamChunked", "streamPlain", "file"]
COMPS = ["off", "nego", "forced"]
HCONN = ["none", "close", "keepalive"]

RBODY = ["none", "bytes0", "bytesN", "str", "paySized", "payUnsized", "slowSized", "slowUnsized", "form", "multipart"]
XMODES = ["default", "reject417", "reject403", "no100"]
ABORTS = ["none", "beforeHead", "midBody"]
PRES = ["fresh", "reused", "stale"]
HOOKS = ["ok", "raise"]
STREAM_KINDS = ("streamCL", "streamChunked", "streamPlain")
RCHUNKED = ["None", "True", "False"]
RCOMPRESS = ["off", "deflate", "gzip"]
RMETHODS = ["GET", "HEAD", "POST", "PUT", "DELETE"]

SIZES = [1, 100, 2047, 2048, 2049, 65535, 65536, 65537]
HORIZON = 30.0          # virtual seconds granted to timers (lingering close etc.) before "quiescence"

PATHS = ["/", "/a/b.txt", "/sp%20ace/%41z", "/uni/é中", "/semi;x=1/y", "/plus+sign/~t/"]
QUERIES = ["", "a=1", "a=1&a=2&b=", "q=%26%3D&sp=a+b", "k=é&z", "x=1&y=%2F%3F"]
REQ_HEADERS = [
    [],
    [("X-One", "1")],
    [("X-Multi", "a"), ("X-Multi", "b"), ("X-Other", "c, d")],
    [("X-Long", "v" * 3000)],
    [("X-Ws", "a  b\tc"), ("X-Utf", "café")],
    [("Content-Type", "application/x-custom; p=1"), ("Accept", "text/x-verif")],
    [("Host", "virtual.example:8080"), ("X-One", "1")],
]
COOKIES = [{}, {"c1": "v1"}, {"a": "1", "b": "two", "sid": "abc-DEF_09"}]
RESP_HEADERS = [
    [],
    [("X-R", "1")],
    [("Set-Cookie", "a=1; Path=/"), ("Set-Cookie", "b=2"), ("X-R", "x, y")],
    [("X-Long", "w" * 3000)],
    [("Content-Type", "application/x-verif"), ("X-Utf", "naïve")],
]
REASONS = [None, "Custom Reason", "Odd  reason-phrase"]


def crc(b: bytes) -> int:
    return zlib.crc32(b) & 0x7FFFFFFF


def body_bytes(n: int, salt: int = 0) -> bytes:
    """n pseudo-random but compressible bytes, never containing CR LF pairs that look like framing."""
    if n <= 0:
        return b""
    unit = bytes((salt * 7 + i * 31) % 251 for i in range(97)) + b"0\r\n\r\nGET / HTTP/1.1\r\n"
    return (unit * (n // len(unit) + 1))[:n]


def one_shot_decode(data: bytes, coding: str) -> Optional[bytes]:
    """Independent content-decoding of a complete body (None if it does not decode)."""
    c = coding.strip().lower()
    try:
        if c in ("", "identity") or not data:      # (a zero-length body is an empty representation under any coding)
            return data
        if c == "gzip":
            return zlib.decompress(data, 16 + zlib.MAX_WBITS)
        if c == "deflate":
            try:
                return zlib.decompress(data)
            except zlib.error:
                return zlib.decompress(data, -zlib.MAX_WBITS)
    except zlib.error:
        return None
    return None


def pairs(items: Any) -> List[List[str]]:
    return [[str(k), str(v)] for k, v in items]


def lower_names(items: Any) -> List[List[str]]:
    return [[str(k).lower(), str(v)] for k, v in items]


def raw_pairs(raw_headers: Any) -> List[List[str]]:
    """raw_headers (tuple of (bytes, bytes)) projected like the wire splitter projects field lines."""
    return [[bytes(k).decode("latin-1").lower(), bytes(v).decode("utf-8", "surrogateescape").strip(" \t")]
            for k, v in raw_headers]


# ------------------------------------------------------------------ the world: one server app, many exchanges
EXPECT_PREFIX = {"default": "", "reject417": "/x417", "reject403": "/x403", "no100": "/xno100"}
SLOW_GAP = 0.5          # virtual seconds between the pieces of a slow (streamed) request body
HANDLER_DELAY = 1.0     # virtual seconds a delayed handler sleeps (before the head / inside the body)


class World:
    def __init__(self, loop: steploop.StepLoop) -> None:
        from aiohttp import web
        from multidict import CIMultiDict

        self.loop = loop
        self.web = web
        self.plans: Dict[int, dict] = {}
        self.seen: Dict[int, dict] = {}
        self.next_id = 1
        self.current_id = 0
        self.dir = mktemp("c02files")
        self.files: Dict[int, str] = {}
        # header containers owned by the "application" and reused for every message built from the same header set
        self.shared_resp = [CIMultiDict(h) for h in RESP_HEADERS]
        self.shared_req = [CIMultiDict(h) for h in REQ_HEADERS]
        world = self

        @web.middleware
        async def connect_mw(request: Any, handler: Any) -> Any:
            # a CONNECT request-target is authority-form (no path): the router cannot resolve it
            if request.method == "CONNECT":
                return await world.handler(request)
            return await handler(request)

        def rejecting(status: int) -> Any:
            async def expect_handler(request: Any) -> None:
                plan = world.plan_of(request)
                if plan is None:
                    return
                seen = world.note_request(plan, request, entered=False)
                exc = web.HTTPExpectationFailed() if status == 417 else web.HTTPForbidden()
                body = (exc.text or "").encode("utf-8")
                seen["rejected"] = True
                seen["ret"] = {"status": exc.status, "reason": exc.reason, "headers": [], "refused": "",
                               "body_len": len(body), "body_crc": crc(body)}
                raise exc
            return expect_handler

        async def silent_expect(request: Any) -> None:       # a custom expect handler that sends no "100 Continue"
            return None

        async def prepare_hook(request: Any, response: Any) -> None:
            plan = world.plan_of(request)
            if plan is not None and plan["resp"].get("hook", "ok") == "raise":
                seen = world.seen.setdefault(plan["id"], {"entered": 0})
                if not seen.get("hook_fired") and not (seen.get("ret") or {}).get("refused"):
                    # the handler's own response; the error page that follows passes
                    seen["hook_fired"] = True
                    raise RuntimeError("on_response_prepare handler failed")

        app = web.Application(middlewares=[connect_mw])
        app.router.add_route("*", "/x417/{tail:.*}", self.handler, expect_handler=rejecting(417))
        app.router.add_route("*", "/x403/{tail:.*}", self.handler, expect_handler=rejecting(403))
        app.router.add_route("*", "/xno100/{tail:.*}", self.handler, expect_handler=silent_expect)
        app.router.add_route("*", "/{tail:.*}", self.handler)
        app.on_response_prepare.append(prepare_hook)
        self.kit = WireKit(loop, app, session_kw={})
        self.handler_tasks: Dict[int, Any] = {}

    def file_of(self, n: int) -> str:
        if n not in self.files:
            p = os.path.join(self.dir, f"f{n}.bin")
            with open(p, "wb") as f:
                f.write(body_bytes(n, 3))
            self.files[n] = p
        return self.files[n]

    # ---------------------------------------------------------------- server side
    def plan_of(self, request: Any) -> Optional[dict]:
        if request.path == "/probe":
            return None
        try:
            rid = int(request.headers.get("X-Id", "") or self.current_id)
        except ValueError:
            rid = 0
        return self.plans.get(rid)

    def note_request(self, plan: dict, request: Any, entered: bool = True) -> dict:
        rid = plan["id"]
        seen = self.seen.setdefault(rid, {"entered": 0})
        if entered:
            seen["entered"] += 1
            seen["exited"] = False
            self.handler_tasks[rid] = asyncio.current_task()
        seen["method"] = request.method
        seen["path"] = request.path
        seen["raw_target"] = request.raw_path
        seen["query"] = pairs(request.query.items())
        seen["headers"] = raw_pairs(request.raw_headers)
        seen["hmap"] = lower_names(request.headers.items())
        seen["cookies"] = sorted(pairs(request.cookies.items()))
        seen["version"] = f"{request.version.major}.{request.version.minor}"
        seen["keep_alive"] = bool(request.keep_alive)
        return seen

    async def handler(self, request: Any) -> Any:
        web = self.web
        plan = self.plan_of(request)
        if plan is None:       # the persistence probe / warm-up request (or a request mangled beyond recognition)
            self.seen.setdefault(-1, {"n": 0})["n"] += 1
            return web.Response(text="probe")
        seen = self.note_request(plan, request)
        body = b""
        seen["body_exc"] = ""
        seen["body_read"] = False
        early = bool(plan["resp"].get("early", False))
        if request.method != "CONNECT" and not early:    # a CONNECT request has no body: what follows is the tunnel
            try:
                body = await request.read()
                seen["body_read"] = True
            except asyncio.CancelledError:
                raise
            except Exception as exc:  # noqa: BLE001
                seen["body_exc"] = type(exc).__name__
        seen["body_len"] = len(body)
        seen["body_crc"] = crc(body)
        try:
            if plan["resp"].get("delay", "none") == "head":
                await asyncio.sleep(HANDLER_DELAY)
            resp = await self.respond(plan, request, seen)
        finally:
            seen["exited"] = True
        return resp

    async def respond(self, plan: dict, request: Any, seen: dict) -> Any:
        web = self.web
        from aiohttp import payload as aiopayload

        r = plan["resp"]
        kind, n, status = r["kind"], r["n"], r["status"]
        data = body_bytes(n, 5)
        ret: Dict[str, Any] = {"status": status, "reason": r["reason"], "headers": lower_names(r["headers"]),
                               "refused": ""}
        seen["ret"] = ret
        hcont = r.get("hcont", "list")
        shared = None
        if hcont == "shared" and [list(h) for h in r["headers"]] in [[list(x) for x in hs] for hs in RESP_HEADERS]:
            shared = self.shared_resp[[[list(x) for x in hs] for hs in RESP_HEADERS].index([list(h) for h in r["headers"]])]
            hdrs: Any = shared
            seen["shared_before"] = pairs(shared.items())
        elif hcont == "dict" and len({h[0].lower() for h in r["headers"]}) == len(r["headers"]):
            hdrs = {h[0]: h[1] for h in r["headers"]}
        else:
            hdrs = [tuple(h) for h in r["headers"]]
        kw: Dict[str, Any] = {"status": status, "headers": hdrs}
        if r["reason"] is not None:
            kw["reason"] = r["reason"]
        streaming = kind in ("streamCL", "streamChunked", "streamPlain")
        if kind == "bytes0":
            resp = web.Response(body=b"", **kw)
            data = b""
        elif kind in ("bytesN", "bytesChunked"):
            resp = web.Response(body=data, **kw)
        elif kind == "paySized":
            resp = web.Response(body=io.BytesIO(data), **kw)
        elif kind == "payUnsized":
            async def gen() -> Any:
                for i in range(0, len(data), 40000):
                    yield data[i:i + 40000]
            resp = web.Response(body=aiopayload.AsyncIterablePayload(gen()), **kw)
        elif kind == "file":
            resp = web.FileResponse(self.file_of(n), chunk_size=r.get("chunk", 256 * 1024), **kw)
            data = body_bytes(n, 3)
        else:
            resp = web.StreamResponse(**kw)
            if status in (204, 304):
                data = b""          # the handler chose a body-less status itself: it writes nothing
        ret["body_len"] = len(data)
        ret["body_crc"] = crc(data)
        ret["reason"] = resp.reason
        try:
            if kind == "streamCL":
                resp.content_length = len(data)
            elif kind in ("streamChunked", "bytesChunked"):
                resp.enable_chunked_encoding()
            if r["comp"] == "nego":
                resp.enable_compression()
            elif r["comp"] == "forced":
                resp.enable_compression(web.ContentCoding.gzip if r.get("coding", "gzip") == "gzip"
                                        else web.ContentCoding.deflate)
            if r["fclose"]:
                resp.force_close()
            if r["hconn"] != "none":
                resp.headers["Connection"] = "close" if r["hconn"] == "close" else "keep-alive"
            if kind == "bytesChunked":
                await resp.prepare(request)      # head stays buffered; write_eof() sends head + chunk + terminator at once
            if streaming:
                await resp.prepare(request)
                step = r.get("wstep") or max(1, len(data))
                if r.get("delay", "none") == "body":
                    step = max(1, len(data) // 2)
                for i in range(0, len(data), step):
                    await resp.write(data[i:i + step])
                    if r.get("delay", "none") == "body" and i == 0:
                        await asyncio.sleep(HANDLER_DELAY)
                await resp.write_eof()
        except RuntimeError as exc:
            # the API refuses the combination (chunked encoding for HTTP/1.0), or an on_response_prepare handler failed,
            # before anything is sent; the framework answers 500 on the handler's behalf
            if getattr(resp._payload_writer, "_headers_written", False):
                raise
            ret["refused"] = "PrepareHookFailed" if "on_response_prepare" in str(exc) else type(exc).__name__
            ret["status"], ret["reason"], ret["headers"] = 500, "Internal Server Error", []
            ret["body_len"], ret["body_crc"] = -1, -1
            raise
        finally:
            if shared is not None:
                seen["shared_after"] = pairs(shared.items())
        return resp

    # ---------------------------------------------------------------- client side
    def request_kwargs(self, plan: dict) -> Tuple[str, str, dict, bytes]:
        from aiohttp import FormData

        q = plan["req"]
        prefix = EXPECT_PREFIX[q.get("expectMode", "default")]
        path = q["path"] if not prefix else prefix + q["path"]
        url = "http://srv.test" + path + (("?" + q["query"]) if q["query"] else "")
        user = [list(h) for h in q["headers"]]
        extra: List[Tuple[str, str]] = []
        if q["rconn"] == "close":
            extra.append(("Connection", "close"))
        elif q["rconn"] == "keepalive":
            extra.append(("Connection", "keep-alive"))
        if not q.get("accept_encoding", True):
            extra.append(("Accept-Encoding", "identity"))
        n = q["n"]
        data = body_bytes(n, 9)
        kind = q["body"]
        if kind == "slowSized":
            extra.append(("Content-Length", str(len(data))))
        all_sets = [[list(x) for x in hs] for hs in REQ_HEADERS]
        if q.get("hcont", "list") == "shared" and not extra and user in all_sets:
            # the caller's own CIMultiDict, reused for every request with this header set (no X-Id: the handler falls
            # back to World.current_id)
            headers: Any = self.shared_req[all_sets.index(user)]
            issued = [tuple(h) for h in user]
        else:
            issued = [("X-Id", str(plan["id"]))] + [tuple(h) for h in user] + extra
            headers = list(issued)
        kw: Dict[str, Any] = {"headers": headers}
        logical = data
        if kind == "none":
            logical = b""
        elif kind == "bytes0":
            kw["data"] = b""
            logical = b""
        elif kind == "bytesN":
            kw["data"] = data
        elif kind == "str":
            s = ("téxt-" * (n // 5 + 1))[:max(1, n // 2)]
            kw["data"] = s
            logical = s.encode("utf-8")
        elif kind == "paySized":
            kw["data"] = io.BytesIO(data)
        elif kind == "payUnsized":
            async def gen() -> Any:
                for i in range(0, len(data), 40000):
                    yield data[i:i + 40000]
            kw["data"] = gen()
        elif kind in ("slowSized", "slowUnsized"):
            async def slow() -> Any:                 # three pieces, the event loop (and virtual time) runs in between
                step = max(1, (len(data) + 2) // 3)
                for i in range(0, len(data), step):
                    if i:
                        await asyncio.sleep(SLOW_GAP)
                    yield data[i:i + step]
            kw["data"] = slow()
        elif kind == "form":
            kw["data"] = {"k": "v" * max(1, n - 2), "e": "a&b=c"}
            logical = b""           # judged through the wire only (the encoding is FormData's)
        elif kind == "multipart":
            fd = FormData()
            fd.add_field("f", data, filename="f.bin", content_type="application/octet-stream")
            fd.add_field("t", "text")
            kw["data"] = fd
            logical = b""
        if q["chunked"] != "None":
            kw["chunked"] = (q["chunked"] == "True")
        if q["compress"] != "off":
            kw["compress"] = q["compress"]
        if q["expect"]:
            kw["expect100"] = True
        if q["cookies"]:
            kw["cookies"] = dict(q["cookies"])
        kw["_issued"] = issued
        return q["method"], url, kw, logical

    def new_plan(self, req: dict, resp: dict) -> dict:
        pid = self.next_id
        self.next_id += 1
        plan = {"id": pid, "req": req, "resp": resp}
        self.plans[pid] = plan
        return plan

    def run_exchange(self, plan: dict, scripts: Tuple[Any, Any]) -> dict:
        """One end-to-end exchange + persistence probe on a fresh session.  Returns the record.

        req.pre   fresh   the exchange opens its connection
                  reused  a warm-up request ran first: the exchange reuses the pooled connection
                  stale   as reused, but the server has closed the idle connection and its FIN is still in flight: the
                          client writes into a dead connection and (idempotent methods) retries on a new one
        req.abort none | beforeHead | midBody: the caller is cancelled while it waits for the response head / reads the
                  body (the handler is delayed accordingly); the probe request follows at once
        """
        from aiohttp import HttpVersion10, HttpVersion11
        from yarl import URL

        kit = self.kit
        loop = self.loop
        kit.new_session(version=HttpVersion10 if plan["req"]["version"] == "1.0" else HttpVersion11)
        rid = plan["id"]
        self.current_id = rid
        self.seen.pop(rid, None)
        self.seen.pop(-1, None)
        res: Dict[str, Any] = {"exc": "", "api_exc": ""}
        try:
            method, url, kw, logical = self.request_kwargs(plan)
        except Exception as exc:  # noqa: BLE001
            raise MachineryError(f"cannot build request for plan {plan}: {exc!r}")
        issued = kw.pop("_issued")
        req_shared = kw["headers"] if not isinstance(kw["headers"], list) else None
        req_shared_before = pairs(req_shared.items()) if req_shared is not None else []
        pre = plan["req"].get("pre", "fresh")
        abort = plan["req"].get("abort", "none")

        async def simple(tag: str, out: dict) -> None:
            try:
                async with kit.session.get("http://srv.test/probe") as r:
                    out["status"] = r.status
                    out["body"] = await r.read()
            except Exception as exc:  # noqa: BLE001
                out["exc"] = type(exc).__name__

        # ---- connection history
        kit.scripts = scripts if pre == "reused" else (Whole(), Whole())
        warm: Dict[str, Any] = {}
        if pre != "fresh":
            wt = kit.spawn("w", simple("w", warm))
            kit.settle(0)
            if not (wt.done() and warm.get("status") == 200 and kit.links and not kit.links[0].cli_closed):
                pre = "fresh"                 # no pooled connection came out of the warm-up (HTTP/1.0 ...): nothing to reuse
            elif pre == "stale":
                kit.links[0].s_tr.close()     # the server gives up the idle connection; the FIN is held back by the relay
        base_links = len(kit.links)
        off_c = len(kit.links[0].c2s.sent) if base_links else 0
        off_s = len(kit.links[0].s2c.sent) if base_links else 0
        kit.scripts = scripts

        async def go() -> None:
            try:
                async with kit.session.request(method, url, **kw) as r:
                    res["status"] = r.status
                    res["reason"] = r.reason
                    res["headers"] = raw_pairs(r.raw_headers)
                    res["hmap"] = lower_names(r.headers.items())
                    res["version"] = f"{r.version.major}.{r.version.minor}" if r.version else ""
                    res["got_head"] = True
                    try:
                        body = await r.read()
                        res["body_len"] = len(body)
                        res["body_crc"] = crc(body)
                        res["got_body"] = True
                    except asyncio.CancelledError:
                        raise
                    except Exception as exc:  # noqa: BLE001
                        res["exc"] = type(exc).__name__
                        res["exc_msg"] = str(exc)[:200]
            except asyncio.CancelledError:
                res["exc"] = "Cancelled"
                raise
            except ValueError as exc:
                if not res.get("got_head"):
                    res["api_exc"] = f"{type(exc).__name__}"
                else:
                    res["exc"] = type(exc).__name__
            except Exception as exc:  # noqa: BLE001
                if not res["exc"]:
                    res["exc"] = type(exc).__name__
                    res["exc_msg"] = str(exc)[:200]

        t = kit.spawn("x", go())
        aborted = "none"
        if abort == "none":
            kit.settle(HORIZON)
        else:
            kit.settle(0)                     # no timers: the delayed handler is still asleep
            at = "beforeHead" if not res.get("got_head") else "midBody"
            if not t.done() and at == abort:
                t.cancel()
                aborted = abort
                kit.settle(0)
            else:
                kit.settle(HORIZON)           # the exchange was over before the cancellation point: nothing to abort
        cli_done = t.done()
        link = kit.links[-1] if kit.links else None
        if link is not None and len(kit.links) > base_links:
            off_c = off_s = 0                 # the exchange (or its retry) ran on a connection of its own
        seen = self.seen.get(rid, {"entered": 0})

        after_main = [len(kit.links)]

        def main_links() -> int:            # connections opened by the exchange itself (not by warm-up or probe)
            return after_main[0] - base_links

        def observe() -> Dict[str, Any]:
            q: Dict[str, Any] = {
                "cliDone": bool(t.done()),
                "handlerEntered": int(seen.get("entered", 0)),
                "handlerDone": bool(seen.get("exited", seen.get("entered", 0) == 0)),
                "nlinks": len(kit.links), "aborted": aborted, "pre": pre,
                "retried": main_links() - (0 if pre in ("reused", "stale") else 1),
            }
            if link is not None:
                q.update({"srvClosed": bool(link.srv_closed), "cliClosed": bool(link.cli_closed),
                          "srvClosedOwn": "s" in link.own_close, "cliClosedOwn": "c" in link.own_close,
                          "lostC2S": link.c2s.lost, "lostS2C": link.s2c.lost,
                          "srvDrExc": len(link.s_tr.dr_excs), "cliDrExc": len(link.c_tr.dr_excs),
                          "segC2S": link.c2s.segments, "segS2C": link.s2c.segments})
            else:
                q.update({"srvClosed": False, "cliClosed": False, "srvClosedOwn": False, "cliClosedOwn": False,
                          "lostC2S": 0, "lostS2C": 0, "srvDrExc": 0, "cliDrExc": 0, "segC2S": 0, "segS2C": 0})
            return q
        q = observe()
        c2s = bytes(link.c2s.sent[off_c:]) if link else b""
        s2c = bytes(link.s2c.sent[off_s:]) if link else b""
        # ---- persistence probe: does the next request on the session open a new connection? is it answered properly?
        q["probe"] = "skipped"
        q["probeNewConn"] = False
        if cli_done and not res["api_exc"] and link is not None:
            pres: Dict[str, Any] = {}
            nl = len(kit.links)
            kit.scripts = (Whole(), Whole())
            pt = kit.spawn("p", simple("p", pres))
            kit.settle(HORIZON)
            if aborted != "none":
                q = dict(observe(), probe="", probeNewConn=False)      # decisions are complete only now
            q["probeNewConn"] = len(kit.links) > nl
            if pt.done() and pres.get("status") == 200 and pres.get("body") == b"probe":
                q["probe"] = "ok"
            elif pt.done() and "status" in pres:
                q["probe"] = "foreign"         # the probe was answered with somebody else's response
            else:
                q["probe"] = "exc:" + pres.get("exc", "stuck")
        if not t.done():
            t.cancel()
        ht = self.handler_tasks.pop(rid, None)
        if ht is not None and not ht.done():
            ht.cancel()
        kit.close_session()
        kit.drop_links()
        loop._scheduled.clear()
        excs = [str(c.get("message", ""))[:80] for c in loop.exc_contexts]
        loop.exc_contexts.clear()
        intact = {"req": req_shared is None or pairs(req_shared.items()) == req_shared_before,
                  "resp": seen.get("shared_before") == seen.get("shared_after")}
        return {"plan": plan, "method": method, "url": URL(url), "kw": kw, "issued": issued, "logical": logical,
                "res": res, "seen": seen, "q": q, "c2s": c2s, "s2c": s2c, "off": (off_c, off_s), "intact": intact,
                "loop_excs": excs, "scripts": (scripts[0].name, scripts[1].name)}

    def close(self) -> None:
        self.kit.close()


def _tokens(values: List[str]) -> List[str]:
    out: List[str] = []
    for v in values:
        out += [t.strip(" \t").lower() for t in v.split(",") if t.strip(" \t")]
    return out


def wire_fields(buf: bytes, head: Optional[dict], end: int) -> Dict[str, Any]:
    """Framing fields and body arithmetic of the message whose head is `head` and that the sender ended at `end`."""
    blank = {"present": False, "hdrs": [], "cl": -1, "te": "none", "conn": "none", "expect": False, "ce": "",
             "after": 0, "chunkOk": False, "chunkShort": False, "chunkRecs": [], "chunkTrailer": 0, "dataLen": 0,
             "lenDecRaw": -1, "crcDecRaw": -1, "lenDecChunk": -1, "crcDecChunk": -1}
    if head is None:
        return blank
    hdrs = head["headers"]
    cls = [v for k, v in hdrs if k == "content-length"]
    if not cls:
        cl = -1
    elif all(c == cls[0] for c in cls) and cls[0].isascii() and cls[0].isdigit() and int(cls[0]) < 2 ** 31:
        cl = int(cls[0])
    else:
        cl = -2
    tes = _tokens([v for k, v in hdrs if k == "transfer-encoding"])
    te = "none" if not any(k == "transfer-encoding" for k, _ in hdrs) else ("chunked" if tes and tes[-1] == "chunked" else "other")
    ctoks = _tokens([v for k, v in hdrs if k == "connection"])
    conn = "close" if "close" in ctoks else ("keep-alive" if "keep-alive" in ctoks else "none")
    ces = [v for k, v in hdrs if k == "content-encoding"]
    ce = ces[0].lower() if ces else ""
    expect = any(k == "expect" and v.lower() == "100-continue" for k, v in hdrs)
    b = head["body_at"]
    raw = buf[b:end]
    ch = split_chunked(buf[:end], b)
    chunk_ok = bool(ch["ok"] and ch["end"] == end)
    out = dict(blank)
    out.update({"present": True, "hdrs": [[k, v] for k, v in hdrs], "cl": cl, "te": te, "conn": conn, "expect": expect,
                "ce": ce, "after": len(raw), "chunkOk": chunk_ok, "chunkShort": bool(ch.get("short")) and not chunk_ok,
                "chunkRecs": ch["recs"] if chunk_ok else [], "chunkTrailer": ch["trailer"] if chunk_ok else 0,
                "dataLen": len(ch["data"]) if chunk_ok else 0})
    d = one_shot_decode(raw, ce)
    if d is not None:
        out["lenDecRaw"], out["crcDecRaw"] = len(d), crc(d)
    if chunk_ok:
        d = one_shot_decode(ch["data"], ce)
        if d is not None:
            out["lenDecChunk"], out["crcDecChunk"] = len(d), crc(d)
    return out


def _ver(s: str) -> int:
    return 10 if s.strip().endswith("1.0") else 11 if s.strip().endswith("1.1") else 0


REQ_BODY_CLASS = {"none": "none", "bytes0": "empty", "bytesN": "sized", "str": "sized", "paySized": "sized",
                  "payUnsized": "unsized", "form": "sized", "multipart": "sized"}


def build_trace(rec: dict) -> dict:
    plan, res, seen, q = rec["plan"], rec["res"], rec["seen"], rec["q"]
    rq, rs = plan["req"], plan["resp"]
    url = rec["url"]
    kw = rec["kw"]
    ev: List[dict] = []
    known = rq["body"] not in ("form", "multipart")
    aborted = q.get("aborted", "none")
    intact = rec.get("intact", {"req": True, "resp": True})
    issue = {"ev": "issue", "method": rec["method"].upper(), "ver": _ver(rq["version"]),
             "path": url.path, "query": pairs(url.query.items()),
             "hdrs": lower_names(rec.get("issued") or kw["headers"]),
             "cookies": sorted(pairs((rq["cookies"] or {}).items())),
             "bodyLen": len(rec["logical"]), "bodyCrc": crc(rec["logical"]), "bodyKnown": known,
             "hasTarget": rec["method"].upper() != "CONNECT", "apiExc": res.get("api_exc", "")}
    ev.append(issue)
    c2s, s2c = rec["c2s"], rec["s2c"]
    # ---- wire: request
    qh = parse_head(c2s, 0)
    qw = wire_fields(c2s, qh, len(c2s))
    line = (qh["line"].split(" ", 2) + ["", "", ""])[:3] if qh else ["", "", ""]
    qw.update({"ev": "reqwire", "method": line[0], "target": line[1], "ver": _ver(line[2]), "got100": 0,
               "attempt": int(q.get("retried", 0))})
    # ---- wire: response (skip interim 1xx heads)
    interim = 0
    pos = 0
    sh = parse_head(s2c, pos)
    status, reason, sver = 0, "", 0
    while sh is not None:
        parts = sh["line"].split(" ", 2)
        try:
            status = int(parts[1])
        except (IndexError, ValueError):
            status = 0
        reason = parts[2].strip() if len(parts) > 2 else ""
        sver = _ver(parts[0])
        if 100 <= status < 200 and status != 101:
            interim += 1
            pos = sh["body_at"]
            sh = parse_head(s2c, pos)
            if sh is None:
                status = 0
            continue
        break
    sw = wire_fields(s2c, sh, len(s2c))
    qw["got100"] = interim
    sw.update({"ev": "respwire", "status": status if sh else 0, "reason": reason if sh else "", "ver": sver if sh else 0,
               "interim": interim})
    if res.get("api_exc"):
        pass
    else:
        if sh is None and aborted == "none":
            ev.append({"ev": "early", "expect": bool(qw["expect"]), "ver": qw["ver"], "interim": interim,
                       "cliDone": q["cliDone"], "handlerDone": q["handlerDone"], "handlerEntered": q["handlerEntered"]})
        ev.append(qw)
        ev.append({"ev": "handler", "entered": int(seen.get("entered", 0)), "method": seen.get("method", ""),
                   "path": seen.get("path", ""), "query": seen.get("query", []), "hdrs": seen.get("headers", []),
                   "hmap": seen.get("hmap", []),
                   "cookies": seen.get("cookies", []), "ver": _ver(seen.get("version", "")),
                   "bodyLen": seen.get("body_len", 0) or 0, "bodyCrc": seen.get("body_crc", 0) or 0,
                   "bodyExc": seen.get("body_exc", "") or "", "bodyRead": bool(seen.get("body_read", False)),
                   "rejected": bool(seen.get("rejected", False))})
        quiesce = {"ev": "quiesce", "cliDone": q["cliDone"], "handlerDone": q["handlerDone"],
                   "handlerEntered": q["handlerEntered"], "srvClosed": q["srvClosed"], "cliClosed": q["cliClosed"],
                   "srvClosedOwn": q["srvClosedOwn"], "cliClosedOwn": q["cliClosedOwn"], "probe": q["probe"],
                   "probeNewConn": q["probeNewConn"], "lostC2S": q["lostC2S"], "lostS2C": q["lostS2C"],
                   "srvDrExc": q["srvDrExc"], "cliDrExc": q["cliDrExc"], "loopExcs": len(rec["loop_excs"]),
                   "aborted": aborted, "pre": q.get("pre", "fresh"), "retried": int(q.get("retried", 0)),
                   "reqHdrsIntact": bool(intact["req"]), "respHdrsIntact": bool(intact["resp"])}
        caller = {"ev": "caller", "gotHead": bool(res.get("got_head")), "status": res.get("status", 0),
                  "reason": res.get("reason", "") or "", "hdrs": res.get("headers", []), "hmap": res.get("hmap", []),
                  "ver": _ver(res.get("version", "")),
                  "gotBody": bool(res.get("got_body")), "bodyLen": res.get("body_len", 0), "bodyCrc": res.get("body_crc", 0),
                  "exc": res.get("exc", "")}
        if aborted != "none":
            # the caller gave up: what the server wrote afterwards is not judged, what happens to the connection is
            ev.append({"ev": "aborted", "at": aborted})
        else:
            ret = seen.get("ret") or {"status": 0, "reason": "", "headers": [], "body_len": -1, "body_crc": -1, "refused": ""}
            ev.append({"ev": "returned", "status": ret["status"], "reason": ret["reason"] or "", "hdrs": ret["headers"],
                       "bodyLen": ret["body_len"], "bodyCrc": ret["body_crc"], "bodyKnown": ret["body_len"] >= 0,
                       "refused": ret["refused"]})
            ev.append(sw)
        ev.append(quiesce)
        ev.append(caller)
    # ---- model inputs for the refinement clauses
    m = rec["method"].upper()
    rconn = {"none": "absent", "close": "close", "keep-alive": "keepalive"}[qw["conn"]] if qh else rq["rconn"]
    # carry: was the shared header container used for a chunked response before?  (recorded by the handler)
    carry = "te" if any(h[0].lower() == "transfer-encoding" for h in (seen.get("shared_before") or [])) else "none"
    hook = rs.get("hook", "ok") if rs["kind"] in ("streamCL", "streamChunked", "streamPlain") else "ok"
    rinp = {"m": m, "ver": _ver(rq["version"]), "rconn": rconn, "st": rs["status"], "kind": rs["kind"],
            "comp": rs["comp"], "fclose": bool(rs["fclose"]), "hconn": rs["hconn"], "carry": carry, "hook": hook}
    body_class = dict(REQ_BODY_CLASS, slowSized="slowSized", slowUnsized="slowUnsized")[rq["body"]]
    xmode = {"default": "default", "reject417": "reject", "reject403": "reject", "no100": "no100"}[rq.get("expectMode", "default")]
    qinp = {"m": m, "ver": _ver(rq["version"]), "body": body_class, "chunked": rq["chunked"],
            "compress": rq["compress"] != "off", "expect": bool(rq["expect"]), "early": bool(rs.get("early", False)),
            "xmode": xmode, "abort": rq.get("abort", "none"), "pre": q.get("pre", "fresh"),
            "chost": any(h[0].lower() == "host" for h in rq["headers"])}
    plain = not rs.get("early") and xmode == "default" and qinp["abort"] == "none"
    cfg = {"family": plan.get("family", ""), "rvalid": m in METHODS and plain, "rinp": rinp,
           "rn": rs["n"] if rs["kind"] != "bytes0" else 0,
           "qvalid": m in ("GET", "HEAD", "POST", "DELETE"), "qinp": qinp,
           "qn": len(rec["logical"]) if known else -5}
    return {"cfg": cfg, "src": f"{plan.get('family', '')}:{rec['scripts'][0]}/{rec['scripts'][1]}", "events": ev,
            "plan": json.dumps({"id": plan["id"], "family": plan.get("family", ""), "req": rq, "resp": rs})}


# ------------------------------------------------------------------ enumeration of the product space
RESP_DIMS = [("m", METHODS), ("ver", VERSIONS), ("rconn", RCONN), ("st", STATUSES), ("kind", KINDS),
             ("comp", COMPS), ("fclose", [False, True]), ("hconn", HCONN), ("hook", HOOKS)]
REQ_BASE_DIMS = [("m", ["GET", "HEAD", "POST", "DELETE"]), ("ver", VERSIONS), ("body", RBODY), ("chunked", RCHUNKED),
                 ("compress", RCOMPRESS), ("expect", [False, True])]
REQ_DIMS = REQ_BASE_DIMS + [("early", [False, True]), ("xmode", XMODES), ("abort", ABORTS), ("pre", PRES)]


def product(dims: List[tuple]) -> List[dict]:
    names = [d[0] for d in dims]
    return [dict(zip(names, vals)) for vals in itertools.product(*[d[1] for d in dims])]


def expressible_resp(c: dict) -> bool:
    # the aiohttp client always adds "Connection: keep-alive" to an HTTP/1.0 request that has no Connection header;
    # an on_response_prepare failure is looked at where prepare() is called by the handler (stream kinds)
    return not (c["ver"] == "1.0" and c["rconn"] == "absent") and (c["hook"] == "ok" or c["kind"] in STREAM_KINDS)


def expressible_req(c: dict) -> bool:
    if c["xmode"] != "default" and not c["expect"]:
        return False
    if c["xmode"] == "no100" and not c["early"]:
        return False            # a handler that waits for a body nobody was told to send is an application bug
    if c["abort"] != "none" and (c["early"] or c["xmode"] != "default" or c["pre"] != "fresh"):
        return False
    if c["pre"] != "fresh" and (c["early"] or c["xmode"] != "default"):
        return False
    if c["pre"] == "stale" and (c["m"] == "POST" or c["body"] in ("payUnsized", "slowSized", "slowUnsized")):
        return False            # not idempotent / body cannot be replayed: no retry, the caller legitimately sees the error
    return True


def scenario_stratum(rng: Any) -> List[dict]:
    """Every (body kind, scenario, expect) triple once, with default framing arguments (chunked=None, compress=off) and a
    random method / version: the scenario dimensions (early answer, expect handling, abort, connection history) are
    not left to the pairwise cover of the full request space, where most partners are API-refused combinations."""
    scen = [c for c in product([("early", [False, True]), ("xmode", XMODES), ("abort", ABORTS), ("pre", PRES)])]
    out: List[dict] = []
    for body in RBODY:
        for sc in scen:
            for expect in (False, True):
                for _try in range(8):
                    c = dict(sc, m=rng.choice(["GET", "HEAD", "POST", "POST", "DELETE"]), ver=rng.choice(["1.0", "1.1", "1.1", "1.1"]),
                             body=body, chunked="None", compress="off", expect=expect)
                    if expressible_req(c):
                        if (c["early"], c["xmode"], c["abort"], c["pre"]) != (False, "default", "none", "fresh"):
                            out.append(c)
                        break
    return out


def pairwise_subset(combos: List[dict], dims: List[tuple], rng: Any, target: int) -> List[dict]:
    """Seeded stratified subset: greedy pairwise cover of every (dimension value, dimension value) pair that occurs in
    `combos`, then filled up to `target` with a shuffled remainder."""
    names = [d[0] for d in dims]
    pool = list(combos)
    rng.shuffle(pool)
    need = set()
    for c in pool:
        for a in range(len(names)):
            for b in range(a + 1, len(names)):
                need.add((a, c[names[a]], b, c[names[b]]))
    chosen: List[dict] = []
    rest: List[dict] = []
    for c in pool:
        ps = {(a, c[names[a]], b, c[names[b]]) for a in range(len(names)) for b in range(a + 1, len(names))}
        if ps & need:
            chosen.append(c)
            need -= ps
        else:
            rest.append(c)
    if need:
        raise MachineryError(f"pairwise cover incomplete: {len(need)} pairs left")
    chosen += rest[:max(0, target - len(chosen))]
    return chosen


def resp_plan(world: World, c: dict, rng: Any) -> dict:
    n = rng.choice(SIZES) if c["kind"] != "bytes0" else 0
    if c["kind"] == "file" and rng.random() < 0.3:
        n = rng.choice([1, 100, 2048, 65537])
    req = {"method": c["m"], "version": c["ver"], "rconn": c["rconn"], "path": rng.choice(PATHS), "query": rng.choice(QUERIES),
           "headers": [list(h) for h in rng.choice(REQ_HEADERS)], "cookies": rng.choice(COOKIES),
           "body": "none", "n": 0, "chunked": "None", "compress": "off", "expect": False}
    if c["m"] == "POST" and rng.random() < 0.5:
        req["body"], req["n"] = "bytesN", rng.choice(SIZES)
    resp = {"status": c["st"], "kind": c["kind"], "n": n, "comp": c["comp"], "fclose": c["fclose"], "hconn": c["hconn"],
            "headers": [list(h) for h in rng.choice(RESP_HEADERS)], "reason": rng.choice(REASONS),
            "coding": rng.choice(["gzip", "deflate"]), "wstep": rng.choice([0, 0, 1000, 30000]),
            "chunk": rng.choice([256 * 1024, 4096]), "hook": c.get("hook", "ok"),
            "hcont": rng.choice(["list", "dict", "shared", "shared"]), "early": False, "delay": "none"}
    req.update({"expectMode": "default", "abort": "none", "pre": rng.choice(["fresh", "fresh", "reused"]),
                "hcont": rng.choice(["list", "shared"])})
    plan = world.new_plan(req, resp)
    plan["family"] = "resp"
    return plan


def req_plan(world: World, c: dict, rng: Any) -> dict:
    n = 0 if c["body"] in ("none", "bytes0") else rng.choice(SIZES)
    if c["body"] in ("form", "multipart"):
        n = rng.choice([1, 100, 2048, 65536])
    req = {"method": c["m"], "version": c["ver"], "rconn": "absent", "path": rng.choice(PATHS), "query": rng.choice(QUERIES),
           "headers": [list(h) for h in rng.choice(REQ_HEADERS)], "cookies": rng.choice(COOKIES),
           "body": c["body"], "n": n, "chunked": c["chunked"], "compress": c["compress"], "expect": c["expect"],
           "expectMode": c.get("xmode", "default"), "abort": c.get("abort", "none"), "pre": c.get("pre", "fresh"),
           "hcont": rng.choice(["list", "shared"])}
    if c["body"] in ("slowSized", "slowUnsized"):
        # (cut short by an early answer: sizes below and above the size of the request head)
        req["n"] = rng.choice([30, 100]) if c.get("early") and rng.random() < 0.8 else rng.choice([30, 100, 2049])
    if c["body"] in ("form", "multipart"):
        req["headers"] = [h for h in req["headers"] if h[0].lower() != "content-type"]
    if req["pre"] == "stale" and rng.random() < 0.6:
        req["headers"] = [list(h) for h in REQ_HEADERS[-1]]       # the caller's own Host header
    kinds = ["bytesN", "bytesN", "streamPlain", "paySized"] if c["ver"] == "1.1" else ["bytesN", "paySized", "streamCL"]
    if c["m"] == "HEAD":
        kinds = ["bytesN", "paySized"]
    delay = {"none": "none", "beforeHead": "head", "midBody": "body"}[req["abort"]]
    if delay == "body":
        kinds = ["streamPlain", "streamCL"] if c["ver"] == "1.1" else ["streamCL"]
    resp = {"status": rng.choice([200, 200, 404]) if c.get("early") else 200, "kind": rng.choice(kinds),
            "n": rng.choice([1, 100, 2049]) if delay != "body" else rng.choice([100, 2049]),
            "comp": "off", "fclose": False, "hconn": "none", "headers": [list(h) for h in rng.choice(RESP_HEADERS)],
            "reason": None, "coding": "gzip", "wstep": 0, "chunk": 256 * 1024, "hook": "ok",
            "hcont": rng.choice(["list", "dict", "shared"]), "early": bool(c.get("early", False)), "delay": delay}
    plan = world.new_plan(req, resp)
    plan["family"] = "req"
    return plan


def variants(rec: dict, which: Any, thorough: bool) -> List[Tuple[Any, Any]]:
    """Segmentation scripts derived from the wire bytes recorded by the baseline (whole/whole) execution."""
    c2s, s2c = rec["c2s"], rec["s2c"]
    qh = parse_head(c2s, 0)
    sh = parse_head(s2c, 0)
    while sh is not None and sh["line"].split(" ")[1:2] == ["100"]:
        sh = parse_head(s2c, sh["body_at"])

    def is_chunked(h: Optional[dict]) -> bool:
        return bool(h) and any(k == "transfer-encoding" and "chunked" in v.lower() for k, v in h["headers"])
    qp = cut_plans(c2s, qh, is_chunked(qh))
    sp = cut_plans(s2c, sh, is_chunked(sh))
    qb = qh["body_at"] if qh else 0
    sb = sh["body_at"] if sh else 0
    qo, so = rec.get("off", (0, 0))          # the exchange may start in the middle of a reused connection's streams
    out: List[Tuple[str, Any, Any]] = [("byte", ByteWise(qo + qb + 300), ByteWise(so + sb + 300))]
    for name in sorted(set(qp) | set(sp)):
        out.append((name, Cuts([qo + x for x in qp.get(name, [])], name) if name in qp else Whole(),
                    Cuts([so + x for x in sp.get(name, [])], name) if name in sp else Whole()))
    out.append(("fixed7/1460", Fixed(7) if len(c2s) < 5000 else Fixed(1460), Fixed(1460)))
    out.append(("fixed1460/3", Fixed(1460), Fixed(3) if len(s2c) < 5000 else Fixed(1000)))
    # quick: one segmentation per combination, thorough: three; `which` rotates through all of them
    cnt = 3 if thorough else 1
    return [(out[(which * cnt + j) % len(out)][1], out[(which * cnt + j) % len(out)][2]) for j in range(min(cnt, len(out)))]


# ------------------------------------------------------------------ judging
CLAUSE_NOTES = {
    "Http10KeepAliveEofBodyServerOpen": "HTTP/1.0 request with Connection: keep-alive answered by a response without length: body is "
                                        "EOF-delimited but the server keeps the connection open; the client waits forever",
    "ChunkFramingWithContentLength": "client chunked=False: Content-Length declared, body sent with chunk framing",
    "ChunkFramingUndeclared": "client chunked=True/False on a body-less GET/HEAD: `0 CRLF CRLF` follows a head without Transfer-Encoding",
    "BodySentForHead": "StreamResponse.write() data is sent after the head of a HEAD response",
    "CompressedBytesAfterEmptyHead": "compressor flush bytes follow the head of a HEAD/204/304 response",
    "ConnCloseSentServerOpen": "handler-set `Connection: close` is sent but the server keeps the connection open",
    "ConnKeepAliveSentServerClosed": "handler-set `Connection: keep-alive` is sent but the server closes the connection",
    "HeadRequestBodyDropped": "HEAD request with a body: the server parser ignores Content-Length/Transfer-Encoding, the body bytes are "
                              "parsed as the next request",
    "HeadNoLengthClientCloses": "HEAD response without Content-Length/Transfer-Encoding on HTTP/1.1: client closes, server keeps open",
    "ConnectClosedByServer": "CONNECT answered with a non-tunnel response: server closes after lingering, client pools the connection",
    "ConnectPooledByClient": "2xx answer to CONNECT is pooled by the client",
    "Http10TransferEncoding": "Transfer-Encoding: chunked sent on an HTTP/1.0 request",
    "Expect100NeverAnswered": "HTTP/1.0 request with Expect: 100-continue: the server (correctly) ignores it, the client waits forever",
    "ErrorPageAfterFailedPrepare": "an on_response_prepare handler raised inside StreamResponse.prepare() after the writer had been "
                                   "switched to chunked mode / compression: the 500 page declares Content-Length and is sent "
                                   "chunk-framed / compressed",
    "WithheldBodyConnectionReused": "Expect: 100-continue answered by a final response (expect handler 417/403, or a handler that "
                                    "does not read the body): the request body is never sent, yet the client returns the "
                                    "connection to the pool while the server still waits for that body",
    "HostDroppedOnRetry": "a request retried on a new connection (the pooled one was dead) is sent without the caller's Host header",
    "ErrorPageThroughStaleWriter": "StreamResponse.prepare() raised after writer.enable_compression(): the 500 page that aiohttp sends "
                                   "instead is compressed although its Content-Length counts the plain text (no Content-Encoding)",
}


def signature(t: dict, clause: str) -> str:
    pl = json.loads(t["plan"])
    q, r = pl["req"], pl["resp"]
    if pl.get("family") == "req" or clause in ("ChunkFramingWithContentLength", "ChunkFramingUndeclared", "HeadRequestBodyDropped",
                                                 "Http10TransferEncoding", "Expect100NeverAnswered",
                                                 "WithheldBodyConnectionReused", "HostDroppedOnRetry"):
        core = (f"request {q['method']} HTTP/{q['version']} body={q['body']} chunked={q['chunked']} compress={q['compress']} "
                f"expect={q['expect']} expectMode={q.get('expectMode', 'default')} early={r.get('early', False)} "
                f"abort={q.get('abort', 'none')} pre={q.get('pre', 'fresh')}")
    else:
        core = (f"response to {q['method']} HTTP/{q['version']} Connection:{q['rconn']} status={r['status']} kind={r['kind']} "
                f"comp={r['comp']} force_close={r['fclose']} handler-Connection={r['hconn']} hook={r.get('hook', 'ok')}")
    return f"{clause}: {core}"


class Judge:
    def __init__(self, ctx: Ctx, trace_cfg: str) -> None:
        self.ctx = ctx
        self.cfg = trace_cfg
        self.batch: List[dict] = []
        self.clauses: Dict[str, int] = {}
        self.first: Dict[str, dict] = {}
        self.sigs: Dict[str, int] = {}
        self.first_drift: Dict[str, List[str]] = {}
        self.n = 0

    def add(self, t: dict) -> None:
        self.batch.append(t)
        if len(self.batch) >= 3200:
            self.flush()

    def flush(self) -> None:
        if not self.batch:
            return
        from concurrent.futures import ThreadPoolExecutor

        traces, self.batch = self.batch, []
        chunks = [traces[i:i + 800] for i in range(0, len(traces), 800)]     # one TLC (one worker) per chunk, in parallel
        with ThreadPoolExecutor(max_workers=4) as ex:
            outs = list(ex.map(lambda ch: validate_batch("WireDecisionTrace", self.cfg, ch, timeout=1500), chunks))
        verdicts: List[Any] = []
        for ch, (vs, res) in zip(chunks, outs):
            self.ctx.add_trace_batch(len(ch), res)
            verdicts += vs
        for t, v in zip(traces, verdicts):
            self.n += 1
            key = (t["src"].split(":")[0], json.dumps(t["cfg"]["rinp"], sort_keys=True), json.dumps(t["cfg"]["qinp"], sort_keys=True))
            self.ctx.distinct.add(hash(key))
            info = v.info if isinstance(v.info, (list, tuple)) and len(v.info) == 2 else [[], []]
            for d in info[0]:
                self.ctx.drift(str(d))
                if len(self.first_drift.setdefault(str(d), [])) < 20:
                    self.first_drift[str(d)].append(t["plan"])
            failing = [(str(c), v.total) for c in info[1]]          # recorded deviations (evaluation continued)
            if v.clause:
                failing.append((v.clause, v.pos))
            elif not v.ok:
                failing.append(("TraceNotConsumed", v.pos))
            for clause, pos in failing:
                self.clauses[clause] = self.clauses.get(clause, 0) + 1
                sig = signature(t, clause)
                if clause not in self.first:
                    self.first[clause] = t
                if sig not in self.sigs:        # one violation per distinct (clause, model input)
                    keep = self.clauses[clause] <= 3 or clause not in CLAUSE_NOTES      # full trace for the first few
                    self.ctx.violation(clause, sig, {"trace": t if keep else {"plan": t["plan"], "src": t["src"]},
                                                     "failed_at": pos, "note": CLAUSE_NOTES.get(clause, "")}, "trace")
                self.sigs[sig] = self.sigs.get(sig, 0) + 1
        t0 = traces[0]
        self.ctx.sample({"src": t0["src"], "plan": json.loads(t0["plan"]),
                         "events": [{k: (x if not isinstance(x, list) or len(x) < 6 else x[:6]) for k, x in e.items()}
                                    for e in t0["events"]]})


# ------------------------------------------------------------------ model runs
DEVIATIONS = {   # constant -> (clause reported when TLC exhibits it, invariants it may break, one-line description)
    "Http10UnsizedCloses": ("Http10KeepAliveEofBodyServerOpen", "HTTP/1.0 + Connection: keep-alive + response without length: "
                            "EOF-delimited body but srvKeepsOpen (StreamResponse._prepare_headers sets only a local keep_alive=False)"),
    "ChunkedFlagTruthy": ("ChunkFramingWithContentLength", "client chunked=False: Content-Length declared, writer in chunked mode "
                          "(ClientRequest._create_writer: `if self.chunked is not None`)"),
    "ChunkedSetsTE": ("ChunkFramingUndeclared", "client chunked=True on a body-less GET/HEAD: writer chunked, no Transfer-Encoding header"),
    "HeadStreamSuppressed": ("BodySentForHead", "StreamResponse + HEAD: data passed to write() is sent"),
    "EmptyBodyNoFlush": ("CompressedBytesAfterEmptyHead", "HEAD/204/304 + writer compression: write_eof() emits the compressor flush"),
    "HandlerConnHonored": ("ConnCloseSentServerOpen", "handler-set Connection header contradicts resp.keep_alive"),
    "HeadReqBodyFramed": ("HeadRequestBodyDropped", "HttpRequestParser treats the body of a HEAD request as empty"),
    "HeadNoLenReusable": ("HeadNoLengthClientCloses", "HEAD response without CL/TE on HTTP/1.1: client closes, server keeps open"),
    "ConnectAware": ("ConnectClosedByServer", "CONNECT: non-2xx answer closed by the server / 2xx pooled by the client"),
    "Http10NoChunkedReq": ("Http10TransferEncoding", "Transfer-Encoding: chunked on an HTTP/1.0 request"),
    "Expect10Proceeds": ("Expect100NeverAnswered", "HTTP/1.0 + Expect: 100-continue: client waits for a 100 the server must not send"),
    "RefusedPrepareCleansWriter": ("ErrorPageThroughStaleWriter", "prepare() raises (chunked on HTTP/1.0) after enable_compression: "
                                   "the framework's 500 page is written through the compressing writer"),
    "FailedPrepareCleansWriter": ("ErrorPageAfterFailedPrepare", "an on_response_prepare handler raises inside prepare(): the 500 "
                                  "page is written through the writer state (chunking, compression) of the failed response"),
    "WithheldBodyCloses": ("WithheldBodyConnectionReused", "Expect: 100-continue answered by a final response: the body is never "
                           "sent, yet the client pools the connection"),
    "HostKeptOnRetry": ("HostDroppedOnRetry", "retry of an idempotent request on a new connection loses the caller's Host header"),
}
# mechanisms: TRUE in the ideal design and in the code as found; only the self-test / exhibits switch them off
MECHANISMS = {
    "CutBodyCloses": "client closes the connection when the body writer is cancelled in mid-body by an early response",
    "CancelCloses": "client closes the connection of a caller cancelled before the end of the response",
    "FreshHeaderContainer": "StreamResponse copies the header container it is given",
}
CONSTANTS = list(DEVIATIONS) + list(MECHANISMS)
REQ_SIDE = {"ChunkedFlagTruthy", "ChunkedSetsTE", "HeadReqBodyFramed", "Http10NoChunkedReq", "Expect10Proceeds",
            "WithheldBodyCloses", "HostKeptOnRetry", "CutBodyCloses", "CancelCloses"}      # = ReqSideDevs of the spec
INVS = ["FramingTruthful", "ReceiverFollowsRfc", "CloseAgree", "NoHang", "UnfinishedNeverReused", "RetrySameRequest"]
SPEC_DIR = os.path.join(os.path.dirname(os.path.dirname(os.path.abspath(__file__))), "spec")


def as_coded() -> Dict[str, bool]:
    vals: Dict[str, bool] = {}
    # VERIF_C02_ASCODED: alternative constants file (used when trying the check against a patched scratch tree)
    for ln in open(os.environ.get("VERIF_C02_ASCODED") or os.path.join(SPEC_DIR, "WireDecision_ascoded.cfg")):
        parts = ln.split("=")
        if len(parts) == 2 and parts[0].strip() in DEVIATIONS:
            vals[parts[0].strip()] = parts[1].strip() == "TRUE"
    missing = set(DEVIATIONS) - set(vals)
    if missing:
        raise MachineryError(f"WireDecision_ascoded.cfg lacks constants {sorted(missing)}")
    return vals


def write_cfg(name: str, consts: Dict[str, bool], invs: List[str], spec: str = "Spec", post: Any = False) -> str:
    d = mktemp("c02cfg")
    p = os.path.join(d, name + ".cfg")
    with open(p, "w") as f:
        f.write(f"SPECIFICATION {spec}\nCONSTANTS\n")
        for k in CONSTANTS:
            f.write(f"  {k} = {'TRUE' if consts.get(k, True) else 'FALSE'}\n")
        for i in invs:
            f.write(f"INVARIANT {i}\n")
        if post:
            f.write(f"POSTCONDITION {post if isinstance(post, str) else 'PrintVerdicts'}\n")
        f.write("CHECK_DEADLOCK FALSE\n")
    return p


def describe_cex(res: Any) -> str:
    if not res.trace:
        return ""
    last = res.trace[-1][1]
    inp = last.get("inp", {})
    return " ".join(f"{k}={inp[k]}" for k in sorted(inp)) if isinstance(inp, dict) else str(inp)


def model_runs(ctx: Ctx) -> None:
    from concurrent.futures import ThreadPoolExecutor
    from engine import tlc as _t

    coded = as_coded()
    ideal = {k: True for k in CONSTANTS}
    # quick: enumerate the deviations that are still open; thorough: every switch, the mechanisms included
    names = [k for k in DEVIATIONS if not coded[k]] if ctx.quick else list(CONSTANTS)
    resp_side = [k for k in names if k not in REQ_SIDE]          # the expensive ones: one process each
    parts = [[k] for k in resp_side] + ([[k for k in names if k in REQ_SIDE]] if any(k in REQ_SIDE for k in names) else [])

    def exhibit(part: List[str]) -> Any:
        cfg = write_cfg("exhibit", ideal, [], spec="XSpec", post="PrintSome")
        with open(cfg, "a") as f:
            f.write("CONSTANT ExhibitSet = {%s}\n" % ", ".join('"%s"' % k for k in part))
        return run_tlc("WireDecisionExhibit", cfg, workers=1, timeout=900, deadlock=False, heap="2g")

    jobs = [
        lambda: run_tlc("WireDecision", write_cfg("ideal", ideal, INVS), workers=16, timeout=900, deadlock=False),
        lambda: run_tlc("WireDecision", write_cfg("ascoded", coded, [i + "ButKnown" for i in INVS]), workers=16,
                        timeout=900, deadlock=False),
    ] + [(lambda p=p: exhibit(p)) for p in parts]
    with ThreadPoolExecutor(max_workers=len(jobs)) as ex:
        results = list(ex.map(lambda j: j(), jobs))
    res, res2, xs = results[0], results[1], results[2:]
    # ideal design: all invariants over the full product
    ctx.expect_model_ok("WireDecision[ideal: all deviation constants TRUE]", res)
    ctx.log(f"model ideal: {res.distinct} states, {res.wall_s:.1f}s, violated={res.violated}")
    # the code as found: the invariants hold outside the regions of the deviations that are still open
    ctx.expect_model_ok("WireDecision[as-coded, named deviations carved out]", res2)
    ctx.log(f"model as-coded (ButKnown): {res2.distinct} states, {res2.wall_s:.1f}s, violated={res2.violated}")
    # every deviation switched off alone (everything else ideal): which invariants break, where
    exhibits: Dict[str, Any] = {}
    for r in xs:
        _t.require_clean(r, "WireDecisionExhibit")
        for v in r.printed:
            if v and v[0] == "E":
                exhibits[v[1]] = v
    ctx.log(f"exhibit enumeration: {max(r.wall_s for r in xs):.1f}s")
    if set(exhibits) != set(names):
        raise MachineryError(f"Exhibit reported {sorted(exhibits)}, expected {sorted(names)}")
    summary = {}
    for k in names:
        v = exhibits[k]
        broken, count, wit = sorted(v[2]), v[3], v[4]
        summary[k] = {"breaks": broken, "inputs": count}
        if not broken:
            ctx.notes.append(f"deviation constant {k}=FALSE breaks no invariant (vacuous constant)")
            continue
        if k in coded and not coded[k]:         # still present in the code as found: TLC's witness is the model-level finding
            w = " ".join(f"{a}={wit[a]}" for a in sorted(wit)) if isinstance(wit, dict) else str(wit)
            ctx.violation(DEVIATIONS[k][0], f"model: {k}=FALSE violates {'/'.join(broken)} on {count} inputs, e.g. {w}",
                          {"constant": k, "breaks": broken, "inputs": count, "witness": wit, "what": DEVIATIONS[k][1]}, "model")
    ctx.extra["deviation_exhibits"] = summary
    ctx.log(f"deviation exhibits: { {k: v['breaks'] for k, v in summary.items()} }")


# ------------------------------------------------------------------ check
def execute(ctx: Ctx, world: World, judge: Judge, plan: dict, k: int) -> None:
    base = world.run_exchange(plan, (Whole(), Whole()))
    judge.add(build_trace(base))
    ctx.action_cover["whole"] = ctx.action_cover.get("whole", 0) + 1
    if base["res"].get("api_exc"):
        return
    for (a, b) in variants(base, k, not ctx.quick):
        rec = world.run_exchange(plan, (a, b))
        judge.add(build_trace(rec))
        nm = a.name if a.name != "whole" else b.name
        nm = "byte" if nm.startswith("byte") else nm
        ctx.action_cover[nm] = ctx.action_cover.get(nm, 0) + 1


def run(ctx: Ctx) -> None:
    ctx.rule = ("executions = combinations of the model's input dimensions (response family: method x version x request "
                "Connection x status x response kind x compression x force_close x handler Connection header x "
                "on_response_prepare ok/raises, header container list/dict/shared sampled; request family: "
                "method x version x body kind (incl. slow streamed) x chunked x compress x Expect x handler reads/answers early "
                "x expect handling (100 / 417 / 403 / silent) x caller cancelled (before head / mid body) x connection "
                "history (fresh / reused / stale+retry)) executed end to end (real ClientSession -> "
                "segmenting relay -> real RequestHandler/web.Application), once unsegmented and in content-dependent "
                "segmentations of both directions; distinct = different (family, model input) combinations")
    ctx.assumptions = [
        "in-memory transports honouring the asyncio.Transport contract replace sockets (no TLS, proxies, kernel buffering)",
        "one exchange (optionally after a warm-up request on the same connection) followed by one probe request; quiescence = ready queue empty after firing timers "
        "due within 30 virtual seconds (lingering close fires, keep-alive and client total timeouts do not)",
        "the handler reads the whole request body (except CONNECT) and writes no body for its own 204/304 status",
        "content-coding equality relies on zlib in the harness (one-shot decode); digests are CRC-32",
        "header comparison on raw field lines; the combined mapping view is checked against RFC 9110 5.3 combination",
        "secondary dimensions (URL shape, header sets, cookies, sizes around 2 KiB / 64 KiB, reason, write step) are sampled",
    ]
    model_runs(ctx)
    model_level, ctx.violations = list(ctx.violations), []
    loop = steploop.new_loop()
    world = World(loop)
    coded = as_coded()
    judge = Judge(ctx, write_cfg("WireDecisionTrace", coded, [], spec="TSpec", post=True))
    rng = ctx.rng
    resp_all = [c for c in product(RESP_DIMS) if expressible_resp(c)]
    req_all = [c for c in product(REQ_DIMS) if expressible_req(c)]
    req_base = [dict(c, early=False, xmode="default", abort="none", pre="fresh") for c in product(REQ_BASE_DIMS)]
    if ctx.quick:
        # half of the budget goes to the sub-space where the known deviations do not fire, so that they mask little
        plain = [c for c in resp_all if c["comp"] == "off" and c["hconn"] == "none" and c["m"] != "CONNECT"]
        plain_dims = [(n, [v for v in vals if any(c[n] == v for c in plain)]) for n, vals in RESP_DIMS]
        resp_sel = pairwise_subset(resp_all, RESP_DIMS, rng, 700)
        have = {json.dumps(c, sort_keys=True) for c in resp_sel}
        resp_sel += [c for c in pairwise_subset(plain, plain_dims, rng, 450) if json.dumps(c, sort_keys=True) not in have]
        req_sel = pairwise_subset(req_all, REQ_DIMS, rng, 450) + scenario_stratum(rng)
    else:
        # every combination of the framing dimensions; the scenario dimensions (early answer, expect handling, abort,
        # connection history) pairwise + sampled
        resp_sel = resp_all
        req_sel = req_base + pairwise_subset(req_all, REQ_DIMS, rng, 5000) + scenario_stratum(rng) + scenario_stratum(rng)
        rng.shuffle(resp_sel)
    ctx.extra["combos"] = {"response_total": len(resp_all), "response_run": len(resp_sel),
                           "request_total": len(req_all), "request_run": len(req_sel)}
    k = 0
    for c in resp_sel:
        execute(ctx, world, judge, resp_plan(world, c, rng), k)
        k += 1
        if k % 500 == 0:
            ctx.log(f"{k} combinations executed, {judge.n + len(judge.batch)} executions")
    for c in req_sel:
        execute(ctx, world, judge, req_plan(world, c, rng), k)
        k += 1
    judge.flush()
    # order: one recorded execution per failing clause first (the runner stores a replay file for the first few
    # distinct violations only), then the other signatures, then TLC's model-level witnesses
    firsts, rest, seen_cl = [], [], set()
    for v in ctx.violations:
        (rest if v.clause in seen_cl else firsts).append(v)
        seen_cl.add(v.clause)
    ctx.violations = firsts + model_level + rest
    ctx.log(f"{k} combinations, {judge.n} executions judged; failing clauses: {judge.clauses}")
    ctx.extra["clause_counts"] = dict(judge.clauses)
    ctx.extra["segmentation_counts"] = dict(ctx.action_cover)
    ctx.evaluations = ctx.traces
    ctx.exhaustive = False
    world.close()
    loop.uninstall()


# ------------------------------------------------------------------ self-test and replay
def _mini_world() -> Tuple[Any, World]:
    loop = steploop.new_loop()
    return loop, World(loop)


def _simple(world: World, **over: Any) -> dict:
    req = {"method": "POST", "version": "1.1", "rconn": "absent", "path": "/a/b.txt", "query": "a=1&a=2&b=",
           "headers": [["X-One", "1"]], "cookies": {"c1": "v1"}, "body": "bytesN", "n": 2049, "chunked": "None",
           "compress": "off", "expect": False}
    resp = {"status": 200, "kind": "streamPlain", "n": 2049, "comp": "nego", "fclose": False, "hconn": "none",
            "headers": [["X-R", "1"]], "reason": None, "coding": "gzip", "wstep": 1000, "chunk": 4096}
    req.update(over.get("req", {}))
    resp.update(over.get("resp", {}))
    plan = world.new_plan(req, resp)
    plan["family"] = "resp"
    return plan


def selftest(ctx: Ctx) -> int:
    ok = True
    coded = as_coded()
    # (ii) spec-level mutants: switching a mechanism off must be caught by TLC
    from concurrent.futures import ThreadPoolExecutor

    def mutant(k: str) -> Any:
        c = {d: True for d in CONSTANTS}
        c[k] = False
        return k, run_tlc("WireDecision", write_cfg("mut_" + k, c, INVS), workers=4, timeout=900, deadlock=False)
    with ThreadPoolExecutor(max_workers=5) as ex:
        for k, r in ex.map(mutant, ["Http10UnsizedCloses", "ChunkedFlagTruthy"] + list(MECHANISMS)):
            print(f"mutant model ({k}=FALSE): violated={r.violated}")
            ok &= r.violated in INVS
    # the as-coded model with the full invariants must be rejected as long as a deviation is open
    if not all(coded.values()):
        r = run_tlc("WireDecision", write_cfg("full", coded, INVS), workers=8, timeout=600, deadlock=False)
        print("as-coded model, full invariants: violated=", r.violated)
        ok &= r.violated in INVS
    # (i) corrupted events of a good recorded execution must be rejected by the monitor
    loop, world = _mini_world()
    rec = world.run_exchange(_simple(world), (Whole(), ByteWise(400)))
    good = build_trace(rec)
    muts = []

    def mutate(fn: Any, expect: str) -> None:
        t = copy.deepcopy(good)
        fn({e["ev"]: e for e in t["events"]}, t)
        muts.append((t, expect))
    mutate(lambda e, t: e["caller"].__setitem__("bodyCrc", e["caller"]["bodyCrc"] ^ 1), "ReceiverFollowsRfc")
    mutate(lambda e, t: e["handler"].__setitem__("path", "/a/c.txt"), "PathSame")
    mutate(lambda e, t: e["handler"].__setitem__("query", e["handler"]["query"][:-1]), "QuerySame")
    mutate(lambda e, t: e["respwire"]["chunkRecs"][0].__setitem__(1, e["respwire"]["chunkRecs"][0][1] + 1), "FramingTruthful")
    mutate(lambda e, t: e["respwire"].__setitem__("te", "none"), "NoHang")
    mutate(lambda e, t: e["quiesce"].__setitem__("srvClosedOwn", True), "CloseAgree")
    mutate(lambda e, t: e["quiesce"].__setitem__("cliDone", False), "ClientLeftWaiting")
    mutate(lambda e, t: e["caller"].__setitem__("status", 201), "StatusSame")
    mutate(lambda e, t: e["handler"]["hdrs"].pop(1), "HeadersSame")
    mutate(lambda e, t: e["reqwire"].__setitem__("after", e["reqwire"]["after"] + 1), "ReqFramingTruthful")
    mutate(lambda e, t: e["reqwire"].__setitem__("after", e["reqwire"]["after"] - 1), "UnfinishedBodyDelivered")
    mutate(lambda e, t: e["quiesce"].__setitem__("respHdrsIntact", False), "HandlerHeadersMutated")
    mutate(lambda e, t: e["quiesce"].__setitem__("probe", "foreign"), "NextRequestAnsweredWithForeignResponse")
    mutate(lambda e, t: t["events"].pop(2), "")          # dropped event: the monitor must not accept the rest silently
    # an abandoned exchange (caller cancelled before the response head) and an early answer to a slow body
    ab = build_trace(world.run_exchange(_simple(world, req={"abort": "beforeHead"}, resp={"delay": "head"}), (Whole(), Whole())))
    cut = build_trace(world.run_exchange(_simple(world, req={"body": "slowSized", "n": 100}, resp={"early": True}),
                                         (Whole(), Whole())))

    def mutate2(base: dict, fn: Any, expect: str) -> None:
        t = copy.deepcopy(base)
        fn({e["ev"]: e for e in t["events"]}, t)
        muts.append((t, expect))
    mutate2(ab, lambda e, t: e["quiesce"].__setitem__("cliClosedOwn", False), "CancelledExchangeConnectionReused")
    mutate2(cut, lambda e, t: e["quiesce"].__setitem__("cliClosedOwn", False), "UnfinishedBodyConnectionReused")
    mutate2(cut, lambda e, t: e["quiesce"].__setitem__("srvClosedOwn", False), "UnfinishedBodyServerKeepsConnection")
    vs, _ = validate_batch("WireDecisionTrace", write_cfg("WireDecisionTrace", coded, [], spec="TSpec", post=True),
                           [good, ab, cut] + [m[0] for m in muts])
    print("aborted / cut-body traces:", vs[1].ok, vs[1].clause, vs[2].ok, vs[2].clause)
    ok &= vs[1].ok and vs[2].ok
    vs = [vs[0]] + vs[3:]
    print("good trace:", vs[0].ok, vs[0].clause, vs[0].info)
    ok &= vs[0].ok
    for (t, expect), v in zip(muts, vs[1:]):
        hit = (not v.ok) and (expect == "" or v.clause == expect)
        print(f"  corrupted -> ok={v.ok} clause={v.clause!r} (expected {expect or 'any rejection'}) {'OK' if hit else 'MISSED'}")
        ok &= hit
    world.close()
    print("selftest", "passed" if ok else "FAILED")
    return 0 if ok else 2


def replay(ctx: Ctx, path: str) -> int:
    payload = json.load(open(path))
    det = payload.get("detail") or {}
    t = det.get("trace")
    if not isinstance(t, dict) or "plan" not in t:
        print("replay: model-level finding (constant %s = FALSE, everything else ideal): breaks %s on %s inputs"
              % (det.get("constant"), det.get("breaks"), det.get("inputs")))
        print("   witness input:", det.get("witness"))
        print("   ", det.get("what"))
        print(f"VIOLATION property=C02 replay={path}")
        return 1
    coded = as_coded()
    cfg = write_cfg("WireDecisionTrace", coded, [], spec="TSpec", post=True)
    # 1. re-validate the recorded events; 2. re-execute the plan against the current tree and validate again
    traces = [t] if "events" in t else []
    names = ["recorded"] if "events" in t else []
    try:
        pl = json.loads(t["plan"])
        loop, world = _mini_world()
        plan = world.new_plan(pl["req"], pl["resp"])
        plan["family"] = pl.get("family", "")
        traces.append(build_trace(world.run_exchange(plan, (Whole(), Whole()))))
        names.append("re-executed (unsegmented)")
        world.close()
    except MachineryError:
        raise
    except Exception as exc:  # noqa: BLE001
        print("replay: could not re-execute the plan:", repr(exc))
    vs, _ = validate_batch("WireDecisionTrace", cfg, traces)
    rc = 0
    for name, v, tr in zip(names, vs, traces):
        info = v.info if isinstance(v.info, (list, tuple)) and len(v.info) == 2 else [[], []]
        print(f"replay {name}: ok={v.ok} clause={v.clause!r} recorded-deviations={list(info[1])} pos={v.pos}/{v.total}")
        if name == "recorded":
            for e in tr["events"][:v.pos + 1]:
                print("   ", {k: (x if not isinstance(x, list) or len(x) < 5 else x[:5] + ['...']) for k, x in e.items()})
        if not v.ok or info[1]:
            rc = 1
    if rc:
        print(f"VIOLATION property=C02 replay={path}")
    return rc
