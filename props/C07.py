"""C07 - connection pool: limits hold, nothing leaks, no waiter is forgotten.

spec/ClientPool.tla      implementation-shaped model (TLC: all interleavings, small constants)
spec/ClientPoolTrace.tla observational property monitor for executions of the real BaseConnector
Binding: TLC behaviours are replayed step by step into a real BaseConnector under the
stepping loop (one ready handle per model Step, projection compared after every action);
random schedules are recorded as well; every recorded execution is judged by TLC.
"""
from __future__ import annotations

import asyncio
import json
import os
from typing import Any, Dict, List, Optional

from engine import steploop
from engine.memnet import MemTransport
from engine.runner import Ctx
from engine.tlc import MachineryError, mktemp, run_tlc, simulate_behaviours, validate_batch


class Req:
    """Minimal stand-in for ClientRequest as far as BaseConnector.connect() needs it."""

    def __init__(self, name: str, key: str) -> None:
        from aiohttp.client_reqrep import ConnectionKey

        self.name = name
        self.key = key
        self.connection_key = ConnectionKey(key, 80, False, True, None, None, None)
        self.proxy = None
        self.proxy_headers = None


class PoolExec:
    def __init__(self, loop: steploop.StepLoop, L: int, Lh: int, names: List[str], keyof: Dict[str, str],
                 connect_timeout: Optional[Dict[str, float]] = None, traced: Optional[set] = None) -> None:
        import aiohttp
        from aiohttp import ClientTimeout
        from aiohttp.connector import BaseConnector

        self.loop = loop
        self.L, self.Lh = L, Lh
        self.names = list(names)
        self.keyof = dict(keyof)
        self.timeouts = connect_timeout or {}
        self.traced = traced or set()
        self._trace_cfg = None
        self.trace_phase: Dict[str, str] = {}
        ex = self

        class HarnessConnector(BaseConnector):
            async def _create_connection(self, req: Any, traces: Any, timeout: Any) -> Any:  # type: ignore[override]
                from aiohttp.client_proto import ResponseHandler

                fut = ex.loop.create_future()
                ex.creating[req.name] = fut
                try:
                    res = await fut
                finally:
                    ex.creating.pop(req.name, None)
                if res != "ok":
                    raise OSError("connection failed (harness)")
                proto = ResponseHandler(ex.loop)
                tr = MemTransport(ex.loop, proto, name=req.name)
                proto.connection_made(tr)
                ex.transports[req.name] = tr
                ex.proto_owner[id(proto)] = req.name
                return proto

        # keep-alive ages are measured on the virtual clock (the connector uses time.monotonic)
        import aiohttp.connector as _conn_mod
        _conn_mod.monotonic = loop.time  # type: ignore[attr-defined]
        self.KA = 3600.0
        self.connector = HarnessConnector(limit=L, limit_per_host=Lh, keepalive_timeout=self.KA,
                                          enable_cleanup_closed=False)
        self.stale: set = set()          # connections that were idle in the pool when the keep-alive time ran out
        self.pooled: set = set()         # connections released into the pool and not handed out again (harness view)
        self.ClientTimeout = ClientTimeout
        self.tasks: Dict[str, asyncio.Task] = {}
        self.started: Dict[str, bool] = {}
        self.creating: Dict[str, asyncio.Future] = {}
        self.transports: Dict[str, MemTransport] = {}
        self.proto_owner: Dict[int, str] = {}
        self.released: Dict[str, bool] = {}
        self.closed = False
        self.close_error: Optional[str] = None
        self.events: List[dict] = []
        self.init_obs = self.obs()

    # ---- observation (outside view)
    def status(self, n: str) -> str:
        t = self.tasks.get(n)
        if t is None:
            return "new"
        if not t.done():
            if n in self.creating or self.trace_phase.get(n) == "reserved":
                return "creating"
            if self.trace_phase.get(n) == "reused":
                return "reusing"      # took an idle connection, still inside the reuseconn trace callback
            return "waiting" if self.started.get(n) else "spawned"
        if t.cancelled():
            return "cancelled"
        if t.exception() is not None:
            return "failed"
        return "done" if self.released.get(n) else "holding"

    def obs(self) -> dict:
        return {
            "st": {n: self.status(n) for n in self.names},
            "key": dict(self.keyof),
            "idle": self.loop.is_idle(),
            "closed": self.closed,
            "open": sorted(n for n, tr in self.transports.items() if not tr.closing),
            "held": {n: self.held_conn(n) for n in self.names},
            "stale": sorted(self.stale),
        }

    def held_conn(self, n: str) -> str:
        """Creator of the connection caller n holds ('' if none)."""
        t = self.tasks.get(n)
        if t is None or not t.done() or t.cancelled() or t.exception() is not None or self.released.get(n):
            return ""
        return self.proto_owner.get(id(getattr(t.result(), "protocol", None)), "")

    def priv(self) -> dict:
        c = self.connector
        try:
            acq = len(c._acquired)  # type: ignore[attr-defined]
            waiters = {str(k.host): sum(1 for f in v if not f.done()) for k, v in c._waiters.items()}  # type: ignore[attr-defined]
            idle = {str(k.host): [self.proto_owner.get(id(p), "?") for p, _ in v] for k, v in c._conns.items()}  # type: ignore[attr-defined]
            return {"acquired": acq, "waiters": waiters, "idle": idle}
        except Exception:  # noqa: BLE001
            return {}

    def rec(self, ev: str, **kw: Any) -> None:
        e = {"ev": ev}
        e.update(kw)
        e["obs"] = self.obs()
        self.events.append(e)
        now_held = set(e["obs"]["held"].values())
        self.stale -= now_held
        self.pooled -= now_held

    # ---- environment actions
    def spawn(self, n: str) -> None:
        to = self.timeouts.get(n)
        timeout = self.ClientTimeout(total=None, connect=to) if to else self.ClientTimeout(total=None)
        req = Req(n, self.keyof[n])
        traces: list = []
        if n in self.traced:
            traces = [self._make_trace(n)]
        coro = self.connector.connect(req, traces, timeout)  # type: ignore[arg-type]
        self.tasks[n] = self.loop.create_task(coro)
        self.started[n] = False
        self.rec("spawn", t=n)

    def _make_trace(self, n: str) -> Any:
        """A TraceConfig whose connection_* callbacks really suspend (one loop turn each).
        The callbacks also tell the harness when the caller has reserved a slot
        (connection_create_start / reuseconn), which the harness otherwise infers from
        _create_connection being entered."""
        from types import SimpleNamespace
        from aiohttp import TraceConfig
        from aiohttp.tracing import Trace

        if self._trace_cfg is None:
            tc = TraceConfig()
            ex = self

            def mk(phase: Optional[str]) -> Any:
                async def cb(session: Any, ctx: Any, params: Any) -> None:
                    if phase is not None:
                        ex.trace_phase[ctx.name] = phase
                    await asyncio.sleep(0)
                return cb

            tc.on_connection_queued_start.append(mk(None))
            tc.on_connection_queued_end.append(mk(None))
            tc.on_connection_create_start.append(mk("reserved"))
            tc.on_connection_create_end.append(mk("reserved"))
            tc.on_connection_reuseconn.append(mk("reused"))
            tc.freeze()
            self._trace_cfg = tc
        return Trace(SimpleNamespace(), self._trace_cfg, SimpleNamespace(name=n))

    def create_ok(self, n: str) -> None:
        self.creating[n].set_result("ok")
        self.rec("createok", t=n)

    def create_fail(self, n: str) -> None:
        self.creating[n].set_result("fail")
        self.rec("createfail", t=n)

    def cancel(self, n: str) -> None:
        self.tasks[n].cancel()
        self.rec("cancel", t=n)

    def release(self, n: str, close: bool) -> None:
        conn = self.tasks[n].result()
        c = self.held_conn(n)
        if close:
            conn.close()
        else:
            conn.release()
            if c and not self.closed:
                self.pooled.add(c)
        self.released[n] = True
        self.rec("release", t=n, close=close)

    def peer_close_idle(self, c: str) -> None:
        tr = self.transports[c]
        tr.closing = True
        tr._call_connection_lost(None)
        self.rec("peerclose", t=c)

    def time_passes(self) -> None:
        """The clock runs past keepalive_timeout; no timer callback has run yet."""
        # (refinement clause only, so the connector's own pool may be consulted: a traced caller that
        #  already took a connection but still sits in its reuseconn callback holds it invisibly)
        try:
            in_pool = {self.proto_owner.get(id(p)) for v in self.connector._conns.values() for p, _ in v}  # type: ignore[attr-defined]
        except Exception:  # noqa: BLE001
            in_pool = set(self.pooled)
        self.stale |= {c for c in self.pooled if c in in_pool and not self.transports[c].closing}
        self.loop._vtime += self.KA + 1
        self.rec("timepass")

    def cleanup(self) -> bool:
        """Fire the timers that are due (the connector's _cleanup handle; connect timeouts)."""
        before = len(self.loop._ready)
        self.loop._move_due_timers()
        due = [self.loop._ready.pop() for _ in range(len(self.loop._ready) - before)][::-1]
        for h in due:           # timer callbacks run now; the callers' pending steps keep their order
            if not h._cancelled:
                h._run()
        self.run_others()
        self.rec("cleanup")
        return bool(due)

    def close(self) -> None:
        coro = self.connector.close()
        try:
            y = coro.send(None)
        except StopIteration:
            y = None
        except Exception as e:  # noqa: BLE001
            # close() itself blew up part-way: whatever it had not reached yet (waiters, connections) is
            # judged by the monitor from the following observations; the failure is reported as well
            y = None
            self.close_error = f"{type(e).__name__}: {e}"
        if y is not None:
            if getattr(y, "_asyncio_future_blocking", False):
                y._asyncio_future_blocking = False

            def cb(_f: Any) -> None:
                try:
                    coro.send(None)
                except StopIteration:
                    pass
                except BaseException:  # noqa: BLE001
                    pass

            y.add_done_callback(cb)
        self.closed = True
        self.rec("close")

    # ---- loop stepping
    def head_name(self) -> Optional[str]:
        t = self.loop.peek_task()
        for n, tk in self.tasks.items():
            if tk is t:
                return n
        return None

    def run_others(self) -> None:
        """Run ready handles that belong to no caller task (transport callbacks etc.)."""
        while not self.loop.is_idle() and self.head_name() is None:
            self.loop.step_one()

    def step(self, n: str) -> bool:
        self.run_others()
        if self.head_name() != n:
            return False
        self.started[n] = True
        self.loop.step_one()
        self.run_others()
        self.rec("step", t=n)
        return True

    def step_any(self) -> Optional[str]:
        self.run_others()
        n = self.head_name()
        if n is None:
            return None
        self.started[n] = True
        self.loop.step_one()
        self.run_others()
        self.rec("step", t=n)
        return n

    def settle(self) -> None:
        while self.step_any() is not None:
            pass

    def finish(self, probes: bool = True) -> None:
        """Bring the execution to quiescence, release everything, then probe for leaked slots."""
        self.settle()
        for n in self.names:
            st = self.status(n)
            if st == "creating" and n in self.creating and not self.creating[n].done():
                self.create_ok(n)
        self.settle()
        for n in self.names:
            if self.status(n) == "holding":
                self.release(n, False)
                self.settle()
        for n in self.names:
            if self.status(n) in ("waiting", "spawned"):
                # everything was released, so a caller still waiting is a lost wake-up;
                # the monitor sees it in the observation recorded by settle()
                pass
        if probes and not self.closed and self.L > 0:
            # NoLeak probe: with nothing in use, L fresh callers must all get a slot at once
            pending = [n for n in self.names if self.status(n) in ("waiting", "spawned", "creating")]
            if pending:
                return
            keys = sorted(set(self.keyof.values()))
            for i in range(self.L):
                n = f"p{i}"
                self.names.append(n)
                self.keyof[n] = keys[i % len(keys)] if self.Lh == 0 else keys[i % len(keys)]
                for e in self.events:
                    e["obs"]["st"].setdefault(n, "new")
                    e["obs"]["key"].setdefault(n, self.keyof[n])
                    e["obs"]["held"].setdefault(n, "")
                self.init_obs["held"].setdefault(n, "")
                self.init_obs["st"].setdefault(n, "new")
                self.init_obs["key"].setdefault(n, self.keyof[n])
            for i in range(self.L):
                self.spawn(f"p{i}")
            self.settle()
            for i in range(self.L):
                n = f"p{i}"
                if self.status(n) == "creating" and n in self.creating and not self.creating[n].done():
                    self.create_ok(n)
            self.settle()
            for i in range(self.L):
                n = f"p{i}"
                if self.status(n) == "holding":
                    self.release(n, True)
            self.settle()
        if not self.closed and all(self.status(n) in ("new", "done", "failed", "cancelled") for n in self.names):
            # every execution ends with connector.close(): whatever transport is still open afterwards
            # was created by the connector and forgotten by it (CloseLeavesConnectionOpen)
            self.close()
            self.settle()

    def teardown(self) -> None:
        for t in self.tasks.values():
            if not t.done():
                t.cancel()
        self.loop.run_until_idle()
        for t in self.tasks.values():
            if t.done() and not t.cancelled():
                t.exception()
        if not self.closed:
            self.close()
        self.loop.run_until_idle()
        self.loop._scheduled.clear()
        self.loop.exc_contexts.clear()

    def trace(self, src: str) -> dict:
        return {"cfg": {"L": self.L, "Lh": self.Lh, "init": self.init_obs}, "src": src, "events": self.events}


# ---------------------------------------------------------------- spec -> code
import re

_act = re.compile(r"(\w+)(?:\((.*)\))?$")


def parse_action(label: str) -> tuple:
    label = label.replace("\\", "")      # labels taken from the dot dump carry escaped quotes
    m = _act.match(label)
    if not m:
        return (label, [])
    args = []
    if m.group(2):
        for a in m.group(2).split(","):
            a = a.strip().strip('"')
            args.append(True if a == "TRUE" else False if a == "FALSE" else a)
    return (m.group(1), args)


_PC2ST = {"qstart": "waiting", "qend": "waiting", "cstart": "creating", "cend": "creating", "reuse": "reusing"}


def model_projection(st: dict) -> dict:
    return {"st": {str(k): _PC2ST.get(str(v), str(v)) for k, v in st["pc"].items()}, "closed": bool(st["closed"]),
            # (the model marks a connection alive at CreateOk; the code creates the transport when the
            #  creating task runs next, so connections whose creator has not stepped yet are left out)
            "open": sorted(str(k) for k, v in st["alive"].items() if v and str(st["pc"][k]) != "creating")}


def replay_behaviour(ctx: Ctx, loop: steploop.StepLoop, beh: List[Any], consts: dict) -> dict:
    names = consts["tasks"]
    x = PoolExec(loop, consts["L"], consts["Lh"], names, consts["keyof"], None, set(consts.get("traced") or []))
    drift = None
    for label, st in beh[1:]:
        act, args = parse_action(label)
        try:
            if act == "Step":
                if not x.step(args[0]):
                    drift = f"ready-order:{act}"
                    break
            elif act == "Spawn":
                x.spawn(args[0])
            elif act == "CreateOk":
                x.create_ok(args[0])
            elif act == "CreateFail":
                x.create_fail(args[0])
            elif act == "Cancel":
                x.cancel(args[0])
            elif act == "Release":
                x.release(args[0], bool(args[1]))
            elif act == "PeerCloseIdle":
                x.peer_close_idle(args[0])
            elif act == "Close":
                x.close()
            elif act == "TimePasses":
                x.time_passes()
            elif act == "Cleanup":
                if not x.cleanup():
                    drift = "not-enabled:Cleanup:no-timer-due"
                    break
            else:
                raise MachineryError(f"unknown model action {label}")
        except MachineryError:
            raise
        except Exception as exc:  # noqa: BLE001
            drift = f"not-enabled:{act}:{type(exc).__name__}"
            break
        mp = model_projection(st)
        got = x.obs()
        if any(got["st"].get(n) != mp["st"].get(n) for n in names) or got["closed"] != mp["closed"]:
            drift = f"state:{act}"
            break
        if sorted(got["open"]) != mp["open"]:
            # which transports are open is part of the model (alive); a difference is a refinement
            # mismatch here and, if it is a leak, a property violation at the final close()
            drift = f"open-set:{act}"
            break
        ctx.action_cover[act] = ctx.action_cover.get(act, 0) + 1
        # refinement on private books (drift only)
        pv = x.priv()
        if pv and not x.closed:
            if pv.get("acquired") != len(st["acquired"]):
                ctx.drift("acquired-size")
    if drift:
        ctx.drift(drift)
    x.finish(probes=not drift)
    tr = x.trace("tlc-sim")
    if x.close_error:
        ctx.violation("CloseRaised", f"CloseRaised {x.close_error.split(':')[0]}",
                      {"error": x.close_error, "trace": tr}, "tlc-sim")
    x.teardown()
    return tr


# ---------------------------------------------------------------- random schedules
def random_exec(ctx: Ctx, loop: steploop.StepLoop, rng: Any) -> dict:
    nt = rng.randint(2, 6)
    nk = rng.randint(1, 3)
    L = rng.choice([1, 1, 2, 2, 3])
    Lh = rng.choice([0, 0, 1, 1, 2])
    names = [f"t{i+1}" for i in range(nt)]
    keyof = {n: f"k{rng.randint(1, nk)}" for n in names}
    use_timeout = rng.random() < 0.4
    touts = {n: float(rng.choice([1, 2, 3])) for n in names if use_timeout and rng.random() < 0.5}
    traced = {n for n in names if rng.random() < 0.5} if rng.random() < 0.3 else set()
    x = PoolExec(loop, L, Lh, names, keyof, touts, traced)
    allow_close = rng.random() < 0.2
    expiry = rng.random() < 0.35
    for _ in range(rng.randint(6, 40)):
        acts = []
        sts = {n: x.status(n) for n in names}
        for n, s in sts.items():
            if s == "new":
                acts.append(("spawn", n))
            if s == "creating" and n in x.creating and not x.creating[n].done():
                acts += [("ok", n), ("ok", n), ("fail", n)]
            if s in ("spawned", "waiting", "creating") and rng.random() < 0.25:
                acts.append(("cancel", n))
            if s == "holding":
                acts += [("rel", n), ("rel", n), ("relc", n)]
        if not x.loop.is_idle():
            acts += [("step", None)] * 4
        idle_conns = [n for n, tr in x.transports.items() if not tr.closing and x.released.get(n)]
        if idle_conns and rng.random() < 0.15:
            acts.append(("peer", rng.choice(idle_conns)))
        if touts and x.loop.next_timer() is not None and x.loop.is_idle():
            acts.append(("tick", None))
        if allow_close and not x.closed and rng.random() < 0.1:
            acts.append(("close", None))
        if expiry and not x.closed and x.pooled and rng.random() < 0.3:
            acts.append(("timepass", None))
        if expiry and x.loop.next_timer() is not None and x.loop.next_timer() <= x.loop.time() and rng.random() < 0.5:
            acts.append(("cleanup", None))
        if not acts:
            break
        a, n = rng.choice(acts)
        if a == "spawn":
            x.spawn(n)
        elif a == "ok":
            x.create_ok(n)
        elif a == "fail":
            x.create_fail(n)
        elif a == "cancel":
            x.cancel(n)
        elif a == "rel":
            x.release(n, False)
        elif a == "relc":
            x.release(n, True)
        elif a == "peer":
            # only connections that are idle in the pool (released and not re-acquired)
            holders = [m for m in names if x.status(m) == "holding" and
                       x.proto_owner.get(id(getattr(x.tasks[m].result(), "protocol", None))) == n]
            if not holders:
                x.peer_close_idle(n)
        elif a == "step":
            x.step_any()
        elif a == "tick":
            x.loop.advance()
            x.rec("tick")
        elif a == "close":
            x.close()
            x.settle()
        elif a == "timepass":
            x.time_passes()
        elif a == "cleanup":
            x.cleanup()
    x.finish()
    tr = x.trace("random")
    if x.close_error:
        ctx.violation("CloseRaised", f"CloseRaised {x.close_error.split(':')[0]}",
                      {"error": x.close_error, "trace": tr}, "random")
    x.teardown()
    return tr


# ---------------------------------------------------------------- check
CFG = """SPECIFICATION Spec
CONSTANTS
  Tasks = {tasks}
  Keys = {keys}
  KeyOf <- {keyof}
  L = {L}
  Lh = {Lh}
  Handoff = {handoff}
  ReuseChecksLimit = {reuse}
  MaxCancel = {mc}
  MaxFail = {mf}
  AllowClose = {close}
  AllowPeerClose = {peer}
  Traced = {traced}
  TraceLeakFix = TRUE
  ReuseLeakFix = {rlf}
  RequeueHandoff = {rqh}
  MaxExpire = {mx}
{liminv}INVARIANT Accounting
INVARIANT NoLostWake
INVARIANT NoLeak
INVARIANT IdleDistinct
INVARIANT NoUntracked
INVARIANT StaleStaysPooled
INVARIANT TimerSane
PROPERTY CloseFailsAll
CHECK_DEADLOCK FALSE
"""

VARIANTS = {
    "KeyOf1": (["t1", "t2", "t3"], ["k1"], {"t1": "k1", "t2": "k1", "t3": "k1"}),
    "KeyOf2": (["t1", "t2", "t3"], ["k1", "k2"], {"t1": "k1", "t2": "k1", "t3": "k2"}),
    "KeyOf4": (["t1", "t2", "t3", "t4"], ["k1", "k2"], {"t1": "k1", "t2": "k1", "t3": "k2", "t4": "k2"}),
    "KeyOf5": (["t1", "t2", "t3", "t4", "t5"], ["k1", "k2"],
               {"t1": "k1", "t2": "k1", "t3": "k2", "t4": "k2", "t5": "k2"}),
}


def tla_set(xs: List[str]) -> str:
    return "{" + ", ".join(f'"{x}"' for x in xs) + "}"


def write_cfg(variant: str, L: int, Lh: int, handoff: bool, mc: int, mf: int, close: bool, peer: bool,
              ideal: bool = False, limits: bool = True, traced: Optional[List[str]] = None,
              rlf: bool = True, rqh: bool = True, mx: int = 0) -> tuple:
    tasks, keys, keyof = VARIANTS[variant]
    d = mktemp("c07cfg")
    p = os.path.join(d, f"ClientPool_{variant}_{L}_{Lh}_{mx}.cfg")
    with open(p, "w") as f:
        f.write(CFG.format(tasks=tla_set(tasks), keys=tla_set(keys), keyof=variant, L=L, Lh=Lh,
                           handoff=str(handoff).upper(), reuse=str(ideal).upper(),
                           traced=tla_set(traced or []), rlf=str(rlf).upper(), rqh=str(rqh).upper(),
                           liminv="INVARIANT HarnessLimit\nINVARIANT LimitInv\n" if limits else "", mc=mc, mf=mf, close=str(close).upper(),
                           peer=str(peer).upper(), mx=mx))
    return p, {"tasks": tasks, "keys": keys, "keyof": keyof, "L": L, "Lh": Lh, "traced": list(traced or [])}


def judge(ctx: Ctx, traces: List[dict], label: str) -> None:
    if not traces:
        return
    verdicts, res = validate_batch("ClientPoolTrace", "ClientPoolTrace.cfg", traces)
    ctx.add_trace_batch(len(traces), res)
    for t, v in zip(traces, verdicts):
        key = json.dumps([[e["ev"], e.get("t")] for e in t["events"]])
        if len(t["events"]) >= 4:
            ctx.distinct.add(hash(key))
        if not v.ok:
            ev = t["events"][v.pos] if v.pos < len(t["events"]) else {}
            prev = t["events"][v.pos - 1] if v.pos > 0 else {}
            sig = v.clause
            if v.clause == "LostWake":
                # name the history: what happened to the callers just before
                hist = [f"{e['ev']}({e.get('t', '')})" for e in t["events"][max(0, v.pos - 4):v.pos + 1]]
                cancelled = [n for n, s in ev.get("obs", {}).get("st", {}).items() if s in ("cancelled", "failed")]
                sig += " after " + ",".join(hist)
                if cancelled:
                    sig += " with-ended-callers"
            if v.clause == "StaleReuse":
                ctx.drift("StaleReuse")       # refinement clause: keep-alive expiry is not part of C07
                continue
            ctx.violation(v.clause, sig, {"trace": t, "failed_at": v.pos, "label": label}, "trace")
    t0 = traces[0]
    ctx.sample({"src": t0["src"], "L": t0["cfg"]["L"], "Lh": t0["cfg"]["Lh"],
                "events": [[e["ev"], e.get("t"), e["obs"]["st"]] for e in t0["events"][:10]]})


def run(ctx: Ctx) -> None:
    ctx.rule = ("executions = TLC-simulated behaviours of ClientPool replayed into the real BaseConnector "
                "(one ready handle per model Step) + seeded random schedules with cancels, failures, "
                "connect timeouts, peer closes and connector close; distinct = different (event, caller) "
                "sequences of >= 4 events")
    ctx.assumptions = [
        "callers are tasks running connector.connect(); the harness decides when a connection attempt succeeds or fails",
        "connect() issued on an already closed connector is outside the property",
        "TraceConfig callbacks that suspend are exercised by the random driver only (the TLA+ model has no trace awaits)",
    ]
    loop = steploop.new_loop()
    # ---- 1. bounded model
    models = ctx.pick(
        [("KeyOf1", 1, 0, 1, 1, True, True), ("KeyOf2", 2, 1, 1, 1, False, False)],
        [("KeyOf1", 1, 0, 2, 1, True, True), ("KeyOf2", 2, 1, 2, 1, True, True), ("KeyOf2", 1, 0, 2, 1, True, False),
         ("KeyOf4", 2, 1, 1, 1, False, False), ("KeyOf2", 2, 0, 1, 1, True, True)])
    for (variant, L, Lh, mc, mf, close, peer) in models:
        # (a) the ideal design (idle reuse guarded by the limit): every invariant must hold
        cfg, _ = write_cfg(variant, L, Lh, True, mc, mf, close, peer, ideal=True, limits=True, mx=1)
        res = run_tlc("ClientPoolMC", cfg, workers=16, timeout=ctx.pick(400, 3000), deadlock=False)
        ok = ctx.expect_model_ok(f"ClientPool[ideal]({variant},L={L},Lh={Lh},cancel<={mc},fail<={mf},close={close},expire<=1)", res)
        ctx.log(f"model[ideal] {variant} L={L} Lh={Lh}: {res.distinct} distinct states ok={ok} {res.wall_s:.0f}s")
        # (b) the code as it is (Dev_C07_reuse_ignores_limit enabled): everything but the limit invariants
        cfg, _ = write_cfg(variant, L, Lh, True, mc, mf, close, peer, ideal=False, limits=False, mx=1)
        res = run_tlc("ClientPoolMC", cfg, workers=16, timeout=ctx.pick(400, 3000), deadlock=False)
        ok = ctx.expect_model_ok(f"ClientPool[as-coded]({variant},L={L},Lh={Lh},cancel<={mc},fail<={mf},close={close},expire<=1)", res)
        ctx.log(f"model[as-coded] {variant} L={L} Lh={Lh}: {res.distinct} distinct states ok={ok} {res.wall_s:.0f}s")
    # (b') callers with suspending TraceConfig callbacks (extra await points inside connect())
    for (variant, L, Lh, tr) in ctx.pick([("KeyOf1", 1, 0, ["t1", "t2"])],
                                         [("KeyOf1", 1, 0, ["t1", "t2", "t3"]), ("KeyOf2", 1, 0, ["t1", "t3"]),
                                          ("KeyOf2", 2, 1, ["t1", "t2"])]):
        cfg, _ = write_cfg(variant, L, Lh, True, 1, 1, ctx.pick(False, True), False, ideal=False, limits=False, traced=tr)
        res = run_tlc("ClientPoolMC", cfg, workers=16, timeout=ctx.pick(400, 3000), deadlock=False)
        ok = ctx.expect_model_ok(f"ClientPool[as-coded,traced={tr}]({variant},L={L},Lh={Lh})", res)
        ctx.log(f"model[traced {tr}] {variant} L={L} Lh={Lh}: {res.distinct} distinct states ok={ok} {res.wall_s:.0f}s")
    # (b'') five callers, two endpoints, limit_per_host: a wake-up that the woken waiter cannot use must be passed on
    cfg, _ = write_cfg("KeyOf5", 3, 1, True, ctx.pick(0, 1), 1, False, False, ideal=False, limits=False)
    res = run_tlc("ClientPoolMC", cfg, workers=16, timeout=ctx.pick(600, 3000), deadlock=False)
    ok = ctx.expect_model_ok("ClientPool[as-coded](KeyOf5,L=3,Lh=1)", res)
    ctx.log(f"model[as-coded] KeyOf5 L=3 Lh=1: {res.distinct} distinct states ok={ok} {res.wall_s:.0f}s")
    # (c) the as-coded model with the limit invariants: TLC exhibits the known deviation
    cfg, _ = write_cfg("KeyOf2", 1, 0, True, 0, 0, False, False, ideal=False, limits=True)
    res = run_tlc("ClientPoolMC", cfg, workers=16, timeout=300, deadlock=False)
    from engine import tlc as _t
    _t.require_clean(res, "ClientPool[as-coded, limits]")
    ctx.add_model("ClientPool[as-coded,limit invariants](KeyOf2,L=1)", res, exhaustive=False)
    if res.violated in ("HarnessLimit", "LimitInv"):
        steps = [a for a, _ in res.trace]
        ctx.violation("LimitOnReuse", "model: idle reuse ignores limit: " + " ".join(steps),
                      {"trace": [(a, st) for a, st in res.trace]}, "model")
    elif res.violated:
        ctx.violation(f"model:{res.violated}", f"as-coded model: {res.violated}", {"trace": res.trace}, "model")
    # ---- 2. spec -> code
    traces: List[dict] = []
    sims = ctx.pick([("KeyOf1", 1, 0, 2, 1, False, True, 300), ("KeyOf2", 2, 1, 2, 1, False, True, 250),
                     ("KeyOf2", 1, 0, 1, 1, True, False, 150)],
                    [("KeyOf1", 1, 0, 2, 1, False, True, 2500), ("KeyOf2", 2, 1, 2, 1, False, True, 2500),
                     ("KeyOf4", 2, 1, 2, 1, False, True, 2500), ("KeyOf2", 1, 1, 2, 1, True, True, 1500),
                     ("KeyOf2", 1, 0, 2, 1, True, False, 1500)])
    for (variant, L, Lh, mc, mf, close, peer, num) in sims:
        tr = ["t1", "t3"] if (L, Lh) == (1, 0) and variant == "KeyOf2" else (["t2"] if variant == "KeyOf1" else [])
        cfg, consts = write_cfg(variant, L, Lh, True, mc, mf, close, peer, traced=tr)
        behs, _ = simulate_behaviours("ClientPoolMC", cfg, num=num, depth=ctx.pick(22, 30), seed=ctx.seed, timeout=400)
        for b in behs:
            traces.append(replay_behaviour(ctx, loop, b, consts))
        ctx.log(f"replayed {len(behs)} behaviours of {variant} L={L} Lh={Lh}; actions covered: {dict(ctx.action_cover)}")
    # keep-alive expiry: every transition of a small instance (transition cover) + simulated behaviours
    from engine.tlc import cover_behaviours
    cfg, consts = write_cfg("KeyOf1", 1, 0, True, 0, 0, False, True, mx=2)
    behs, cres = cover_behaviours("ClientPoolMC", cfg, timeout=900)
    ctx.extra["transition_cover"] = {"model": "ClientPool(KeyOf1,L=1,expire<=2,peer close)", "paths": len(behs),
                                     "edges_traversed": sum(len(b) - 1 for b in behs), "states": cres.distinct}
    for b in behs:
        traces.append(replay_behaviour(ctx, loop, b, consts))
    for (variant, L, Lh, mc, num) in ctx.pick([("KeyOf2", 2, 0, 0, 200), ("KeyOf2", 1, 1, 1, 150)],
                                              [("KeyOf2", 2, 0, 0, 2000), ("KeyOf2", 1, 1, 1, 2000), ("KeyOf4", 2, 1, 1, 1500)]):
        cfg, consts = write_cfg(variant, L, Lh, True, mc, 0, False, True, mx=2)
        sb, _ = simulate_behaviours("ClientPoolMC", cfg, num=num, depth=ctx.pick(30, 40), seed=ctx.seed + 7, timeout=400)
        for b in sb:
            traces.append(replay_behaviour(ctx, loop, b, consts))
    ctx.log(f"replayed {len(behs)} transition-cover paths + expiry simulations; actions covered: {dict(ctx.action_cover)}")
    judge(ctx, traces, "tlc-sim")
    # ---- 3. random schedules
    n = ctx.pick(2500, 30000)
    batch: List[dict] = []
    for _ in range(n):
        batch.append(random_exec(ctx, loop, ctx.rng))
        if len(batch) >= 2500:
            judge(ctx, batch, "random")
            batch = []
    judge(ctx, batch, "random")
    ctx.evaluations = ctx.traces
    ctx.extra["replay_action_counts"] = dict(ctx.action_cover)
    loop.uninstall()


def selftest(ctx: Ctx) -> int:
    loop = steploop.new_loop()
    # spec-level mutant: the code as found (no hand-off) must violate NoLostWake in the model
    cfg, _ = write_cfg("KeyOf1", 1, 0, False, 1, 1, False, False, ideal=True)
    res = run_tlc("ClientPoolMC", cfg, workers=16, timeout=300, deadlock=False)
    ok1 = res.violated == "NoLostWake"
    print("mutant model (Handoff=FALSE):", res.violated)
    cfg, _ = write_cfg("KeyOf1", 1, 0, True, 1, 0, False, False, traced=["t1", "t2"], rlf=False)
    res = run_tlc("ClientPoolMC", cfg, workers=16, timeout=300, deadlock=False)
    print("mutant model (ReuseLeakFix=FALSE, traced callers):", res.violated)
    ok1 = ok1 and res.violated == "NoUntracked"
    cfg, _ = write_cfg("KeyOf5", 3, 1, True, 0, 1, False, False, rqh=False)
    res = run_tlc("ClientPoolMC", cfg, workers=16, timeout=600, deadlock=False)
    print("mutant model (RequeueHandoff=FALSE, five callers):", res.violated)
    ok1 = ok1 and res.violated == "NoLostWake"
    # trace-level: corrupt a good trace
    x = PoolExec(loop, 1, 0, ["t1", "t2"], {"t1": "k1", "t2": "k1"})
    x.spawn("t1"); x.settle(); x.spawn("t2"); x.settle(); x.create_ok("t1"); x.settle()
    x.release("t1", False); x.settle(); x.finish()
    good = x.trace("selftest")
    x.teardown()
    import copy
    bad = copy.deepcopy(good)
    for e in bad["events"]:
        if e["obs"]["st"]["t2"] == "waiting":
            e["obs"]["st"]["t2"] = "creating"   # pretend both are in use: limit exceeded
            break
    bad2 = copy.deepcopy(good)
    for e in bad2["events"]:
        if e["ev"] == "release":
            pass
    # drop the wake-up: t2 keeps waiting after the release although the loop is idle
    k = max(i for i, e in enumerate(bad2["events"]) if e["ev"] == "release" and e.get("t") == "t1")
    bad2["events"] = bad2["events"][:k + 1]
    bad2["events"][k]["obs"]["idle"] = True
    vs, _ = validate_batch("ClientPoolTrace", "ClientPoolTrace.cfg", [good, bad, bad2])
    print([(v.ok, v.clause, v.pos) for v in vs])
    ok2 = vs[0].ok and vs[1].clause == "Limit" and vs[2].clause == "LostWake"
    print("selftest", "passed" if ok1 and ok2 else "FAILED")
    return 0 if ok1 and ok2 else 2


def replay(ctx: Ctx, path: str) -> int:
    payload = json.load(open(path))
    d = payload["detail"]
    if "trace" not in d or "events" not in d["trace"]:
        print("replay: model counterexample (no implementation trace); re-run the check to reproduce")
        return 0
    t = d["trace"]
    loop = steploop.new_loop()
    names = list(t["cfg"]["init"]["st"].keys())
    base = [n for n in names if not n.startswith("p")]
    x = PoolExec(loop, t["cfg"]["L"], t["cfg"]["Lh"], base, {n: t["cfg"]["init"]["key"][n] for n in base})
    for e in t["events"]:
        ev, n = e["ev"], e.get("t")
        try:
            if n is not None and n.startswith("p") and n not in x.names:
                break
            if ev == "spawn":
                x.spawn(n)
            elif ev == "createok":
                x.create_ok(n)
            elif ev == "createfail":
                x.create_fail(n)
            elif ev == "cancel":
                x.cancel(n)
            elif ev == "release":
                x.release(n, e["close"])
            elif ev == "peerclose":
                x.peer_close_idle(n)
            elif ev == "close":
                x.close()
            elif ev == "tick":
                x.loop.advance(); x.rec("tick")
            elif ev == "step":
                x.step_any()
        except Exception as exc:  # noqa: BLE001
            print("replay diverged at", ev, n, type(exc).__name__)
            break
    x.finish()
    vs, _ = validate_batch("ClientPoolTrace", "ClientPoolTrace.cfg", [x.trace("replay")])
    x.teardown()
    v = vs[0]
    print(f"replay: ok={v.ok} clause={v.clause!r} pos={v.pos}/{v.total}")
    if not v.ok:
        print(f"VIOLATION property=C07 replay={path}")
        return 1
    return 0
