"""C04 - Outbound messages: field contents cannot inject structure; framing is truthful.

spec/HttpWriter.tla        SerClause (part a), Ref / WireClause / MsgClause (part b)
spec/HttpWriterSerMC.tla   bounded model of the serialisation rule (positions x class strings)
spec/HttpWriterMC.tla      bounded model of the StreamWriter call sequences
spec/HttpWriterTrace.tla   judges every recorded execution of the real code ("ser" / "ops" / "msg")

Python only drives the real aiohttp objects, records the bytes handed to the transport and
projects them into events; every verdict is TLC's.
"""
from __future__ import annotations

import asyncio
import copy
import io
import json
import os
import warnings
import zlib
from concurrent.futures import ThreadPoolExecutor
from typing import Any, Callable, Dict, List, Optional, Sequence, Tuple

from engine import steploop
from engine.gen import strings as G
from engine.memnet import MemTransport, attach
from engine.runner import Ctx
from engine.tlc import (MachineryError, cover_behaviours, mktemp, run_tlc, simulate_behaviours,
                        validate_batch)

# the byte-string decoders of HttpWriter.tla recurse once per byte of a line: give TLC's worker a deep stack
TLC_ENV = {"JAVA_TOOL_OPTIONS": "-Xss256m"}
MARK = "Zq"
MARKB = MARK.encode()

# clauses that name one specific, separately reported deviation of today's code
NAMED_DEVIATIONS = {
    "ChunkFramingUnderContentLength": "client chunked=False: Content-Length declared, body sent with chunk framing",
    "LengthOverrunAtEof": "write_eof(data) ignores the declared Content-Length (write() truncates, write_eof() does not)",
    "BodyOnBodylessResponse": "StreamResponse.write()/write_eof(data) emits body bytes on a HEAD / 204 / 304 response",
    "TextPayloadSizeMismatch": "TextIOPayload.size is the file size in bytes, the bytes written are the re-encoded text",
    "PartialBodyOnRefusal": "MultipartWriter.write() validates a part's headers only after the delimiter line (and every "
                            "earlier part) has been written",
}


# ======================================================================== kit
class Kit:
    """Real aiohttp objects on in-memory transports under the stepping loop."""

    def __init__(self) -> None:
        self.loop = steploop.new_loop()
        from aiohttp import hdrs
        from aiohttp.base_protocol import BaseProtocol
        from aiohttp.client_proto import ResponseHandler
        from aiohttp.client_reqrep import ClientRequest, ClientResponse
        from aiohttp.client import ClientTimeout
        from aiohttp.helpers import TimerNoop
        from aiohttp.http_parser import RawRequestMessage
        from aiohttp.http_writer import HttpVersion10, HttpVersion11, StreamWriter
        from aiohttp.streams import EMPTY_PAYLOAD
        from aiohttp.web_request import BaseRequest
        from multidict import CIMultiDict, CIMultiDictProxy
        from yarl import URL

        class SrvProto(BaseProtocol):
            ssl_context = None
            peername = None
            sockname = None

        class FakeConnector:
            force_close = False

        class FakeConn:
            def __init__(self, proto: Any) -> None:
                self.protocol = proto
                self._connector = FakeConnector()

            def close(self) -> None:
                pass

            def release(self) -> None:
                pass

        self.SrvProto = SrvProto
        self.FakeConn = FakeConn
        self.ns = dict(hdrs=hdrs, BaseProtocol=BaseProtocol, ResponseHandler=ResponseHandler,
                       ClientRequest=ClientRequest, ClientResponse=ClientResponse, ClientTimeout=ClientTimeout,
                       TimerNoop=TimerNoop, RawRequestMessage=RawRequestMessage, HttpVersion10=HttpVersion10,
                       HttpVersion11=HttpVersion11, StreamWriter=StreamWriter, EMPTY_PAYLOAD=EMPTY_PAYLOAD,
                       BaseRequest=BaseRequest, CIMultiDict=CIMultiDict, CIMultiDictProxy=CIMultiDictProxy, URL=URL)
        self.tmpdir = mktemp("c04files")
        self._nfile = 0

    def __getattr__(self, name: str) -> Any:
        try:
            return self.ns[name]
        except KeyError:
            raise AttributeError(name)

    def run(self, coro: Any) -> Any:
        return self.loop.run_coro(coro)

    # ---- client
    def client_req(self, method: str = "GET", url: Any = "http://h/", **kw: Any) -> Any:
        from http.cookies import SimpleCookie
        a: Dict[str, Any] = dict(
            params=None, headers=self.CIMultiDict(), skip_auto_headers=("Accept", "Accept-Encoding", "User-Agent"),
            data=None, cookies=SimpleCookie(), version=self.HttpVersion11, compress=False, chunked=None,
            expect100=False, loop=self.loop, response_class=self.ClientResponse, proxy=None,
            response_params=None, timer=self.TimerNoop(), timeout=self.ClientTimeout(), session=None, ssl=True,
            proxy_headers=None, traces=[], trust_env=False, server_hostname=None)
        a.update(kw)
        if not isinstance(url, self.URL):
            url = self.URL(url)
        return self.ClientRequest(method, url, **a)

    def new_client_transport(self) -> Tuple[Any, MemTransport]:
        proto = self.ResponseHandler(self.loop)
        tr = attach(self.loop, proto)
        return proto, tr

    async def client_send(self, req: Any, tr_box: List[Any]) -> Any:
        proto, tr = self.new_client_transport()
        tr_box.append(tr)
        conn = self.FakeConn(proto)
        resp = await req._send(conn)
        wt = req._writer_task
        if wt is not None:
            await wt
        if proto.exception() is not None:       # body writer errors are parked on the protocol
            raise proto.exception()
        return resp

    # ---- server
    def server_req(self, method: str = "GET", path: str = "/", version: Any = None,
                   headers: Optional[dict] = None) -> Tuple[Any, MemTransport, Any]:
        version = version or self.HttpVersion11
        proto = self.SrvProto(self.loop)
        tr = attach(self.loop, proto)
        w = self.StreamWriter(proto, self.loop)
        h = self.CIMultiDictProxy(self.CIMultiDict(headers or {}))
        msg = self.RawRequestMessage(method, path, version, h, (), version < self.HttpVersion11, None,
                                     False, False, self.URL(path))
        req = self.BaseRequest(msg, self.EMPTY_PAYLOAD, proto, w, None, self.loop)
        return req, tr, w

    def new_writer(self) -> Tuple[Any, MemTransport, Any]:
        proto = self.SrvProto(self.loop)
        tr = attach(self.loop, proto)
        return proto, tr, self.StreamWriter(proto, self.loop)

    def tmpfile(self, content: bytes) -> str:
        self._nfile += 1
        p = os.path.join(self.tmpdir, f"f{self._nfile}.bin")
        with open(p, "wb") as f:
            f.write(content)
        return p

    def close(self) -> None:
        self.loop.uninstall()


# ======================================================== part (a): scenarios
PLACES = ("mid", "start", "end", "whole")


class Scenario:
    """One position reached through one public path.  fn(kit, token, box) supplies the token and
    leaves the transport in box[0]; an exception means `refused`.  ctx = (a, b): harmless characters
    of the same token around the supplied string; the string is placed in the middle (a+s+b), at
    the start (s+b), at the end (a+s) or is the whole token (s).  ctx=None: the string is always
    the whole token (or the function places it itself)."""

    def __init__(self, name: str, pos: str, enc: str, fn: Callable[[Kit, str, List[Any]], Any],
                 tbl: bool = True, whole: bool = False, special: str = "", unit: str = "head",
                 ctx: Optional[Tuple[str, str]] = None) -> None:
        self.name, self.pos, self.enc, self.fn, self.tbl = name, pos, enc, fn, tbl
        self.unit = unit            # "head": the bytes are a message head; "body": part head inside a body
        self.ctx = ctx
        self.whole = whole or False  # the supplied string may not be empty
        self.special = special
        self.tmpl: Dict[str, Optional[dict]] = {}

    @property
    def places(self) -> Tuple[str, ...]:
        return PLACES if self.ctx is not None else ("whole",)

    @property
    def default_place(self) -> str:
        return "mid" if self.ctx is not None else "whole"

    def token(self, s: str, place: str) -> str:
        if self.ctx is None:
            return s
        a, b = self.ctx
        return {"mid": a + s + b, "start": s + b, "end": a + s, "whole": s}[place]

    def execute(self, kit: Kit, s: str, place: str) -> Tuple[str, bytes, str, Any]:
        box: List[Any] = []
        try:
            extra = kit.run(self.fn(kit, self.token(s, place), box))
            out, exc = "emitted", ""
        except Exception as e:  # noqa: BLE001 - any exception is a refusal; zero bytes is what matters
            out, exc, extra = "refused", type(e).__name__, None
        wire = bytes(box[0].written) if box else b""
        return out, wire, exc, extra

    def template(self, kit: Kit, place: Optional[str] = None) -> Optional[dict]:
        """Where the string sits in the head, learnt from one run with a harmless marker.
        None: this placement cannot be expressed in this scenario (the marker run is refused)."""
        place = place or self.default_place
        if place in self.tmpl:
            return self.tmpl[place]
        out, wire, exc, extra = self.execute(kit, MARK, place)
        head, sep, body = wire.partition(b"\r\n\r\n")
        t: Optional[dict] = None
        if out == "emitted" and sep:
            lines = head.split(b"\r\n")
            if self.special == "target":
                t = {"line": 1, "pre": b"GET ", "post": b" HTTP/1.1"}
            else:
                mark = {"upper": MARKB.upper(), "lower": MARKB.lower()}.get(self.special, MARKB)
                hits = [k for k, ln in enumerate(lines) if mark in ln]
                if len(hits) == 1 and lines[hits[0]].count(mark) == 1:
                    pre, _, post = lines[hits[0]].partition(mark)
                    t = {"line": hits[0] + 1, "pre": pre, "post": post}
            if t is not None:
                t.update({"nfields": len(lines) - 1, "body": body})
        if t is None and place == self.default_place:
            raise MachineryError(f"scenario {self.name}: harmless string not placed ({out} {exc} {wire[:80]!r})")
        self.tmpl[place] = t
        return t

    def event(self, kit: Kit, cps: Sequence[int], tbl: bool, place: Optional[str] = None) -> Optional[dict]:
        place = place or self.default_place
        t = self.template(kit, place)
        if t is None:
            return None
        s = G.to_str(cps)
        out, wire, exc, extra = self.execute(kit, s, place)
        pre, post, enc, sup, body = t["pre"], t["post"], self.enc, list(cps), t["body"]
        if out == "emitted":
            if self.special == "target":
                sup = [ord(c) for c in extra]          # url.raw_path_qs: what aiohttp was handed by yarl
            elif self.special == "upper":
                sup = [ord(c) for c in s.upper()]      # ClientRequest documents method.upper()
            elif self.special == "lower":
                # the charset setter documents str(value).lower(); lower-casing is context sensitive
                # (a capital sigma becomes a final sigma after a cased letter), so take it from the whole token
                a, b = self.ctx or ("", "")
                a, b = (a if place in ("mid", "end") else ""), (b if place in ("mid", "start") else "")
                low = self.token(s, place).lower()
                sup = [ord(c) for c in low[len(a.lower()):len(low) - len(b.lower())]]
            elif self.special == "boundary":
                body = body.replace(MARKB, s.encode("ascii", "replace"))
            if enc != "raw":
                pre, post, enc = _adapt_encoding(wire, t, enc)
        psize = extra["psize"] if isinstance(extra, dict) and out == "emitted" else -1
        return {"ev": "ser", "scen": self.name, "place": place, "out": out, "exc": exc, "wire": list(wire),
                "psize": psize,
                "sup": sup, "enc": enc, "orig": list(cps), "unit": self.unit,
                "line": t["line"], "pre": list(pre), "post": list(post), "nfields": t["nfields"],
                "body": list(body), "pos": self.pos, "cls": G.classes_of(cps) if (tbl and self.tbl) else [],
                "tbl": bool(tbl and self.tbl)}


def _adapt_encoding(wire: bytes, t: dict, enc: str) -> Tuple[bytes, bytes, str]:
    """Name which of the documented encodings the code chose for the token (projection
    only: the decoding and the comparison are done by HttpWriter!EncodedOK)."""
    pre, post = t["pre"], t["post"]
    lines = wire.partition(b"\r\n\r\n")[0].split(b"\r\n")
    if t["line"] - 1 >= len(lines):
        return pre, post, enc
    ln = lines[t["line"] - 1]
    if ln.startswith(pre):
        if enc == "tokq":                       # token or quoted-string (multipart boundary parameter)
            mid = ln[len(pre):len(ln) - len(post)] if post else ln[len(pre):]
            if mid.startswith(b'"'):
                return pre + b'"', b'"' + post, "qs"
            return pre, post, "raw"
        return pre, post, enc
    if pre.endswith(b'="'):                     # name="..."  ->  name*=utf-8''...   (RFC 5987 form)
        alt = pre[:-2] + b"*=utf-8''"
        if ln.startswith(alt):
            return alt, post[1:] if post.startswith(b'"') else post, "ext"
    return pre, post, "unknown"


def build_scenarios() -> List[Scenario]:
    S: List[Scenario] = []

    # ---------------- client start line and headers
    async def c_method(kit: Kit, s: str, box: List[Any]) -> Any:
        await kit.client_send(kit.client_req(s), box)

    async def c_target(kit: Kit, s: str, box: List[Any]) -> Any:
        req = kit.client_req("GET", "http://h/p" + s + "q?k" + s + "=" + s)
        await kit.client_send(req, box)
        return req.url.raw_path_qs

    async def c_target_raw(kit: Kit, s: str, box: List[Any]) -> Any:
        req = kit.client_req("GET", kit.URL("http://h/p" + s + "q", encoded=True))
        await kit.client_send(req, box)
        return req.url.raw_path_qs

    async def c_name(kit: Kit, s: str, box: List[Any]) -> Any:
        await kit.client_send(kit.client_req("GET", headers=kit.CIMultiDict({s: "v"})), box)

    async def c_value(kit: Kit, s: str, box: List[Any]) -> Any:
        await kit.client_send(kit.client_req("GET", headers=kit.CIMultiDict({"X-N": s})), box)

    async def c_cookie_name(kit: Kit, s: str, box: List[Any]) -> Any:
        from aiohttp import CookieJar
        j = CookieJar()
        u = kit.URL("http://h/")
        j.update_cookies({s: "v"}, u)
        await kit.client_send(kit.client_req("GET", cookies=j.filter_cookies(u)), box)

    async def c_cookie_value(kit: Kit, s: str, box: List[Any]) -> Any:
        from aiohttp import CookieJar
        j = CookieJar()
        u = kit.URL("http://h/")
        j.update_cookies({"n": s}, u)
        await kit.client_send(kit.client_req("GET", cookies=j.filter_cookies(u)), box)

    async def c_payload_header(kit: Kit, s: str, box: List[Any]) -> Any:
        from aiohttp import payload
        p = payload.BytesPayload(b"x", headers={"X-N": s})
        await kit.client_send(kit.client_req("POST", data=p), box)

    async def c_mp_subtype(kit: Kit, s: str, box: List[Any]) -> Any:
        from aiohttp import MultipartWriter
        mp = MultipartWriter(s, boundary="B")
        mp.append(b"x")
        await kit.client_send(kit.client_req("POST", data=mp), box)

    async def c_mp_boundary(kit: Kit, s: str, box: List[Any]) -> Any:
        from aiohttp import MultipartWriter
        mp = MultipartWriter("mixed", boundary=s)
        mp.append(b"x")
        await kit.client_send(kit.client_req("POST", data=mp), box)

    S += [Scenario("client.method", "method", "raw", c_method, special="upper", ctx=('Q', 'Z')),
          Scenario("client.target", "", "raw", c_target, tbl=False, special="target"),
          Scenario("client.target-encoded", "", "raw", c_target_raw, tbl=False, special="target"),
          Scenario("client.header-name", "name", "raw", c_name, ctx=('X-', 'N')),
          Scenario("client.header-value", "value", "raw", c_value, ctx=('v', 'w')),
          Scenario("client.cookie-name", "cookie-name", "raw", c_cookie_name, ctx=('n', 'm')),
          Scenario("client.cookie-value", "cookie-value", "cookie", c_cookie_value, whole=True),
          Scenario("client.payload-header", "value", "raw", c_payload_header, ctx=('v', 'w')),
          Scenario("client.multipart-subtype", "content-type", "raw", c_mp_subtype, ctx=('mi', 'xed')),
          Scenario("client.multipart-boundary", "", "tokq", c_mp_boundary, tbl=False, whole=True, special="boundary")]

    # ---------------- server status line, headers, cookies
    def srv(make: Callable[[Kit, str], Any]) -> Callable:
        async def go(kit: Kit, s: str, box: List[Any]) -> Any:
            req, tr, _w = kit.server_req()
            box.append(tr)
            resp = make(kit, s)
            await resp.prepare(req)
            await resp.write_eof()
        return go

    def web() -> Any:
        from aiohttp import web as _web
        return _web

    def r_reason(kit: Kit, s: str) -> Any:
        return web().Response(reason=s)

    def r_set_status(kit: Kit, s: str) -> Any:
        r = web().StreamResponse()
        r.set_status(200, s)
        return r

    def r_name(kit: Kit, s: str) -> Any:
        return web().Response(headers={s: "v"})

    def r_value(kit: Kit, s: str) -> Any:
        r = web().StreamResponse()
        r.headers["X-N"] = s
        return r

    def r_cookie_name(kit: Kit, s: str) -> Any:
        r = web().Response()
        r.set_cookie(s, "v")
        return r

    def r_cookie_value(kit: Kit, s: str) -> Any:
        r = web().Response()
        r.set_cookie("n", s)
        return r

    def r_cookie_path(kit: Kit, s: str) -> Any:
        r = web().Response()
        r.set_cookie("n", "v", path=s)
        return r

    def r_cookie_domain(kit: Kit, s: str) -> Any:
        r = web().Response()
        r.set_cookie("n", "v", domain=s)
        return r

    def r_cookie_samesite(kit: Kit, s: str) -> Any:
        r = web().Response()
        r.set_cookie("n", "v", samesite=s)
        return r

    def r_ctype_arg(kit: Kit, s: str) -> Any:
        return web().Response(text="x", content_type=s)

    def r_ctype_setter(kit: Kit, s: str) -> Any:
        r = web().StreamResponse()
        r.content_type = s
        return r

    def r_charset_setter(kit: Kit, s: str) -> Any:
        r = web().StreamResponse()
        r.content_type = "text/plain"
        r.charset = s
        return r

    S += [Scenario("server.reason", "reason", "raw", srv(r_reason), ctx=('O', 'K')),
          Scenario("server.set_status-reason", "reason", "raw", srv(r_set_status), ctx=('O', 'K')),
          Scenario("server.header-name", "name", "raw", srv(r_name), ctx=('X-', 'N')),
          Scenario("server.header-value", "value", "raw", srv(r_value), ctx=('v', 'w')),
          Scenario("server.set_cookie-name", "cookie-name", "raw", srv(r_cookie_name), ctx=('n', 'm')),
          Scenario("server.set_cookie-value", "cookie-value", "cookie", srv(r_cookie_value), whole=True),
          Scenario("server.set_cookie-path", "cookie-attr", "raw", srv(r_cookie_path), ctx=('/p', 'q')),
          Scenario("server.set_cookie-domain", "cookie-attr", "raw", srv(r_cookie_domain), ctx=('d', 'e')),
          Scenario("server.set_cookie-samesite", "cookie-attr", "raw", srv(r_cookie_samesite), ctx=('La', 'x')),
          Scenario("server.content_type-arg", "content-type", "raw", srv(r_ctype_arg), ctx=('text/p', 'q')),
          Scenario("server.content_type-setter", "content-type", "raw", srv(r_ctype_setter), ctx=('text/p', 'q')),
          Scenario("server.charset-setter", "", "raw", srv(r_charset_setter), tbl=False, special="lower", ctx=('u', '8'))]

    # ---------------- multipart part heads / FormData (written through a real StreamWriter)
    def body(make: Callable[[Kit, str], Any]) -> Callable:
        async def go(kit: Kit, s: str, box: List[Any]) -> Any:
            _p, tr, w = kit.new_writer()
            box.append(tr)
            mp = make(kit, s)
            size = mp.size               # declared before the first byte is written
            await mp.write(w)
            return {"psize": -1 if size is None else int(size)}
        return go

    def mpw() -> Any:
        from aiohttp import MultipartWriter
        return MultipartWriter("mixed", boundary="B")

    def p_name(kit: Kit, s: str) -> Any:
        mp = mpw()
        mp.append(b"x", {s: "v"})
        return mp

    def p_value(kit: Kit, s: str) -> Any:
        mp = mpw()
        mp.append(b"x", {"X-N": s})
        return mp

    def p_ctype(kit: Kit, s: str) -> Any:
        from aiohttp import payload
        mp = mpw()
        mp.append(payload.BytesPayload(b"x", content_type=s))
        return mp

    def p_disp_param(kit: Kit, s: str) -> Any:
        from aiohttp import payload
        p = payload.BytesPayload(b"x")
        p.set_content_disposition("attachment", foo=s)
        mp = mpw()
        mp.append(p)
        return mp

    def p_disp_filename(kit: Kit, s: str) -> Any:
        from aiohttp import payload
        p = payload.BytesPayload(b"x")
        p.set_content_disposition("attachment", filename=s)
        mp = mpw()
        mp.append(p)
        return mp

    def f_name(kit: Kit, s: str) -> Any:
        from aiohttp import FormData
        fd = FormData(boundary="B")
        fd.add_field(s, b"x")
        return fd()

    def f_name_nq(kit: Kit, s: str) -> Any:
        from aiohttp import FormData
        fd = FormData(boundary="B", quote_fields=False)
        fd.add_field(s, b"x")
        return fd()

    def f_filename(kit: Kit, s: str) -> Any:
        from aiohttp import FormData
        fd = FormData(boundary="B")
        fd.add_field("n", b"x", filename=s)
        return fd()

    def f_filename_nq(kit: Kit, s: str) -> Any:
        from aiohttp import FormData
        fd = FormData(boundary="B", quote_fields=False)
        fd.add_field("n", b"x", filename=s)
        return fd()

    def f_ctype(kit: Kit, s: str) -> Any:
        from aiohttp import FormData
        fd = FormData(boundary="B")
        fd.add_field("n", b"x", content_type=s)
        return fd()

    S += [Scenario("multipart.part-header-name", "part-name", "raw", body(p_name), unit="body", ctx=('X-', 'N')),
          Scenario("multipart.part-header-value", "part-value", "raw", body(p_value), unit="body", ctx=('v', 'w')),
          Scenario("payload.content_type", "content-type", "raw", body(p_ctype), unit="body", ctx=('t/p', 'q')),
          Scenario("payload.disposition-param", "", "qs", body(p_disp_param), tbl=False, whole=True, unit="body"),
          Scenario("payload.disposition-filename", "", "pct", body(p_disp_filename), tbl=False, whole=True, unit="body"),
          Scenario("formdata.name", "form-name", "qs", body(f_name), whole=True, unit="body"),
          Scenario("formdata.name-unquoted", "", "qs", body(f_name_nq), tbl=False, whole=True, unit="body"),
          Scenario("formdata.filename", "form-filename", "pct", body(f_filename), whole=True, unit="body"),
          Scenario("formdata.filename-unquoted", "", "qs", body(f_filename_nq), tbl=False, whole=True, unit="body"),
          Scenario("formdata.content_type", "content-type", "raw", body(f_ctype), unit="body", ctx=('t/p', 'q'))]
    return S


# ==================================================== part (b): StreamWriter ops
HEAD_STATUS = "HTTP/1.1 200 OK"
HEAD_BYTES = b"HTTP/1.1 200 OK\r\nL: x\r\n\r\n"


def letters(start: int, n: int) -> bytes:
    return bytes(97 + ((start + k) % 26) for k in range(n))


def as_form(data: bytes, form: str) -> Tuple[Any, str]:
    """The same bytes behind another buffer type accepted by write()/write_eof()."""
    import array
    n = len(data)
    if form == "bytearray":
        return bytearray(data), form
    if form == "mv":
        return memoryview(data), form
    if form in ("mvH", "mvI", "mvQ") and n:
        a = array.array(form[2])
        if n % a.itemsize == 0:
            a.frombytes(data)
            return memoryview(a), form               # len() counts items, nbytes counts bytes
    if form == "mv2d" and n >= 2 and n % 2 == 0:
        return memoryview(data).cast("B", shape=[2, n // 2]), form
    if form == "mvc" and n:
        return memoryview(data).cast("c"), form
    return data, "bytes"


def choose_form(n: int, salt: int, eof: bool = False) -> str:
    """An exotic but legal buffer form for n bytes; salt rotates through the applicable ones.
    write_eof() is documented for bytes only (StreamResponse.write_eof also lets byte-like objects
    through): it gets the forms whose len() is their byte count."""
    if salt < 0:
        return "bytes"
    wide = not eof
    cands = [f for f, ok in (("mvQ", wide and n and n % 8 == 0), ("mvI", wide and n and n % 4 == 0),
                             ("mvH", wide and n and n % 2 == 0), ("mv2d", wide and n >= 2 and n % 2 == 0),
                             ("mv", True), ("bytearray", True), ("mvc", n > 0))
             if ok]
    return cands[salt % len(cands)]


class OpsExec:
    """One call sequence on a real StreamWriter; every call runs while the transport
    applies write back-pressure, so a call that awaits drain() is seen to block."""

    def __init__(self, kit: Kit, chunked: bool, length: int, compress: bool) -> None:
        self.kit = kit
        self.proto, self.tr, self.w = kit.new_writer()
        self.cfg = {"kind": "ops", "chunked": bool(chunked), "length": int(length), "compress": bool(compress),
                    "head": list(HEAD_BYTES)}
        if chunked:
            self.w.enable_chunking()
        if length >= 0:
            self.w.length = length
        if compress:
            self.w.enable_compression("deflate")
        self.events: List[dict] = []
        self.napp = 0

    def call(self, op: str, n: int = 0, big: bool = False, form: str = "bytes") -> dict:
        kit, w = self.kit, self.w
        raw = letters(self.napp, n) if op in ("write", "write_eof") else b""
        self.napp += len(raw)
        data, form = as_form(raw, form)
        before = len(self.tr.writes)
        err = ""
        blocked = False

        async def go() -> None:
            if op == "write_headers":
                await w.write_headers(HEAD_STATUS, kit.CIMultiDict({"L": "x"}))
            elif op == "send_headers":
                w.send_headers()
            elif op == "write":
                if big:
                    await w.write(data, LIMIT=0)       # stands for a chunk larger than LIMIT
                else:
                    await w.write(data)
            elif op == "write_eof":
                await w.write_eof(data)
            elif op == "set_eof":
                w.set_eof()
            elif op == "drain":
                await w.drain()
            else:
                raise MachineryError(f"unknown op {op}")

        self.tr.pause_protocol_writing()
        task = kit.loop.create_task(go())
        kit.loop.run_until_idle()
        if not task.done():
            blocked = True
        self.tr.resume_protocol_writing()
        kit.loop.run_until_idle()
        if not task.done():
            task.cancel()
            kit.loop.run_until_idle()
            err = "stuck"
        else:
            try:
                task.result()
            except Exception as e:  # noqa: BLE001
                err = type(e).__name__
        ev = {"ev": "op", "op": op, "data": list(raw), "form": form, "big": bool(big), "wlen": len(self.tr.written),
              "nwr": len(self.tr.writes) - before, "err": err, "blocked": blocked, "inflated": [], "zlen": -1}
        self.events.append(ev)
        return ev

    def trace(self, src: str) -> dict:
        wire = bytes(self.tr.written)
        cfg = dict(self.cfg)
        cfg["wire"] = list(wire)
        if self.cfg["compress"]:
            zbody = py_deframe(wire[len(HEAD_BYTES):], self.cfg["chunked"], None)
            infl = py_inflate(zbody)
            for ev in self.events:
                if ev["op"] == "write_eof":
                    ev["zlen"] = len(zbody) if zbody is not None else -1
                    ev["inflated"] = list(infl) if infl is not None else [255]
                    break
        return {"cfg": cfg, "src": src, "events": self.events}


def py_deframe(body: bytes, chunked: bool, cl: Optional[int]) -> Optional[bytes]:
    """The harness' own de-framing, needed only to hand zlib a coded stream."""
    if not chunked:
        return body if cl is None else body[:cl]
    out = bytearray()
    i = 0
    while True:
        j = body.find(b"\r\n", i)
        if j < 0:
            return None
        try:
            n = int(body[i:j], 16)
        except ValueError:
            return None
        if n == 0:
            return bytes(out)
        out += body[j + 2:j + 2 + n]
        i = j + 2 + n + 2


def py_inflate(z: Optional[bytes], gzip: bool = False) -> Optional[bytes]:
    if z is None:
        return None
    if z == b"":
        return b""
    try:
        d = zlib.decompressobj(16 + zlib.MAX_WBITS if gzip else zlib.MAX_WBITS)
        out = d.decompress(z)
        if not d.eof:
            return None
        return out
    except zlib.error:
        return None


def parse_label(label: str) -> Tuple[str, List[int]]:
    name, _, rest = label.partition("(")
    args = [int(x) for x in rest.rstrip(")").split(",") if x.strip().lstrip("-").isdigit()]
    return name, args


LABEL_OPS = {"WriteHeaders": "write_headers", "SendHeadersBuffered": "send_headers", "SendHeadersNoop": "send_headers",
             "WriteCoalesced": "write", "WritePlain": "write", "WriteEofCoalesced": "write_eof",
             "WriteEofCoalescedZ": "write_eof", "WriteEofPlain": "write_eof", "SetEofCoalesced": "set_eof",
             "SetEofPlain": "set_eof", "Drain": "drain"}


def behaviour_calls(beh: List[Tuple[str, dict]], maxsize: int) -> Tuple[dict, List[Tuple[str, int, bool]]]:
    """(mode, [(op, n, big)]) of one TLC behaviour of HttpWriterMC."""
    st0 = beh[0][1]["s"]
    mode = {"chunked": bool(st0["chunked"]), "length": int(st0["length0"]), "compress": bool(st0["compress"])}
    calls = []
    for label, st in beh[1:]:
        name, args = parse_label(label)
        last = st.get("last")
        if name in LABEL_OPS and (args or LABEL_OPS[name] not in ("write", "write_eof")):
            op = LABEL_OPS[name]
            n = args[0] if args and op in ("write", "write_eof") else 0
            big = op == "write" and n == maxsize + 1
        elif isinstance(last, dict) and last.get("op") not in (None, "init"):
            op, n, big = last["op"], int(last["n"]), bool(last["big"])
        else:
            raise MachineryError(f"cannot tell the call of step {label!r}")
        calls.append((op, n, big))
    return mode, calls


def replay_ops(kit: Kit, mode: dict, calls: List[Tuple[str, int, bool]], src: str, salt: int = -1) -> dict:
    """salt < 0: all data as bytes; else every data call gets a rotating non-bytes buffer form."""
    x = OpsExec(kit, mode["chunked"], mode["length"], mode["compress"])
    for k, (op, n, big) in enumerate(calls):
        x.call(op, n, big, choose_form(n, salt + k if salt >= 0 else -1, eof=(op == "write_eof")))
    return x.trace(src)


def random_calls(rng: Any) -> Tuple[dict, List[Tuple[str, int, bool]]]:
    compress = rng.random() < 0.3
    mode = {"chunked": rng.random() < 0.5, "compress": compress,
            "length": -1 if compress or rng.random() < 0.5 else rng.choice([0, 1, 2, 3, 5, 17])}
    calls: List[Tuple[str, int, bool]] = [("write_headers", 0, False)]
    eof = False
    data_written = False
    for _ in range(rng.randint(1, 9)):
        c = rng.choice(["write"] * 6 + ["send_headers", "drain", "write_eof", "write_eof", "set_eof"])
        if c == "write":
            if eof:
                continue
            n = rng.choice([0, 0, 1, 1, 2, 3, 4, 15, 16, 17, 40])
            calls.append(("write", n, rng.random() < 0.2))
            data_written = data_written or n > 0
        elif c == "write_eof":
            calls.append(("write_eof", rng.choice([0, 0, 1, 2, 3, 16, 33]), False))
            eof = True
        elif c == "set_eof":
            if compress and data_written:
                continue
            # a write(b"") with compression leaves the compressor untouched only if zlib returned nothing
            if compress and any(op == "write" for op, _n, _b in calls):
                continue
            calls.append(("set_eof", 0, False))
            eof = True
        else:
            calls.append((c, 0, False))
    return mode, calls


# =============================================== part (b): complete messages
class Sink:
    """Plain collecting writer: what a payload writes when nothing frames or limits it."""

    def __init__(self) -> None:
        self.buf = bytearray()

    async def write(self, chunk: Any) -> None:
        self.buf += bytes(chunk)

    async def write_eof(self, chunk: bytes = b"") -> None:
        self.buf += bytes(chunk)

    async def drain(self) -> None:
        pass

    def enable_compression(self, *a: Any, **k: Any) -> None:
        pass

    def enable_chunking(self) -> None:
        pass

    async def write_headers(self, *a: Any) -> None:
        pass

    def send_headers(self) -> None:
        pass


PAYLOAD_KINDS = ["bytes", "bytearray", "memoryview", "memoryview-items", "str", "bytesio", "stringio", "file", "textio", "textio-crlf", "asyncgen",
                 "multipart", "formdata", "formdata-urlencoded", "json"]


# MultipartWriter keeps Payload.write_with_length's documented fall-back (the limit is ignored), and
# BytesPayload cuts a multi-byte-item memoryview by items; an application-declared Content-Length smaller
# than such a body is not driven
NO_LENGTH_LIMIT = ("multipart", "formdata", "memoryview-items")


def make_payload(kit: Kit, kind: str, chunks: List[bytes]) -> Tuple[Any, bytes]:
    """(object accepted as `data=` / `body=`, entity bytes an observer must receive)."""
    from aiohttp import FormData, MultipartWriter, payload
    whole = b"".join(chunks)
    if kind == "bytes":
        return whole, whole
    if kind == "bytearray":
        return bytearray(whole), whole
    if kind == "memoryview":
        return memoryview(whole), whole
    if kind == "memoryview-items":              # itemsize 8 / 4 / 2 as the length allows: len() != nbytes
        return as_form(whole, choose_form(len(whole), 0))[0], whole
    if kind == "str":
        return whole.decode("ascii"), whole
    if kind == "bytesio":
        return io.BytesIO(whole), whole
    if kind == "stringio":
        return io.StringIO(whole.decode("ascii")), whole
    if kind == "file":
        return open(kit.tmpfile(whole), "rb"), whole
    if kind == "textio":
        return open(kit.tmpfile(whole), "r", encoding="utf-8"), whole
    if kind == "textio-crlf":
        # a text file with DOS line ends; opened the documented way (text mode, universal newlines)
        content = b"\r\n".join(chunks) + b"\r\n"
        f = open(kit.tmpfile(content), "r", encoding="utf-8")
        return f, None  # type: ignore[return-value]   # entity = what the payload writes standalone
    if kind == "asyncgen":
        async def gen() -> Any:
            for c in chunks:
                yield c
        return gen(), whole
    if kind == "multipart":
        mp = MultipartWriter("mixed", boundary="B")
        for c in chunks:
            mp.append(c)
        return mp, None  # type: ignore[return-value]
    if kind == "formdata":
        fd = FormData(boundary="B")
        for k, c in enumerate(chunks):
            fd.add_field(f"f{k}", c, filename=f"n{k}.bin")
        return fd, None  # type: ignore[return-value]
    if kind == "formdata-urlencoded":
        fd = FormData()
        for k, c in enumerate(chunks):
            fd.add_field(f"f{k}", c.decode("ascii"))
        return fd, None  # type: ignore[return-value]
    if kind == "json":
        obj = {"d": [c.decode("ascii") for c in chunks]}
        return payload.JsonPayload(obj), json.dumps(obj).encode()
    raise MachineryError(f"unknown payload kind {kind}")


def payload_of(obj: Any) -> Any:
    from aiohttp import FormData, payload
    if isinstance(obj, FormData):
        return obj()
    if isinstance(obj, payload.Payload):
        return obj
    return payload.PAYLOAD_REGISTRY.get(obj, disposition=None)


REUSABLE = {"bytes", "bytearray", "memoryview", "memoryview-items", "str", "bytesio", "stringio", "file", "textio",
            "multipart", "formdata", "formdata-urlencoded", "json"}
MULTIPART_KINDS = ("multipart", "formdata")


def apply_pre(kit: Kit, p: Any, steps: Sequence[str]) -> None:
    """What an application may do with a payload object before (re)sending it: ask for its size, send
    it once, change a header of the payload or of an appended part, append a part."""
    from aiohttp import MultipartWriter
    for st in steps:
        if st == "size":
            _ = p.size
        elif st == "send":
            kit.run(p.write(Sink()))
            kit.loop.run_until_idle()
        elif st == "mutate":
            target = p
            if isinstance(p, MultipartWriter) and len(p):
                target = next(iter(p))[0]
            if p.content_type.startswith("multipart/form-data") and target is not p:
                target.set_content_disposition("form-data", name="field-renamed-after-the-size-was-read")
            else:
                target.set_content_disposition("attachment", filename="renamed-after-the-size-was-read.bin")
            target.headers["X-Note"] = "changed-later"
        elif st == "append":
            if isinstance(p, MultipartWriter):
                p.append(b"appended-after-the-size-was-read")
        else:
            raise MachineryError(f"unknown payload step {st}")


def standalone(kit: Kit, kind: str, chunks: List[bytes], pre: Sequence[str] = ()) -> Tuple[int, bytes, str]:
    """Payload.size and the bytes the payload writes into a plain collecting writer (after the
    same preparatory steps as the payload that is really sent)."""
    obj, _ = make_payload(kit, kind, chunks)
    p = payload_of(obj)
    apply_pre(kit, p, pre)
    size = p.size
    sink = Sink()
    kit.run(p.write(sink))
    try:
        kit.run(p.close())
    except Exception:  # noqa: BLE001
        pass
    kit.loop.run_until_idle()
    return (-1 if size is None else int(size)), bytes(sink.buf), type(p).__name__


def msg_event(kind: str, role: str, wire: bytes, data: bytes, *, ulen: int = -1, z: str = "",
              bodyless: bool = False, psize: int = -1, pwritten: bytes = b"", recipe: Optional[dict] = None,
              err: str = "", pclass: str = "") -> dict:
    head, sep, body = wire.partition(b"\r\n\r\n")
    inflated: Optional[bytes] = b""
    zlen = -1
    if z and sep:
        low = head.lower()
        chunked = b"transfer-encoding: chunked" in low
        cl = None
        for ln in low.split(b"\r\n"):
            if ln.startswith(b"content-length:"):
                try:
                    cl = int(ln.split(b":", 1)[1])
                except ValueError:
                    cl = None
        zb = py_deframe(body, chunked, cl)
        inflated = py_inflate(zb, gzip=(z == "gzip"))
        zlen = len(zb) if zb is not None else -1
        if inflated is None:
            inflated = b"\xff<inflate failed>"
    return {"ev": "msg", "kind": kind, "pclass": pclass, "role": role, "wire": list(wire), "data": list(data), "ulen": ulen,
            "z": bool(z), "inflated": list(inflated or b""), "zlen": zlen, "bodyless": bool(bodyless),
            "psize": psize, "pwritten": list(pwritten), "err": err, "recipe": recipe or {}}


def run_recipe(kit: Kit, r: dict) -> dict:
    """Execute one complete-message recipe against the real code and project it."""
    from aiohttp import web
    chunks = [letters(o, n) for o, n in r["chunks"]]
    api = r["api"]
    kind = r.get("kind", "bytes")
    psize, pwritten, pclass = -1, b"", ""
    err = ""
    if api == "stream-response":
        version = kit.HttpVersion10 if r.get("http10") else kit.HttpVersion11
        req, tr, _w = kit.server_req(method=r.get("method", "GET"), version=version)

        async def go() -> None:
            resp = web.StreamResponse(status=r.get("status", 200))
            if r.get("chunked"):
                resp.enable_chunked_encoding()
            if r.get("ulen", -1) >= 0:
                resp.content_length = r["ulen"]
            if r.get("z"):
                resp.enable_compression(web.ContentCoding(r["z"]))
            await resp.prepare(req)
            for k, c0 in enumerate(chunks):
                last = bool(r.get("eof_data")) and k == len(chunks) - 1
                c = as_form(c0, choose_form(len(c0), r.get("forms", -1) + k if r.get("forms", -1) >= 0 else -1,
                                            eof=last))[0]
                if r.get("eof_data") and k == len(chunks) - 1:
                    await resp.write_eof(c)
                else:
                    await resp.write(c)
                if r.get("drain") == k and not (r.get("eof_data") and k == len(chunks) - 1):
                    with warnings.catch_warnings():
                        warnings.simplefilter("ignore")
                        await resp.drain()
            await resp.write_eof()
        try:
            kit.run(go())
        except Exception as e:  # noqa: BLE001
            err = type(e).__name__
        bodyless = r.get("method") == "HEAD" or r.get("status", 200) in (204, 304)
        return msg_event(kind, "resp", bytes(tr.written), b"".join(chunks), ulen=r.get("ulen", -1), z=r.get("z", ""),
                         bodyless=bodyless, recipe=r, err=err)
    if api == "response":
        req, tr, _w = kit.server_req(method=r.get("method", "GET"))
        pre = r.get("pre") or []
        if kind not in ("bytes", "bytearray") or pre:
            psize, pwritten, pclass = standalone(kit, kind, chunks, pre)
        obj, entity = make_payload(kit, kind, chunks)
        if entity is None or "append" in pre:
            entity = pwritten
        if pre:
            obj = payload_of(obj)
            apply_pre(kit, obj, pre)

        async def go2() -> None:
            from aiohttp import FormData
            body = obj() if isinstance(obj, FormData) else obj
            if kind == "str" and not pre:
                resp = web.Response(text=body, status=r.get("status", 200))
            else:
                resp = web.Response(body=body, status=r.get("status", 200))
            if r.get("chunked"):
                resp.enable_chunked_encoding()
            if r.get("z"):
                resp.enable_compression(web.ContentCoding(r["z"]))
            await resp.prepare(req)
            await resp.write_eof()
        try:
            kit.run(go2())
        except Exception as e:  # noqa: BLE001
            err = type(e).__name__
        kit.loop.run_until_idle()
        bodyless = r.get("method") == "HEAD" or r.get("status", 200) in (204, 304)
        return msg_event(kind, "resp", bytes(tr.written), entity, z=r.get("z", ""), bodyless=bodyless,
                         psize=psize, pwritten=pwritten, recipe=r, err=err, pclass=pclass)
    if api == "client":
        pre = r.get("pre") or []
        first = r.get("first")
        if kind == "none":                       # only as the replacement body of update_body(None)
            obj, entity = None, b""
        else:
            psize, pwritten, pclass = standalone(kit, kind, chunks, pre)
            obj, entity = make_payload(kit, kind, chunks)
            if entity is None or ("append" in pre and kind in MULTIPART_KINDS):
                entity = pwritten
            if pre:
                obj = payload_of(obj)
                apply_pre(kit, obj, pre)
        headers = kit.CIMultiDict()
        if r.get("ulen", -1) >= 0:
            headers["Content-Length"] = str(r["ulen"])
        box: List[Any] = []
        z = r.get("z", "")
        try:
            if first is None:
                req = kit.client_req(r.get("method", "POST"), data=obj, headers=headers,
                                     chunked=r.get("chunked_arg"), compress=z or False)
            else:
                # the body is replaced after construction (ClientRequest.update_body, the documented
                # way for client middlewares): the request was built for another body
                fobj = None
                if first["kind"] != "none":
                    fobj = make_payload(kit, first["kind"], [letters(o, n) for o, n in first["chunks"]])[0]
                req = kit.client_req(r.get("method", "POST"), data=fobj, headers=headers,
                                     chunked=r.get("chunked_arg"), compress=z or False)
                kit.run(req.update_body(obj))
                kit.loop.run_until_idle()
            grow = r.get("grow", 0)
            if grow:
                # the underlying file / buffer grows between the declaration (request built) and the write
                more = bytes(65 + (k % 26) for k in range(grow))
                if kind == "bytesio":
                    pos = obj.tell()
                    obj.seek(0, 2)
                    obj.write(more)
                    obj.seek(pos)
                else:
                    with open(obj.name, "ab") as f:
                        f.write(more)
            kit.run(kit.client_send(req, box))
        except Exception as e:  # noqa: BLE001
            err = type(e).__name__
        kit.loop.run_until_idle()
        wire = bytes(box[0].written) if box else b""
        if first is not None:
            # whether the replacement body is coded is the request's decision: read it off the head it sent
            low = wire.partition(b"\r\n\r\n")[0].lower()
            z = "deflate" if b"\r\ncontent-encoding: deflate" in low else \
                "gzip" if b"\r\ncontent-encoding: gzip" in low else ""
        return msg_event(kind, "req", wire, entity, ulen=r.get("ulen", -1), z=z, psize=psize,
                         pwritten=pwritten, recipe=r, err=err, pclass=pclass)
    raise MachineryError(f"unknown api {api}")


def chunks_of_calls(calls: List[Tuple[str, int, bool]]) -> Tuple[List[Tuple[int, int]], bool]:
    """Data chunks (offset, size) of a call sequence and whether the last one came with write_eof."""
    out: List[Tuple[int, int]] = []
    off = 0
    eof_data = False
    for op, n, _big in calls:
        if op in ("write", "write_eof"):
            if op == "write_eof" and out and n == 0:
                break
            out.append((off, n))
            off += n
            if op == "write_eof":
                eof_data = n > 0
                break
    return out, eof_data


def recipes_from_calls(mode: dict, calls: List[Tuple[str, int, bool]], rng: Any, k: int) -> List[dict]:
    chunks, eof_data = chunks_of_calls(calls)
    nonempty = [c for c in chunks if c[1] > 0] or [(0, 0)]
    out: List[dict] = []
    ulen = mode["length"] if not mode["chunked"] and not mode["compress"] else -1
    out.append({"api": "stream-response", "chunks": chunks, "eof_data": eof_data, "chunked": mode["chunked"],
                "ulen": ulen, "z": "deflate" if mode["compress"] else "",
                "http10": (k % 7 == 3) and not mode["chunked"],
                "drain": 0 if any(op == "drain" for op, _n, _b in calls) and chunks else -1,
                "forms": k if k % 2 else -1})
    kind = PAYLOAD_KINDS[k % len(PAYLOAD_KINDS)]
    if kind in ("str", "stringio", "textio", "textio-crlf", "formdata-urlencoded", "json", "multipart", "formdata"):
        pchunks = nonempty
    else:
        pchunks = chunks
    pre = pre_steps(kind, k // len(PAYLOAD_KINDS))
    out.append({"api": "response", "kind": kind if kind != "asyncgen" else "bytes", "chunks": pchunks,
                "chunked": mode["chunked"], "z": ("deflate", "gzip")[k % 2] if mode["compress"] else "",
                "pre": pre if kind != "asyncgen" else []})
    carg = [None, True, False][k % 3] if not mode["compress"] else None
    culen = mode["length"] if (carg is None and not mode["compress"] and mode["length"] >= 0 and k % 2 == 0
                               and kind not in NO_LENGTH_LIMIT) else -1
    rec = {"api": "client", "kind": kind, "chunks": pchunks, "chunked_arg": carg, "ulen": culen,
           "z": "deflate" if mode["compress"] else "", "pre": pre}
    if k % 4 == 1 and culen < 0:
        rec["first"] = FIRST_BODIES[(k // 4) % len(FIRST_BODIES)]
    elif k % 4 == 3 and kind in GROWABLE and carg is None and not mode["compress"] and culen < 0:
        rec["grow"] = 1 + k % 5
    out.append(rec)
    return out


def pre_steps(kind: str, j: int) -> List[str]:
    """Rotating preparatory histories of a payload object (see apply_pre)."""
    opts: List[List[str]] = [[], ["size", "mutate"], ["size"]]
    if kind in REUSABLE:
        opts += [["send"], ["send", "mutate"]]
    if kind in MULTIPART_KINDS:
        opts += [["size", "append"], ["send", "append", "size", "mutate"]]
    return opts[j % len(opts)]


FIRST_BODIES = [{"kind": "none", "chunks": []}, {"kind": "bytes", "chunks": [(7, 4)]},
                {"kind": "asyncgen", "chunks": [(7, 2), (9, 2)]}]
GROWABLE = ("file", "textio", "bytesio")


def fixed_recipes() -> List[dict]:
    """Every payload class at least once in every framing the client / server can choose."""
    out: List[dict] = []
    ch = [(0, 3), (3, 0), (3, 2)]
    for kind in PAYLOAD_KINDS:
        pc = [c for c in ch if c[1] > 0] if kind != "memoryview-items" else [(0, 6), (6, 2)]
        # the payload object has a history before it is sent: size read, sent once, header changed, part appended
        for j in range(1, 7):
            pre = pre_steps(kind, j)
            if pre and pre not in [r.get("pre") for r in out if r.get("kind") == kind]:
                out.append({"api": "client", "kind": kind, "chunks": pc, "chunked_arg": None, "ulen": -1, "z": "",
                            "pre": pre})
                if kind != "asyncgen":
                    out.append({"api": "response", "kind": kind, "chunks": pc, "chunked": False, "z": "",
                                "pre": pre})
        # body replaced after construction; the request was built without a body, for a sized one, for an unsized one
        for fi, first in enumerate(FIRST_BODIES):
            for z in ("", "deflate"):
                out.append({"api": "client", "kind": kind, "chunks": pc, "chunked_arg": (None, None, True, False)[(fi + len(out)) % 4]
                            if not z else None, "ulen": -1, "z": z, "first": first})
        # the file / buffer grows between building the request (Content-Length declared) and writing the body
        if kind in GROWABLE:
            for base in (pc, [(0, 0)]):
                out.append({"api": "client", "kind": kind, "chunks": base, "chunked_arg": None, "ulen": -1, "z": "",
                            "grow": 4})
        for carg in (None, True, False):
            out.append({"api": "client", "kind": kind, "chunks": pc, "chunked_arg": carg, "ulen": -1, "z": ""})
        out.append({"api": "client", "kind": kind, "chunks": pc, "chunked_arg": None, "ulen": -1, "z": "deflate"})
        if kind not in NO_LENGTH_LIMIT:
            total = sum(n for _o, n in pc)
            for ulen in (0, 1, 2, total, total + 3):       # a cap of exactly 0, inside, exact, beyond
                out.append({"api": "client", "kind": kind, "chunks": pc, "chunked_arg": None, "ulen": ulen, "z": ""})
        if kind != "asyncgen":
            out.append({"api": "response", "kind": kind, "chunks": pc, "chunked": False, "z": ""})
            out.append({"api": "response", "kind": kind, "chunks": pc, "chunked": True, "z": ""})
            out.append({"api": "response", "kind": kind, "chunks": pc, "chunked": False, "z": "gzip"})
            out.append({"api": "response", "kind": kind, "chunks": pc, "chunked": False, "z": "", "method": "HEAD"})
    for first in FIRST_BODIES[1:]:
        for z in ("", "deflate"):
            out.append({"api": "client", "kind": "none", "chunks": [], "chunked_arg": None, "ulen": -1, "z": z,
                        "first": first})
    for method, status in (("HEAD", 200), ("GET", 204), ("GET", 304), ("GET", 200)):
        for eof_data in (False, True):
            out.append({"api": "stream-response", "chunks": ch, "eof_data": eof_data, "chunked": False, "ulen": -1,
                        "z": "", "method": method, "status": status})
    for ulen in (0, 2, 5, 9):
        for eof_data in (False, True):
            out.append({"api": "stream-response", "chunks": ch, "eof_data": eof_data, "chunked": False, "ulen": ulen,
                        "z": ""})
    for forms in range(7):                         # first chunk 8 bytes: every buffer form applies
        for chunked in (False, True):
            out.append({"api": "stream-response", "chunks": [(0, 8), (8, 4), (12, 2)], "eof_data": forms % 2 == 0,
                        "chunked": chunked, "ulen": -1, "z": "", "forms": forms})
    return out


# ================================================================== judging
KEEP = {"ser": ("ev", "out", "wire", "sup", "enc", "line", "pre", "post", "nfields", "body", "pos", "cls", "tbl",
                "unit", "psize"),
        "msg": ("ev", "pclass", "role", "wire", "data", "ulen", "z", "inflated", "zlen", "bodyless", "psize",
                "pwritten", "err"),
        "op": ("ev", "op", "data", "big", "wlen", "nwr", "err", "blocked", "inflated", "zlen")}


def strip_for_tlc(t: dict) -> dict:
    """Copy of a trace with only the fields the trace spec reads."""
    return {"cfg": t["cfg"], "src": t["src"],
            "events": [{k: e[k] for k in KEEP[e["ev"]]} for e in t["events"]]}


def signature_of(t: dict, v: Any) -> str:
    ev = t["events"][min(v.pos, len(t["events"]) - 1)]
    if v.clause in NAMED_DEVIATIONS:
        # one signature per named deviation and entry point, so that each gets its own replay file
        where = {"ser": "MultipartWriter.write", "op": "StreamWriter"}.get(ev["ev"]) or ev.get("recipe", {}).get("api", "?")
        return f"{v.clause} via {where}: {NAMED_DEVIATIONS[v.clause]}"
    if ev["ev"] == "ser":
        return (f"{v.clause} in {ev['scen']} ({ev['place']}) with classes "
                f"{'+'.join(sorted(set(G.classes_of(ev['orig']))))}")
    if ev["ev"] == "msg":
        r = ev.get("recipe", {})
        bits = [r.get("api", "?"), "kind=" + ev["kind"]]
        for k in ("chunked_arg", "chunked", "ulen", "z", "method", "status", "eof_data", "pre", "grow"):
            if k in r and r[k] not in (None, "", -1, False):
                bits.append(f"{k}={r[k]}")
            elif k == "chunked_arg" and k in r and r[k] is False:
                bits.append("chunked_arg=False")
            elif k == "ulen" and r.get(k) == 0:
                bits.append("ulen=0")
        if r.get("first"):
            bits.append("update_body after " + r["first"]["kind"])
        return f"{v.clause} " + " ".join(bits)
    c = t["cfg"]
    return (f"{v.clause} on StreamWriter.{ev['op']}({ev.get('form', 'bytes')}) chunked={c['chunked']} "
            f"length={c['length']} compress={c['compress']}")


_pool: Optional[ThreadPoolExecutor] = None
_pending: List[Tuple[Any, List[dict], str]] = []


def pool() -> ThreadPoolExecutor:
    global _pool
    if _pool is None:
        _pool = ThreadPoolExecutor(max_workers=12)
    return _pool


def judge(ctx: Ctx, traces: List[dict], label: str) -> None:
    """Hand a batch to TLC in the background (the harness goes on driving the code); settle() collects."""
    if not traces:
        return
    fut = pool().submit(validate_batch, "HttpWriterTrace", "HttpWriterTrace.cfg", [strip_for_tlc(t) for t in traces],
                        timeout=ctx.pick(1500, 3600), env=TLC_ENV)
    _pending.append((fut, traces, label))


def settle(ctx: Ctx) -> None:
    while _pending:
        fut, traces, label = _pending.pop(0)
        verdicts, res = fut.result()
        if res.violated:
            raise MachineryError(f"reference invariant {res.violated} failed during trace validation ({label}):\n"
                                 + "\n".join(res.output.splitlines()[-30:]))
        ctx.add_trace_batch(len(traces), res)
        for t, v in zip(traces, verdicts):
            for d in (v.info or []):
                ctx.drift(d[1])
            ev0 = t["events"][0] if t["events"] else {}
            if ev0.get("ev") == "ser":
                ctx.distinct.add(("ser", ev0["scen"], ev0["place"], ev0["out"],
                                  tuple(sorted(set(G.classes_of(ev0["orig"])))), ev0["enc"]))
            elif ev0.get("ev") == "msg":
                ctx.distinct.add(("msg", json.dumps(ev0.get("recipe", {}), sort_keys=True)))
            else:
                ctx.distinct.add(("ops", json.dumps([t["cfg"]["chunked"], t["cfg"]["length"], t["cfg"]["compress"]]
                                                    + [[e["op"], len(e["data"]), e["big"]] for e in t["events"]])))
            if not v.ok:
                ctx.violation(v.clause, signature_of(t, v),
                              {"trace": t, "failed_at": v.pos, "label": label,
                               "what": NAMED_DEVIATIONS.get(v.clause, "")}, "trace")


def sample_of(t: dict) -> dict:
    e = t["events"][0]
    if e["ev"] == "ser":
        return {"kind": "ser", "scenario": e["scen"], "supplied": e["sup"][:8], "outcome": e["out"], "exc": e["exc"],
                "wire": bytes(e["wire"][:120]).decode("latin-1")}
    if e["ev"] == "msg":
        return {"kind": "msg", "recipe": e["recipe"], "wire": bytes(e["wire"][:160]).decode("latin-1"),
                "payload_size": e["psize"], "payload_written": len(e["pwritten"])}
    return {"kind": "ops", "mode": {k: t["cfg"][k] for k in ("chunked", "length", "compress")},
            "calls": [[x["op"], len(x["data"]), x["big"], x["wlen"]] for x in t["events"]],
            "wire": bytes(t["cfg"]["wire"][:120]).decode("latin-1")}


# ================================================================== configs
SER_CFG = """SPECIFICATION SpecA
CONSTANTS
  MaxLen = {maxlen}
  MutA = "{mut}"
INVARIANT InvTodayAllowed
INVARIANT InvDecisive
INVARIANT InvInjectionVisible
INVARIANT InvRoundTrip
CHECK_DEADLOCK FALSE
"""

OPS_CFG = """SPECIFICATION SpecB
CONSTANTS
  MaxOps = {maxops}
  MaxSize = {maxsize}
  Lengths = {lengths}
  MutB = "{mut}"
INVARIANT InvHdrOnceFirst
INVARIANT InvChunkedDecodes
INVARIANT InvLengthRespected
INVARIANT InvCompressComplete
INVARIANT InvEofFramed
INVARIANT InvDeclaredEqualsActual
INVARIANT InvNoEmptyChunk
VIEW ViewB
CHECK_DEADLOCK FALSE
"""

_cfg_dir: Optional[str] = None


def write_cfg(name: str, text: str) -> str:
    global _cfg_dir
    if _cfg_dir is None or not os.path.isdir(_cfg_dir):
        _cfg_dir = mktemp("c04cfg")
    p = os.path.join(_cfg_dir, name)
    with open(p, "w") as f:
        f.write(text)
    return p


def ser_cfg(maxlen: int, mut: str = "") -> str:
    return write_cfg(f"ser_{maxlen}_{mut or 'ok'}.cfg", SER_CFG.format(maxlen=maxlen, mut=mut))


def ops_cfg(maxops: int, maxsize: int, lengths: Sequence[int], mut: str = "") -> str:
    ls = "{" + ", ".join(str(x) for x in lengths) + "}"
    return write_cfg(f"ops_{maxops}_{maxsize}_{len(lengths)}_{mut or 'ok'}.cfg",
                     OPS_CFG.format(maxops=maxops, maxsize=maxsize, lengths=ls, mut=mut))


# raw positions that get every one of the 0x110000 code points in the thorough tier (one per distinct
# validation site); the others (same validation code reached through another path, and the positions
# that percent-/quote-encode, where code points >= 0x100 are all treated alike) get the whole BMP + a
# seeded sample of the astral planes
PRIMARY = {"client.target", "client.target-encoded", "client.header-name", "client.header-value",
           "server.reason", "server.set_cookie-path", "multipart.part-header-value"}

# positions guarded by a white-list (token characters only): every other code point is refused alone, so a
# block never passes; the thorough tier walks 0x800..0x1FFF singly there and samples the rest
WHITELISTS = {"client.method", "client.cookie-name", "server.set_cookie-name", "client.multipart-boundary"}

FAST_PATHS = ["WriteCoalesced", "WriteEofCoalesced", "WriteEofCoalescedZ", "SetEofCoalesced"]


# ===================================================================== run
def ser_trace(ev: dict, src: str) -> dict:
    return {"cfg": {"kind": "ser"}, "src": src, "events": [ev]}


def msg_trace(ev: dict, src: str) -> dict:
    return {"cfg": {"kind": "msg"}, "src": src, "events": [ev]}


class Acc:
    """Collects traces and hands them to TLC in large batches (JVM start-up dominates small ones)."""

    def __init__(self, ctx: Ctx, label: str, limit: int = 3000) -> None:
        self.ctx, self.label, self.limit, self.buf = ctx, label, limit, []

    def add(self, t: dict) -> None:
        self.buf.append(t)
        if len(self.buf) >= self.limit:
            self.flush()

    def flush(self) -> None:
        if self.buf:
            judge(self.ctx, self.buf, self.label)
            self.buf = []


def start_models(ctx: Ctx) -> Dict[str, Any]:
    """All TLC model runs of this check are independent of the harness: start them now, use them later."""
    mo, ms, ls = ctx.pick((6, 1, (0, 1, 2)), (7, 2, (0, 1, 3)))
    smo, sms = ctx.pick((8, 3), (10, 3))
    p = pool()
    return {
        "ser_model": p.submit(run_tlc, "HttpWriterSerMC", ser_cfg(3), workers=16, timeout=ctx.pick(900, 2400),
                              deadlock=False),
        "ser_cover": p.submit(cover_behaviours, "HttpWriterSerMC", ser_cfg(ctx.pick(2, 3)),
                              timeout=ctx.pick(900, 2400), workers=4),
        "ops_model": p.submit(run_tlc, "HttpWriterMC", ops_cfg(mo, ms, ls), workers=16, timeout=ctx.pick(900, 3000),
                              deadlock=False, coverage=True),
        "ops_model_name": f"HttpWriterMC(MaxOps={mo},MaxSize={ms},Lengths={list(ls)})",
        "ops_cover": p.submit(cover_behaviours, "HttpWriterMC", ops_cfg(4, 1, (0, 1)), timeout=900, workers=4),
        "ops_sim": p.submit(simulate_behaviours, "HttpWriterMC", ops_cfg(smo, sms, (0, 1, 2, 3, 5)),
                            num=ctx.pick(300, 3000), depth=smo + 1, seed=ctx.seed, timeout=900),
        "sim_maxsize": sms,
    }


def is_edge(cp: int) -> bool:
    """Code points that line-oriented code may treat as a terminator or as white space: they are also
    tried as the FIRST and as the LAST character of a token (anchors such as `$`, strip(), splitlines())."""
    return cp <= 0x20 or 0x7F <= cp <= 0xA0 or cp in (0x1680, 0x2028, 0x2029, 0x3000, 0xFEFF) or 0x2000 <= cp <= 0x200B


def run_part_a(ctx: Ctx, kit: Kit, scen: List[Scenario], pre: Dict[str, Any]) -> None:
    # ---- 1. spec -> code: every (position, placement, class string) TLC lists, in every scenario
    #         bound to that position
    behs, res2 = pre["ser_cover"].result()
    triples = set()
    for beh in behs:
        for _label, st in beh:
            triples.add((st["pos"], st["place"], tuple(st["str"])))
    by_pos: Dict[str, List[Scenario]] = {}
    for sc in scen:
        if sc.pos:
            by_pos.setdefault(sc.pos, []).append(sc)
    # the abstract position "target" is bound to the two URL scenarios (no refinement table: yarl decides)
    by_pos["target"] = [s for s in scen if s.special == "target"]
    acc = Acc(ctx, "serialisation")
    nrun = 0
    for pos, place, cls in sorted(triples):
        for sc in by_pos.get(pos, []):
            if place not in sc.places or (not cls and (sc.whole or place == "whole")):
                continue
            variants = G.concretise(cls, ctx.rng, ctx.pick(0, 2))
            for k, cps in enumerate(variants):
                ev = sc.event(kit, cps, tbl=(k == 0), place=place)
                if ev is None:
                    continue
                t = ser_trace(ev, "tlc-cover")
                if nrun % 997 == 5:
                    ctx.sample(sample_of(t), cap=2)
                acc.add(t)
                nrun += 1
    ctx.log(f"class strings: {len(triples)} (position, placement, string) triples from TLC, {nrun} executions")
    ctx.extra["class_string_triples"] = len(triples)
    ctx.extra["placements_not_expressible"] = {sc.name: [p for p, t in sc.tmpl.items() if t is None]
                                               for sc in scen if any(t is None for t in sc.tmpl.values())}
    # ---- 2. every code point in every scenario.  Alone below `single_below` (edge code points also
    #         first and last in their token); the rest in blocks of consecutive code points: an emitted
    #         block is judged as one string (the line must equal the encoding of all its members), a
    #         refused block is split until every refused code point has been refused alone with zero
    #         bytes written.
    single_below = ctx.pick(0x100, 0x800)
    extra = [c for c in G.single_code_points(ctx.quick, ctx.rng, sample=ctx.pick(24, 2048)) if c >= 0x800]
    full = [(0x800, 0xD7FF), (0xD800, 0xDFFF), (0xE000, 0x10FFFF)]
    bmp = [(0x800, 0xD7FF), (0xD800, 0xDFFF), (0xE000, 0xFFFF)]
    counts: Dict[str, Dict[str, int]] = {}
    nblocks = nedge = 0
    for sc in scen:
        c = counts.setdefault(sc.name, {"emitted": 0, "refused": 0})
        for cp in list(range(single_below)) + extra:
            ev = sc.event(kit, [cp], tbl=False)
            c[ev["out"]] += 1
            acc.add(ser_trace(ev, "sweep"))
            if sc.ctx is not None and (is_edge(cp) or not ctx.quick):
                for place in ("start", "end"):
                    ev = sc.event(kit, [cp], tbl=False, place=place)
                    if ev is not None:
                        acc.add(ser_trace(ev, "sweep-edge"))
                        nedge += 1
        ranges = ctx.pick([(single_below, 0x2FF if sc.name in WHITELISTS else 0x7FF)],
                          full if sc.name in PRIMARY else [(0x800, 0x1FFF)] if sc.name in WHITELISTS else bmp)
        # the decoders of the encoded positions recurse per byte and copy: keep their lines short
        bsize = 16 if sc.enc != "raw" else ctx.pick(64, 128)
        for lo, hi in ranges:
            for blk in G.blocks(lo, hi, bsize):
                stack = [blk]
                while stack:
                    b = stack.pop()
                    ev = sc.event(kit, b, tbl=False)
                    if ev["out"] == "refused" and len(b) > 1:
                        mid = len(b) // 2
                        stack += [b[mid:], b[:mid]]
                        if not ev["wire"]:
                            continue          # nothing written: the halves decide
                    else:
                        c[ev["out"]] += len(b)
                    acc.add(ser_trace(ev, "blocks"))
                    nblocks += 1
    ctx.log(f"code points: {single_below}+{len(extra)} alone (+{nedge} first/last placements), {nblocks} block "
            f"executions, over {len(scen)} scenarios")
    ctx.extra["code_point_outcomes_per_scenario"] = counts
    # ---- 3. random hostile strings, random placement
    for cps in G.random_strings(ctx.rng, ctx.pick(60, 1500)):
        for sc in scen:
            if sc.whole and not cps:
                continue
            ev = sc.event(kit, cps, tbl=False, place=ctx.rng.choice(sc.places))
            if ev is not None and (cps or ev["place"] != "whole"):
                acc.add(ser_trace(ev, "random"))
    acc.flush()


def run_part_b(ctx: Ctx, kit: Kit, pre: Dict[str, Any]) -> None:
    # ---- 1. bounded model of the call sequences
    res = pre["ops_model"].result()
    ctx.expect_model_ok(pre["ops_model_name"], res)
    for name, (_d, total) in res.coverage.items():
        if name in LABEL_OPS:
            ctx.action_cover[name] = total
    missing = [a for a in FAST_PATHS if ctx.action_cover.get(a, 0) == 0]
    if missing:
        ctx.notes.append(f"vacuity warning: header-coalescing paths never taken in the model: {missing}")
    ctx.log(f"WriterOps model: {res.distinct} states, ok={res.ok}, {res.wall_s:.0f}s; fast paths "
            + ", ".join(f"{a}={ctx.action_cover.get(a, 0)}" for a in FAST_PATHS))
    # ---- 2. spec -> code: transition cover of the small graph + simulated longer sequences
    cms = 1
    behs, _r = pre["ops_cover"].result()
    seqs: List[Tuple[dict, List[Tuple[str, int, bool]], str]] = []
    for beh in behs:
        mode, calls = behaviour_calls(beh, cms)
        seqs.append((mode, calls, "tlc-cover"))
    ncover = len(seqs)
    sms = pre["sim_maxsize"]
    sims, _r2 = pre["ops_sim"].result()
    for beh in sims:
        mode, calls = behaviour_calls(beh, sms)
        seqs.append((mode, calls, "tlc-sim"))
    for _ in range(ctx.pick(800, 15000)):
        mode, calls = random_calls(ctx.rng)
        seqs.append((mode, calls, "random"))
    ctx.log(f"call sequences: {ncover} transition-cover paths, {len(sims)} simulated, {len(seqs) - ncover - len(sims)} random")
    # every transition-cover path once with bytes and once with rotating buffer forms (bytearray, byte and
    # multi-byte-item / 2-D memoryviews); simulated and random sequences with a seeded mix
    traces = []
    for k, (mode, calls, src) in enumerate(seqs):
        if src == "tlc-cover":
            traces.append(replay_ops(kit, mode, calls, src))
            if any(op in ("write", "write_eof") and n > 0 for op, n, _b in calls):
                traces.append(replay_ops(kit, mode, calls, src + "-forms", salt=k))
        else:
            traces.append(replay_ops(kit, mode, calls, src, salt=ctx.rng.randint(0, 6) if k % 3 else -1))
    ctx.sample(sample_of(traces[min(len(traces) - 1, 17)]))
    for k in range(0, len(traces), 1500):
        judge(ctx, traces[k:k + 1500], "stream-writer-ops")
    # python-side refinement note: a call that awaits drain() blocks while the transport is paused
    # ---- 3. complete messages through the public API, every payload class
    recipes = fixed_recipes()
    stride = ctx.pick(6, 2)
    used = 0
    for k, (mode, calls, _src) in enumerate(seqs):
        if k % stride == 0:
            if any(op in ("write", "write_eof") for op, _n, _b in calls):
                recipes += recipes_from_calls(mode, calls, ctx.rng, used)   # `used` rotates kinds and histories
                used += 1
    traces = []
    sizes: Dict[str, Dict[str, int]] = {}
    for r in recipes:
        ev = run_recipe(kit, r)
        if ev["psize"] >= 0 or ev["pwritten"]:
            d = sizes.setdefault(ev["kind"], {"runs": 0, "size_none": 0, "size_equal_written": 0, "size_differs": 0})
            d["runs"] += 1
            if ev["psize"] < 0:
                d["size_none"] += 1
            elif ev["psize"] == len(ev["pwritten"]):
                d["size_equal_written"] += 1
            else:
                d["size_differs"] += 1
        traces.append(msg_trace(ev, "recipe"))
    ctx.extra["payload_size_vs_written"] = sizes
    ctx.log(f"complete messages: {len(traces)} (payload size vs written: "
            + ", ".join(f"{k}:{v['size_differs']}/{v['runs']} differ" for k, v in sorted(sizes.items())) + ")")
    ctx.sample(sample_of(traces[3]))
    for k in range(0, len(traces), 1000):
        judge(ctx, traces[k:k + 1000], "messages")


def run(ctx: Ctx) -> None:
    ctx.rule = ("executions = (a) one real serialisation per (scenario, supplied string): every class string TLC "
                "lists, every code point alone, random hostile strings; (b) TLC-generated and random call sequences "
                "on a real StreamWriter, and complete messages through web.StreamResponse / web.Response / "
                "ClientRequest with every Payload class; distinct = different (scenario, outcome, class set, "
                "encoding) / call sequence / recipe")
    ctx.assumptions = [
        "pure-Python _py_serialize_headers only (the C _http_writer is not built in this tree)",
        "one caller at a time on a StreamWriter; write()/write_headers() after eof and a second write_headers() "
        "are outside the documented API and not issued",
        "set_eof() is not issued after data went through a compressor (it does not flush; documented as 'no body')",
        "write() gets bytes, bytearray and memoryviews of item size 1/2/4/8 and 2-D casts (all C-contiguous: "
        "transports reject others); write_eof() is documented for bytes and only gets buffers whose len() is their "
        "byte count",
        "yarl decides the request-target: the supplied target is url.raw_path_qs; only CR/LF freedom and equality "
        "of the emitted line with it are judged",
        "zlib is a black box: the harness inflates the de-framed body once, TLA+ compares the result with the data",
        "request/response heads in part (b) carry harmless header values",
        "multipart / FormData entity = what the payload writes standalone (codec correctness is C19); an "
        "application-declared Content-Length shorter than a multipart body is not driven (MultipartWriter keeps the "
        "documented write_with_length fall-back that ignores the limit)",
    ]
    warnings.simplefilter("ignore")
    kit = Kit()
    try:
        scen = build_scenarios()
        for sc in scen:
            sc.template(kit)
        ctx.extra["scenarios"] = [s.name for s in scen]
        pre = start_models(ctx)
        run_part_a(ctx, kit, scen, pre)
        run_part_b(ctx, kit, pre)
        res = pre["ser_model"].result()
        ctx.expect_model_ok("HttpWriterSerMC(MaxLen=3)", res)
        ctx.log(f"SerializeRule model: {res.distinct} (position, placement, class string) states, ok={res.ok}, "
                f"{res.wall_s:.0f}s")
        settle(ctx)
        ctx.evaluations = ctx.traces
    finally:
        if _pool is not None:
            _pool.shutdown(wait=True, cancel_futures=True)
        kit.close()


# ================================================================ selftest
def selftest(ctx: Ctx) -> int:
    warnings.simplefilter("ignore")
    kit = Kit()
    ok = True
    try:
        scen = {s.name: s for s in build_scenarios()}
        # ---- (i) corrupted recordings must be rejected, the originals accepted
        good_ser = ser_trace(scen["client.header-value"].event(kit, [0x61, 0xE9], tbl=True), "selftest")
        refused = ser_trace(scen["client.header-value"].event(kit, [0x0D, 0x0A], tbl=True), "selftest")
        inj = copy.deepcopy(good_ser)          # what a serialiser without the CR/LF check would have written
        w = bytes(inj["events"][0]["wire"]).replace(b"va\xc3\xa9w", b"va\r\nX-Evil: 1\xc3\xa9w")
        inj["events"][0]["wire"] = list(w)
        inj["events"][0]["sup"] = [0x61, 0x0D, 0x0A] + [ord(c) for c in "X-Evil: 1"] + [0xE9]
        partial = copy.deepcopy(refused)
        partial["events"][0]["wire"] = list(b"GET / HTTP/1.1\r\n")
        barelf = copy.deepcopy(good_ser)
        barelf["events"][0]["wire"] = list(bytes(barelf["events"][0]["wire"]).replace(b"Host: h", b"Host: h\nQ: 1"))
        x = OpsExec(kit, True, -1, False)
        for op, n in (("write_headers", 0), ("write", 2), ("write", 0), ("write_eof", 3)):
            x.call(op, n)
        good_ops = x.trace("selftest")
        bad_ops1 = copy.deepcopy(good_ops)
        i = bytes(bad_ops1["cfg"]["wire"]).index(b"\r\n\r\n2\r\n") + 4
        bad_ops1["cfg"]["wire"][i] = ord("3")                      # corrupted chunk size
        bad_ops2 = copy.deepcopy(good_ops)
        del bad_ops2["events"][1]                                   # dropped write: data no longer accounted for
        bad_ops3 = copy.deepcopy(good_ops)
        bad_ops3["events"][2]["wlen"] += 5                          # as if an empty write had emitted 0 CRLF CRLF
        ww = bad_ops3["cfg"]["wire"]
        cut = good_ops["events"][2]["wlen"]
        bad_ops3["cfg"]["wire"] = ww[:cut] + list(b"0\r\n\r\n") + ww[cut:]
        bad_ops3["events"][3]["wlen"] += 5
        good_msg = msg_trace(run_recipe(kit, {"api": "client", "kind": "bytesio", "chunks": [(0, 3), (3, 2)],
                                              "chunked_arg": None, "ulen": -1, "z": ""}), "selftest")
        bad_msg = copy.deepcopy(good_msg)
        bad_msg["events"][0]["wire"] = list(bytes(bad_msg["events"][0]["wire"]).replace(b"Content-Length: 5",
                                                                                       b"Content-Length: 4"))
        bad_msg2 = copy.deepcopy(good_msg)
        bad_msg2["events"][0]["psize"] = 6
        batch = [good_ser, refused, inj, partial, barelf, good_ops, bad_ops1, bad_ops2, bad_ops3, good_msg, bad_msg,
                 bad_msg2]
        vs, _ = validate_batch("HttpWriterTrace", "HttpWriterTrace.cfg", [strip_for_tlc(t) for t in batch], env=TLC_ENV)
        got = [(v.ok, v.clause) for v in vs]
        print("trace verdicts:", got)
        want_ok = [True, True, False, False, False, True, False, False, False, True, False, False]
        if [g[0] for g in got] != want_ok:
            print("selftest: trace spec accepted a corrupted trace or rejected a good one")
            ok = False
        want_clause = {2: "CRLFEmitted", 3: "PartialWriteOnRefusal", 4: "BareCRorLFInLine", 8: "PrematureLastChunk",
                       10: "DeclaredLengthNotActual", 11: "PayloadSizeMismatch"}
        for k, c in want_clause.items():
            if got[k][1] != c:
                print(f"selftest: trace {k} expected clause {c}, got {got[k][1]}")
                ok = False
        # ---- (ii) spec-level mutants must be caught by TLC
        for mut in ("lf-only", "dollar-anchor", "size-chars"):
            r = run_tlc("HttpWriterSerMC", ser_cfg(2, mut), workers=4, timeout=600, deadlock=False)
            print(f"mutant SerializeRule {mut}:", r.violated)
            ok = ok and r.violated == "InvTodayAllowed"
        for mut, inv in (("eof-no-trunc", ("InvLengthRespected", "InvChunkedDecodes")),
                         ("empty-chunk", ("InvChunkedDecodes", "InvNoEmptyChunk")),
                         ("hdr-twice", ("InvHdrOnceFirst",)),
                         ("no-last", ("InvChunkedDecodes", "InvEofFramed"))):
            r = run_tlc("HttpWriterMC", ops_cfg(4, 1, (0, 1), mut), workers=4, timeout=600, deadlock=False)
            print(f"mutant WriterOps {mut}:", r.violated)
            ok = ok and r.violated in inv
        # ---- (iii) no vacuity: every action of the correct model is taken
        r = run_tlc("HttpWriterMC", ops_cfg(4, 1, (0, 1)), workers=4, timeout=600, deadlock=False, coverage=True)
        zero = [a for a in LABEL_OPS if r.coverage.get(a, (0, 0))[1] == 0]
        print("actions never taken:", zero, "ok:", r.ok)
        ok = ok and r.ok and not zero
    finally:
        kit.close()
    print("selftest", "passed" if ok else "FAILED")
    return 0 if ok else 2


# ================================================================== replay
def replay(ctx: Ctx, path: str) -> int:
    warnings.simplefilter("ignore")
    payload = json.load(open(path))
    if payload.get("source") == "model":
        print("replay: the counterexample is a behaviour of the bounded model; re-run ./check C04")
        return 1
    t = payload["detail"]["trace"]
    kit = Kit()
    try:
        ev0 = t["events"][0]
        if ev0["ev"] == "ser":
            sc = {s.name: s for s in build_scenarios()}[ev0["scen"]]
            cps = payload["detail"].get("supplied") or _supplied_of(ev0)
            new = ser_trace(sc.event(kit, cps, tbl=False, place=ev0.get("place")), "replay")
        elif ev0["ev"] == "msg":
            new = msg_trace(run_recipe(kit, ev0["recipe"]), "replay")
        else:
            c = t["cfg"]
            x = OpsExec(kit, c["chunked"], c["length"], c["compress"])
            for e in t["events"]:
                x.call(e["op"], len(e["data"]), bool(e["big"]), e.get("form", "bytes"))
            new = x.trace("replay")
        vs, _ = validate_batch("HttpWriterTrace", "HttpWriterTrace.cfg", [strip_for_tlc(new)], env=TLC_ENV)
        v = vs[0]
        print(f"replay: ok={v.ok} clause={v.clause!r} pos={v.pos}/{v.total}")
        print(json.dumps(sample_of(new))[:600])
        if not v.ok:
            print(f"VIOLATION property=C04 replay={path}")
            return 1
        return 0
    finally:
        kit.close()


def _supplied_of(ev: dict) -> List[int]:
    return list(ev["orig"]) if "orig" in ev else list(ev["sup"])
