"""C20 - application life cycle: cleanup runs exactly for what started; shutdown drains.

(A) spec/AppLifecycle.tla       sequential, implementation-shaped model of signals / cleanup contexts /
                                AppRunner / run_app; TLC enumerates every fault mask x entry point
    spec/AppLifecycleTrace.tla  judge of event logs of a real web.Application (+ add_subapp)
    Binding: EVERY initial state of the model (TLC dump) is replayed into a real application
    whose contexts / handlers are instrumented and raise per the mask, driven through AppRunner
    (+ UnixSite on a scratch socket) and through web.run_app (GracefulExit raised by a loop callback).
(B) spec/ServerShutdown.tla     runner shutdown sequence over 2-3 connections in all phases, virtual time
    spec/ServerShutdownTrace.tla judge of time-stamped event logs
    Binding: real AppRunner / web.Server / RequestHandler on engine.memnet transports under the
    stepping loop; TLC-enumerated placements replayed + seeded random placements.
"""
from __future__ import annotations

import asyncio
import contextlib
import copy
import json
import os
from typing import Any, Dict, List, Optional, Tuple

from engine.runner import Ctx
from engine.tlc import MachineryError, mktemp, parse_dot, require_clean, run_tlc, validate_batch

# ====================================================================================
# Part A - application life cycle
# ====================================================================================
DEVS = ["SetupInTry", "UnfrozenCleansSubs", "CleanupCollects", "ShutdownContained", "RunAppCatchesBase"]
# The code as it is: FALSE = the deviation is present in /repo.  When a fix is committed flip the constant here
# (the as-coded model run and the prediction used by the refinement clause follow); until then the check only
# reports DRIFT 'callback-order' for the fixed behaviour.  C20_FIXED=name,name overrides for experiments.
# All six deviations found on the original tree were repaired by `fix:` commits in /repo (see
# known_findings.json), so the code as it is now equals the ideal design.
_FIXED = {x for x in os.environ.get(
    "C20_FIXED", "SetupInTry,UnfrozenCleansSubs,CleanupCollects,ShutdownContained,RunAppCatchesBase,"
                 "CloseIdleAtOnce,CancelLostConnHandler"
).split(",") if x}
CODE_AS_IS = {d: d in _FIXED for d in DEVS}
DEV_CLAUSE = {
    "SetupInTry": "RunAppStartupFailureSkipsCleanup",
    "UnfrozenCleansSubs": "SubAppContextNotExitedAfterFailedStartup",
    "CleanupCollects": "CleanupErrorSkipsLaterExits",
    "ShutdownContained": "ShutdownHandlerErrorSkipsCleanup",
    "RunAppCatchesBase": "ExactlyOnceIffStarted",
}
BASE_MODES = ["cancel", "interrupt", "sysexit"]   # the three ways the driver realises a "base" start-up failure
A_CFG = """SPECIFICATION {spec}
CONSTANTS
  SetupInTry = {SetupInTry}
  UnfrozenCleansSubs = {UnfrozenCleansSubs}
  CleanupCollects = {CleanupCollects}
  ShutdownContained = {ShutdownContained}
  RunAppCatchesBase = {RunAppCatchesBase}
  MaxStartFaults = {msf}
  Entries = {entries}
  KindsAllowed = {kinds}
  Trees = {trees}
  ExtraTreeEntries = {xentries}
  ExtraTreeKinds = {xkinds}
{invs}"""
ALL_ENTRIES = ["Runner", "RunnerNoExplicitCleanup", "RunApp"]


# application trees of AppLifecycle.tla (constant Tree): contexts per app, sub-apps per app (in add order)
TREES: Dict[str, Dict[str, Any]] = {
    "one": {"ctx": {"R": ["r1", "r2"], "S": ["s1", "s2"]}, "subs": {"R": ["S"]}},
    "two": {"ctx": {"R": ["r1"], "S": ["s1"], "U": ["u1"]}, "subs": {"R": ["S", "U"]}},
    "nested": {"ctx": {"R": ["r1"], "S": ["s1"], "U": ["u1"]}, "subs": {"R": ["S"], "S": ["U"]}},
}
BOTH_KINDS = ["exc", "base"]


def a_cfg(name: str, devs: Dict[str, bool], msf: int, invs: List[str], spec: str = "Spec",
          entries: Optional[List[str]] = None, kinds: Optional[List[str]] = None,
          trees: Optional[List[str]] = None, xentries: Optional[List[str]] = None,
          xkinds: Optional[List[str]] = None) -> str:
    d = mktemp("c20a")
    p = os.path.join(d, f"AppLifecycle_{name}.cfg")
    kw = {k: str(devs.get(k, True)).upper() for k in DEVS}
    with open(p, "w") as f:
        ents = "{" + ", ".join(f'"{e}"' for e in (entries or ALL_ENTRIES)) + "}"
        sset = lambda xs: "{" + ", ".join(f'"{x}"' for x in xs) + "}"      # noqa: E731
        f.write(A_CFG.format(spec=spec, msf=msf, entries=ents, kinds=sset(kinds or BOTH_KINDS),
                             trees=sset(trees or ["one"]), xentries=sset(xentries or entries or ALL_ENTRIES),
                             xkinds=sset(xkinds or kinds or BOTH_KINDS),
                             invs="".join(f"INVARIANT {i}\n" for i in invs), **kw))
    return p


class Boom(RuntimeError):
    pass




def build_app(init: dict, log: List[dict], kind: int, mode: str = "cancel", interrupt: Any = None) -> Any:
    """Real Application tree R(r1, r2) + add_subapp S(s1, s2) with instrumented callbacks.

    A failing step raises Boom (kind "exc") or, for kind "base", a BaseException that is not an Exception:
      start-up steps, mode "cancel"    the step raises asyncio.CancelledError itself
                      mode "interrupt" the step suspends inside its start-up code and interrupt() makes the
                                       outside world cancel the main task (run_app: GracefulExit arrives)
                      mode "sysexit"   the step raises a SystemExit subclass (web.GracefulExit)
      shutdown / cleanup steps         the step raises asyncio.CancelledError
    """
    from aiohttp import web

    fail_start, fail_shut, fail_clean = set(init["failStart"]), set(init["failShut"]), set(init["failClean"])
    start_kind, clean_kind = init.get("startKind", "exc"), init.get("cleanKind", "exc")

    def ev(k: str, n: str, x: str = "") -> None:
        log.append({"ev": k, "n": n, "k": x})

    async def fail_startup(fail_ev: str, name: str) -> None:
        if start_kind == "exc":
            ev(fail_ev, name, "exc")
            raise Boom("start-up " + name)
        if mode == "sysexit":
            ev(fail_ev, name, "base")
            raise web.GracefulExit()
        if mode == "interrupt" and interrupt is not None:
            try:
                interrupt()                       # ... arrives while this step is suspended
                await asyncio.Event().wait()
            finally:
                ev(fail_ev, name, "base")
            raise MachineryError("interrupted start-up step was resumed normally")
        ev(fail_ev, name, "base")
        raise asyncio.CancelledError()

    def fail_teardown(fail_ev: str, name: str) -> None:
        ev(fail_ev, name, clean_kind)
        if clean_kind == "exc":
            raise Boom("teardown " + name)
        raise asyncio.CancelledError()

    async def enter(name: str) -> None:
        ev("enter_begin", name)
        if name in fail_start:
            await fail_startup("enter_fail", name)
        ev("enter_done", name)

    async def leave(name: str) -> None:
        ev("exit_begin", name)
        if name in fail_clean:
            fail_teardown("exit_fail", name)
        ev("exit_done", name)

    def mkctx(name: str, k: int) -> Any:
        if k == 0:        # plain async generator function (wrapped by CleanupContext itself)
            async def agen(app: Any) -> Any:
                await enter(name)
                yield
                await leave(name)
            return agen
        if k == 1:        # already an asynccontextmanager
            @contextlib.asynccontextmanager
            async def acm(app: Any) -> Any:
                await enter(name)
                yield
                await leave(name)
            return acm

        class CM(contextlib.AbstractAsyncContextManager):   # hand-written context manager
            def __init__(self, app: Any) -> None:
                self.app = app

            async def __aenter__(self) -> None:
                await asyncio.sleep(0)
                await enter(name)

            async def __aexit__(self, *exc: Any) -> None:
                await asyncio.sleep(0)
                await leave(name)
        return CM

    def handler(name: str, fails: set) -> Any:
        async def h(app: Any) -> None:
            ev("call", name)
            if name in fails:
                if name.endswith("su"):
                    await fail_startup("call_fail", name)
                fail_teardown("call_fail", name)
        return h

    tree = TREES[init.get("tree", "one")]
    seq = [0]

    def make(a: str) -> Any:
        app = web.Application()
        for n in tree["ctx"][a]:
            app.cleanup_ctx.append(mkctx(n, (kind + seq[0]) % 3))
            seq[0] += 1
        app.on_startup.append(handler(a + "su", fail_start))
        app.on_shutdown.append(handler(a + "sh", fail_shut))
        app.on_cleanup.append(handler(a + "cl", fail_clean))
        for sub in tree["subs"].get(a, []):          # a sub-app is complete (incl. its own sub-apps) when added
            app.add_subapp("/" + sub.lower(), make(sub))
        return app

    return make("R")


class LifeDriver:
    """Runs one initial state of AppLifecycle against the real code on real asyncio loops."""

    def __init__(self) -> None:
        self.dir = mktemp("c20sock")
        self.good = os.path.join(self.dir, "s.sock")
        self.bad = os.path.join(self.dir, "missing-dir", "s.sock")
        self.loop: Optional[asyncio.AbstractEventLoop] = None

    def close(self) -> None:
        if self.loop is not None:
            self.loop.close()
            self.loop = None
        asyncio.set_event_loop(None)

    def run(self, init: dict, kind: int, with_site: bool, mode: str = "cancel") -> dict:
        log: List[dict] = []
        if init["entry"] == "RunApp":
            self._run_app(init, log, kind, mode)
        else:
            if self.loop is None:
                self.loop = asyncio.new_event_loop()
            loop = self.loop
            holder: Dict[str, Any] = {}
            app = build_app(init, log, kind, mode, lambda: loop.call_soon(holder["task"].cancel))
            holder["task"] = loop.create_task(self._runner(app, init, log, with_site))
            loop.run_until_complete(holder["task"])
        log.append({"ev": "end", "n": "", "k": ""})
        cfg = {"entry": init["entry"], "failStart": sorted(init["failStart"]), "failShut": sorted(init["failShut"]),
               "failClean": sorted(init["failClean"]), "siteFails": bool(init["siteFails"]),
               "startKind": init.get("startKind", "exc"), "cleanKind": init.get("cleanKind", "exc"),
               "tree": init.get("tree", "one")}
        return {"cfg": cfg, "src": "tlc-init", "kind": kind, "with_site": bool(with_site), "mode": mode, "events": log}

    async def _runner(self, app: Any, init: dict, log: List[dict], with_site: bool) -> None:
        from aiohttp import web

        def ev(k: str, n: str) -> None:
            log.append({"ev": k, "n": n, "k": ""})

        def absorb() -> None:           # the caller handles the cancellation / exit request and goes on
            task = asyncio.current_task()
            while task is not None and task.cancelling():
                task.uncancel()

        runner = web.AppRunner(app, shutdown_timeout=1.0)
        explicit = init["entry"] == "Runner"
        ok = True
        try:
            await runner.setup()
            ev("setup", "ok")
        except BaseException:  # noqa: BLE001  (Exception, CancelledError, GracefulExit)
            absorb()
            ev("setup", "raised")
            ok = False
            if not explicit:
                return      # `await runner.setup()` sits before the caller's try/finally
        if ok and (with_site or init["siteFails"]):
            try:
                site = web.UnixSite(runner, self.bad if init["siteFails"] else self.good)
                await site.start()
                ev("site", "ok")
            except Exception:  # noqa: BLE001
                ev("site", "raised")
        ev("cleanup_call", "")
        try:
            await runner.cleanup()
            ev("cleanup", "ok")
        except BaseException:  # noqa: BLE001
            absorb()
            ev("cleanup", "raised")

    def _run_app(self, init: dict, log: List[dict], kind: int, mode: str) -> None:
        from aiohttp import web

        loop = asyncio.new_event_loop()

        def graceful_exit() -> None:
            raise web.GracefulExit()

        def on_running(*_a: Any) -> None:      # run_app's `print`: all sites are started
            log.append({"ev": "running", "n": "", "k": ""})
            loop.call_soon(graceful_exit)      # what the SIGINT/SIGTERM handler does

        # a stop signal during start-up: GracefulExit leaves the loop, run_app cancels the main task
        app = build_app(init, log, kind, mode, lambda: loop.call_soon(graceful_exit))
        try:
            web.run_app(app, path=self.bad if init["siteFails"] else self.good, print=on_running, loop=loop,
                        handle_signals=False, shutdown_timeout=1.0, access_log=None)
            log.append({"ev": "result", "n": "ok", "k": ""})
        except BaseException as exc:  # noqa: BLE001
            if isinstance(exc, (KeyboardInterrupt, MachineryError)):
                raise
            log.append({"ev": "result", "n": "raised", "k": ""})
        finally:
            if not loop.is_closed():
                loop.close()
            asyncio.set_event_loop(None)


def a_enumerate_inits(ctx: Ctx, msf: int, **space: Any) -> List[dict]:
    cfg = a_cfg("inits", {k: False for k in DEVS}, msf, [], spec="SpecInitOnly", **space)
    dot = os.path.join(mktemp("c20dot"), "inits.dot")
    res = run_tlc("AppLifecycle", cfg, workers=1, deadlock=False, dump_dot=dot, timeout=300)
    require_clean(res, "AppLifecycle initial states")
    nodes, _edges, inits = parse_dot(dot)
    out = []
    for i in sorted(inits):
        st = nodes[i].get("s")
        if not isinstance(st, dict):
            raise MachineryError(f"cannot parse initial state {nodes[i]!r}")
        out.append({"entry": str(st["entry"]), "failStart": sorted(map(str, st["failStart"])),
                    "failShut": sorted(map(str, st["failShut"])), "failClean": sorted(map(str, st["failClean"])),
                    "siteFails": bool(st["siteFails"]), "startKind": str(st["startKind"]),
                    "cleanKind": str(st["cleanKind"]), "tree": str(st["tree"])})
    out.sort(key=lambda d: json.dumps(d, sort_keys=True))
    if len(out) != res.distinct or not out:
        raise MachineryError(f"initial-state dump incomplete: {len(out)} parsed, TLC found {res.distinct}")
    return out


def a_weight(t: dict) -> tuple:
    c = t["cfg"]
    return (len(c["failStart"]) + len(c["failShut"]) + len(c["failClean"]) + int(c["siteFails"]),
            {"Runner": 0, "RunApp": 1}.get(c["entry"], 2),
            sum(1 for k in ("failStart", "failClean") for n in c[k] if n[0].isupper()),   # contexts before handlers
            json.dumps(c, sort_keys=True))


def a_describe(t: dict) -> str:
    c = t["cfg"]
    ent = [e["n"] for e in t["events"] if e["ev"] == "enter_done"]
    ext = [e["n"] for e in t["events"] if e["ev"] == "exit_begin"]
    parts = [f"entry={c['entry']}"] + ([f"tree={c['tree']}"] if c.get("tree", "one") != "one" else [])
    for k in ("failStart", "failShut", "failClean"):
        if c[k]:
            parts.append(f"{k}={','.join(c[k])}")
    if c["siteFails"]:
        parts.append("siteFails")
    if c.get("startKind", "exc") != "exc":
        parts.append(f"start-up step ends with a BaseException ({t.get('mode', '?')})")
    if c.get("cleanKind", "exc") != "exc":
        parts.append("teardown steps raise CancelledError")
    parts.append(f"entered={','.join(ent) or '-'} exited={','.join(ext) or '-'}")
    return " ".join(parts)


def a_validate(traces: List[dict]) -> tuple:
    # spec/AppLifecycleTrace.cfg with the constants of CODE_AS_IS (identical unless a fix was declared)
    cfg = a_cfg("trace", CODE_AS_IS, 1, [], spec="TSpec", trees=list(TREES))
    with open(cfg, "a") as f:
        f.write("POSTCONDITION PrintVerdicts\nCHECK_DEADLOCK FALSE\n")
    return validate_batch("AppLifecycleTrace", cfg, traces, timeout=900)


def a_model_counterexample(ctx: Ctx, dev: str) -> Optional[dict]:
    """The ideal design with only this deviation switched on: TLC exhibits the counterexample."""
    full = ["ExactlyOnceIffStarted", "NeverExitUnstarted", "ReverseOrder", "ErrorsSurface"]
    res = run_tlc("AppLifecycle", a_cfg("dev_" + dev, {dev: False}, 1, full,
                                        entries=["RunApp"] if dev in ("SetupInTry", "RunAppCatchesBase") else ["Runner"]),
                  workers=16, timeout=300)
    require_clean(res, f"AppLifecycle[{dev}=FALSE]")
    ctx.add_model(f"AppLifecycle[only {dev}=FALSE]", res, exhaustive=False)
    if not res.violated:
        ctx.notes.append(f"A: deviation constant {dev}=FALSE no longer violates the model invariants")
        return None
    last = res.trace[-1][1].get("s", {}) if res.trace else {}
    return {"violated": res.violated, "deviation": dev,
            "final": {k: last.get(k) for k in ("entry", "failStart", "failShut", "failClean", "siteFails",
                                               "entered", "exited", "log")}}


def a_judge(ctx: Ctx, traces: List[dict]) -> Dict[str, int]:
    """TLC judges every event log; violations are grouped per (clause, entry) with a minimal example."""
    counts: Dict[str, int] = {}
    groups: Dict[str, List[dict]] = {}
    notes: Dict[str, int] = {}
    for k in range(0, len(traces), 10000):
        chunk = traces[k:k + 10000]
        verdicts, res = a_validate(chunk)
        ctx.add_trace_batch(len(chunk), res)
        for t, v in zip(chunk, verdicts):
            ctx.distinct.add(hash(json.dumps([t["cfg"], [(e["ev"], e["n"]) for e in t["events"]]], sort_keys=True)))
            info = v.info if isinstance(v.info, list) and len(v.info) == 2 else ["", ""]
            if info[0]:
                notes[info[0]] = notes.get(info[0], 0) + 1
            if info[1]:
                ctx.drift("AppLifecycle:" + info[1])
            if not v.ok:
                clause = v.clause or "TraceNotConsumed"
                counts[clause] = counts.get(clause, 0) + 1
                groups.setdefault(clause, []).append(t)
    for clause, ts in sorted(groups.items()):
        t = min(ts, key=a_weight)
        per_entry: Dict[str, int] = {}
        for x in ts:
            per_entry[x["cfg"]["entry"]] = per_entry.get(x["cfg"]["entry"], 0) + 1
        detail = {"trace": t, "occurrences": len(ts), "occurrences_per_entry": per_entry, "part": "A"}
        dev = [d for d, c in DEV_CLAUSE.items() if c == clause]
        if dev:      # a named deviation was observed: let TLC exhibit it in the model as well
            cex = a_model_counterexample(ctx, dev[0])
            if cex:
                detail["model_counterexample"] = cex
        ctx.violation(clause, f"{clause}: {a_describe(t)} [entries affected: {','.join(sorted(per_entry))}]",
                      detail, "trace")
    for n, k in sorted(notes.items()):
        ctx.notes.append(f"A: {n}: {k} execution(s) - setup() raised and the caller (not the library) never called "
                         f"cleanup(); contexts stay open; a reading of the runner docs, not reported as a violation")
    return counts


def run_part_a(ctx: Ctx) -> None:
    full = ["ExactlyOnceIffStarted", "NeverExitUnstarted", "ReverseOrder", "ErrorsSurface"]
    same = all(CODE_AS_IS.values())       # every deviation repaired: the code as it is equals the ideal design
    # the space of initial states: tree "one" with every entry and kind; the trees with two sibling sub-apps
    # and with a sub-sub-app through the Runner entry with ordinary exceptions (quick) / everything (thorough)
    msf = ctx.pick(1, 2)
    space: Dict[str, Any] = dict(entries=ALL_ENTRIES, kinds=BOTH_KINDS, trees=list(TREES),
                                 xentries=ctx.pick(["Runner"], ALL_ENTRIES), xkinds=ctx.pick(["exc"], BOTH_KINDS))
    tag = (f"trees={'/'.join(space['trees'])}, start faults<={msf}, 3 entries x 2 kinds on tree one, "
           f"{'/'.join(space['xentries'])} x {'/'.join(space['xkinds'])} on the others")
    drv = LifeDriver()
    traces: List[dict] = []
    try:
        # 1. the ideal design: every invariant, every fault mask x entry x tree
        if not same:
            res = run_tlc("AppLifecycle", a_cfg("ideal", {}, msf, full, **space), workers=16, timeout=ctx.pick(400, 3000))
            ok = ctx.expect_model_ok(f"AppLifecycle[ideal]({tag})", res)
            ctx.log(f"A model[ideal] {tag}: {res.distinct} states ok={ok} {res.wall_s:.0f}s")
        # 2. the code as it is: everything that goes wrong is one of the named deviations
        invs = full if same else ["AsCodedExplained", "NeverExitUnstarted", "ReverseOrder", "ErrorsSurface"]
        label = "ideal = as-coded" if same else "as-coded"
        res = run_tlc("AppLifecycle", a_cfg("ascoded", CODE_AS_IS, msf, invs, **space), workers=16,
                      timeout=ctx.pick(400, 3000), coverage=True)
        ok = ctx.expect_model_ok(f"AppLifecycle[{label}]({tag})", res)
        ctx.log(f"A model[{label}] {tag}: {res.distinct} states ok={ok} {res.wall_s:.0f}s")
        for act, (_d, tot) in sorted(res.coverage.items()):
            if act in ("EntryPoint", "Propagate", "SignalSend", "CtxStartup", "CtxCleanup", "RunnerSetup", "RunnerCleanup"):
                ctx.action_cover["A:" + act] = tot
                if tot == 0:
                    ctx.notes.append(f"vacuity: action {act} never taken in AppLifecycle[{label}]")
        # 3. spec -> code -> spec: every initial state is replayed into the real application;
        #    a named deviation that shows up is also exhibited by TLC in the model (a_model_counterexample)
        inits = a_enumerate_inits(ctx, msf, **space)
        ninit = len(inits)
        for i, init in enumerate(inits):
            kinds = [i % 3] if ctx.quick else [0, 1, 2]
            modes = ["cancel"] if init["startKind"] == "exc" else \
                ([BASE_MODES[(i // 3) % 3]] if ctx.quick else BASE_MODES)
            for kind in kinds:
                for mode in modes:
                    traces.append(drv.run(init, kind, with_site=(i + kind) % 2 == 0, mode=mode))
    finally:
        drv.close()
    ctx.log(f"A replayed {ninit} initial states -> {len(traces)} executions of the real Application")
    counts = a_judge(ctx, traces)
    ctx.extra["A_initial_states"] = ninit
    ctx.extra["A_executions"] = len(traces)
    ctx.extra["A_clause_counts"] = counts
    ctx.log(f"A verdicts: {counts or 'all accepted'}")
    if traces:
        t0 = traces[len(traces) // 2]
        ctx.sample({"part": "A", "cfg": t0["cfg"], "events": [[e["ev"], e["n"]] for e in t0["events"]]})


# ====================================================================================
# Part B - graceful shutdown over several connections (stepping loop, virtual time)
# ====================================================================================
SCALE = 4                       # trace time unit = 1/4 virtual second
WS_CLOSE_REPLY = b"\x88\x82\x00\x00\x00\x00\x03\xe8"      # masked close frame, code 1000
WS_UPGRADE = ("Upgrade: websocket\r\nConnection: Upgrade\r\nSec-WebSocket-Key: dGhlIHNhbXBsZSBub25jZQ==\r\n"
              "Sec-WebSocket-Version: 13\r\n")


class ShutExec:
    """One shutdown scenario against a real AppRunner / web.Server on in-memory transports."""

    def __init__(self, loop: Any, scen: dict) -> None:
        from aiohttp import web
        from aiohttp.web_runner import BaseSite
        from engine.memnet import MemTransport

        self.loop = loop
        self.scen = scen
        self.events: List[dict] = []
        self.trs: Dict[str, Any] = {}
        self.release = False
        self.ended = False
        self.base = loop.time()
        self.wss: Dict[str, Any] = {}
        self.incidents: List[str] = []
        ex = self

        class RecTransport(MemTransport):
            def close(self) -> None:  # noqa: D102
                if not self.closing:
                    ex.ev("closed", self.name)
                super().close()

        class MemSite(BaseSite):
            listening = False

            @property
            def name(self) -> str:
                return "mem://site"

            async def start(self) -> None:
                await super().start()
                self.listening = True

            async def stop(self) -> None:
                self.listening = False
                ex.ev("site_stop")
                await super().stop()

        self.RecTransport = RecTransport

        async def h_sleep(request: Any) -> Any:
            c, d = request.query["c"], request.query["d"]
            ex.ev("handler_start", c)
            end = None if d == "inf" else ex.loop.time() + float(d)
            try:
                if end is None:
                    await asyncio.Event().wait()
                else:
                    await asyncio.sleep(float(d))
            except asyncio.CancelledError:
                ex.ev("handler_cancel", c)
                if request.query.get("stub") != "1":
                    raise
                # swallows cancellation: goes on until its own deadline (never ends if it has none)
                while not ex.release and (end is None or ex.loop.time() < end):
                    try:
                        if end is None:
                            await asyncio.Event().wait()
                        else:
                            await asyncio.sleep(max(0.0, end - ex.loop.time()))
                    except asyncio.CancelledError:
                        pass
                if ex.release:
                    raise
            ex.ev("handler_end", c)
            return web.Response(text="ok")

        async def h_stream(request: Any) -> Any:
            c, d = request.query["c"], request.query["d"]
            ex.ev("handler_start", c)
            resp = web.StreamResponse()
            await resp.prepare(request)
            await resp.write(b"part1")
            try:
                if d == "inf":
                    await asyncio.Event().wait()
                else:
                    await asyncio.sleep(float(d))
            except asyncio.CancelledError:
                ex.ev("handler_cancel", c)
                raise
            try:
                await resp.write(b"part2")
                await resp.write_eof()
            except Exception:  # noqa: BLE001  (client disconnected)
                ex.ev("handler_abort", c)
                raise
            ex.ev("handler_end", c)
            return resp

        async def h_body(request: Any) -> Any:
            c = request.query["c"]
            ex.ev("handler_start", c)
            try:
                await request.read()
            except asyncio.CancelledError:
                ex.ev("handler_cancel", c)
                raise
            except Exception:  # noqa: BLE001  (e.g. ConnectionResetError after the peer went away)
                ex.ev("handler_abort", c)
                raise
            ex.ev("handler_end", c)
            return web.Response(text="ok")

        async def h_ws(request: Any) -> Any:
            c = request.query["c"]
            ex.ev("handler_start", c)
            ws = web.WebSocketResponse(timeout=float(scen["WsT"]))
            await ws.prepare(request)
            ex.wss[c] = ws
            try:
                async for _msg in ws:
                    pass
            except asyncio.CancelledError:
                ex.ev("handler_cancel", c)
                raise
            except Exception:  # noqa: BLE001
                ex.ev("handler_abort", c)
                raise
            finally:
                ex.wss.pop(c, None)
            ex.ev("handler_end", c)
            return ws

        async def on_shutdown(app: Any) -> None:
            ex.ev("on_shutdown_begin", open=ex.open_conns(), n=int(ex.site.listening))
            if scen["D"]:
                await asyncio.sleep(float(scen["D"]))
            if scen["appCloses"]:
                for c in sorted(ex.wss):
                    ws = ex.wss.get(c)
                    if ws is not None:
                        await ws.close(code=1001, message=b"shutdown")
            ex.ev("on_shutdown_end", open=ex.open_conns())

        async def on_cleanup(app: Any) -> None:
            ex.ev("on_cleanup", open=ex.open_conns())
            if scen.get("tail"):
                await asyncio.sleep(float(scen["tail"]))

        def recorded(fn: Any) -> Any:
            async def h(request: Any) -> Any:
                try:
                    return await fn(request)
                except asyncio.CancelledError:
                    raise
                except Exception:  # noqa: BLE001  the handler left by an exception of its own
                    if not any(e["ev"] == "handler_abort" and e["c"] == request.query["c"] for e in ex.events[-3:]):
                        ex.ev("handler_abort", request.query["c"])
                    raise
            return h

        app = web.Application()
        app.router.add_get("/h", recorded(h_sleep))
        app.router.add_get("/s", recorded(h_stream))
        app.router.add_post("/b", recorded(h_body))
        app.router.add_get("/ws", recorded(h_ws))
        app.on_shutdown.append(on_shutdown)
        app.on_cleanup.append(on_cleanup)
        self.runner = web.AppRunner(app, shutdown_timeout=float(scen["T"]), access_log=None,
                                    keepalive_timeout=3600.0)
        loop.run_coro(self.runner.setup())
        self.server = self.runner.server
        self.site = MemSite(self.runner)
        loop.run_coro(self.site.start())

    # ---- recording
    def ev(self, kind: str, c: str = "", open: Optional[List[str]] = None, n: int = 0) -> None:  # noqa: A002
        if self.ended:
            return
        self.events.append({"ev": kind, "c": c, "t": int(round((self.loop.time() - self.base) * SCALE)),
                            "open": open or [], "n": n})

    def open_conns(self) -> List[str]:
        return sorted(n for n, tr in self.trs.items() if not tr.closing)

    # ---- the peer
    def connect(self, c: str) -> None:
        if not self.site.listening:
            raise MachineryError("harness tried to connect while no site is listening")
        proto = self.server()
        tr = self.RecTransport(self.loop, proto, name=c)
        self.trs[c] = tr
        spec = self.scen["conns"][c]
        if spec["kind"] == "ws" and spec.get("reply"):
            def on_write(data: bytes, tr: Any = tr) -> None:
                if data[:1] == b"\x88" and not tr.closing:
                    self.loop.call_soon(tr.feed, WS_CLOSE_REPLY)
            tr.on_write = on_write
        proto.connection_made(tr)
        self.ev("connect", c)

    def feed(self, c: str, data: bytes, complete: bool) -> None:
        self.trs[c].feed(data)
        self.ev("deliver", c, n=int(complete))

    @staticmethod
    def dstr(d: Any) -> str:
        return "inf" if d is None else repr(float(d))

    def req(self, path: str, extra: str = "", method: str = "GET") -> bytes:
        return f"{method} {path} HTTP/1.1\r\nHost: x\r\n{extra}\r\n".encode()

    def first_bytes(self, c: str) -> None:
        """Bring connection c into its phase (called at its start time)."""
        s = self.scen["conns"][c]
        k = s["kind"]
        if k == "idle":
            self.feed(c, self.req(f"/h?c={c}&d=0.0"), True)           # answered at once: keep-alive idle
        elif k == "partial":
            self.feed(c, self.req(f"/h?c={c}&d={self.dstr(s.get('lateDur', 1))}")[:-9], False)
        elif k == "sleep":
            stub = "&stub=1" if s.get("stub") else ""
            self.feed(c, self.req(f"/h?c={c}&d={self.dstr(s['rem'])}{stub}"), True)
        elif k == "stream":
            self.feed(c, self.req(f"/s?c={c}&d={self.dstr(s['rem'])}"), True)
        elif k == "body":
            self.feed(c, self.req(f"/b?c={c}", "Content-Length: 10\r\n", "POST") + b"abc", True)
        elif k == "ws":
            self.feed(c, self.req(f"/ws?c={c}", WS_UPGRADE), True)
        else:
            raise MachineryError(f"unknown connection kind {k}")
        if s.get("pipeline"):
            self.feed(c, self.req(f"/h?c={c}&d=0.0"), True)

    def late_bytes(self, c: str) -> None:
        s = self.scen["conns"][c]
        if self.trs[c].closing:
            self.ev("deliver", c, n=0)               # the peer sees a closed connection: nothing arrives
            return
        if s["kind"] == "idle":
            self.feed(c, self.req(f"/h?c={c}&d={self.dstr(s.get('lateDur', 1))}"), True)
        elif s["kind"] == "partial":
            self.feed(c, self.req(f"/h?c={c}&d={self.dstr(s.get('lateDur', 1))}")[-9:], True)
        elif s["kind"] in ("sleep", "stream"):      # another request on the same keep-alive connection
            self.feed(c, self.req(f"/h?c={c}&d={self.dstr(s.get('lateDur', 1))}"), True)

    # ---- the scenario
    def run(self) -> dict:
        loop, scen = self.loop, self.scen
        t0 = self.base + float(scen.get("t0", 0))
        todo: List[Tuple[float, int, str, str]] = []          # (time, order, what, conn)
        for i, (c, s) in enumerate(sorted(scen["conns"].items())):
            todo.append((self.base + float(s.get("startAt", 0)), i, "start", c))
            if s.get("dAt") is not None:
                todo.append((t0 + float(s["dAt"]), 100 + i, "late", c))
            if s.get("dropAt") is not None:
                todo.append((t0 + float(s["dropAt"]), 200 + i, "drop", c))
        todo.sort()
        task = None
        guard = 0
        while True:
            guard += 1
            if guard > 10000:
                raise MachineryError("shutdown scenario does not make progress")
            now = loop.time()
            # stimuli due now (before anything else runs at this instant)
            due = [x for x in todo if x[0] <= now and not (x[2] == "late" and x[0] == t0 and task is None)]
            for x in due:
                todo.remove(x)
                _t, _o, what, c = x
                if what == "start":
                    self.connect(c)
                    self.first_bytes(c)
                elif what == "late":
                    self.late_bytes(c)
                elif what == "drop" and not self.trs[c].closing:
                    self.ev("peer_drop", c)
                    self.trs[c].drop(ConnectionResetError("peer"))
            loop.run_until_idle()
            if task is None and loop.time() >= t0:
                self.ev("cleanup_call")
                task = loop.create_task(self.runner.cleanup())
                loop.step_one()                    # site.stop() ... up to `await asyncio.sleep(0)`
                for x in [x for x in todo if x[2] == "late" and x[0] == t0]:
                    todo.remove(x)                 # arrives between the yield and pre_shutdown()
                    self.late_bytes(x[3])
                loop.run_until_idle()
            if task is not None and task.done():
                break
            nxt = [x[0] for x in todo]
            if task is None:
                nxt.append(t0)
            nt = loop.next_timer()
            if nt is not None:
                nxt.append(nt)
            if not nxt:
                break
            target = min(nxt)
            if target > loop.time() + 10000:
                break
            loop.advance(limit=max(target, loop.time()))
        if task is None or not task.done():
            self.ev("stuck")
        else:
            exc = task.exception()
            if exc is not None:
                self.incidents.append(f"cleanup raised {type(exc).__name__}")
            self.ev("cleanup_return", open=self.open_conns(), n=len(self.server.connections))
        loop.run_until_idle()
        for c, tr in sorted(self.trs.items()):
            w = bytes(tr.written)
            self.ev("final", c, n=w.count(b"\r\n\r\nok") + w.count(b"part2\r\n0\r\n\r\n"))
        self.ev("end")
        self.ended = True
        for cx in loop.exc_contexts:
            self.incidents.append("loop exception handler: " + str(cx.get("message")))
        self.teardown(task)
        kinds = {c: s["kind"] for c, s in scen["conns"].items()}
        T = float(scen["T"])
        cfg = {"T": int(round(T * SCALE)), "scale": SCALE, "tail": int(round(float(scen.get("tail", 0)) * SCALE)),
               "ceil": int(T > 5), "kinds": kinds}
        return {"cfg": cfg, "src": scen.get("src", ""), "scen": scen, "events": self.events}

    def teardown(self, task: Any) -> None:
        loop = self.loop
        self.release = True
        for _ in range(3):
            for t in asyncio.all_tasks(loop):
                if not t.done():
                    t.cancel()
            loop.run_until_idle()
        for tr in self.trs.values():
            if not tr.closed:
                tr.drop(None)
        loop.run_until_idle()
        for t in asyncio.all_tasks(loop):
            if t.done() and not t.cancelled():
                t.exception()
        loop._scheduled.clear()
        loop.exc_contexts.clear()


B_CFG = """SPECIFICATION {spec}
CONSTANTS
  Conns = {conns}
  T = 2
  MaxD = 2
  WsT = 1
  Durs = {durs}
  Inf = 99
  DeliverTimes = {dts}
  MaxTime = 14
  CloseIdleAtOnce = {CloseIdleAtOnce}
  CancelLostConnHandler = {CancelLostConnHandler}
  PreShutdownCloses = {PreShutdownCloses}
  PreShutdownMarksActive = {PreShutdownMarksActive}
  GraceWait = {GraceWait}
  SecondWait = {SecondWait}
{invs}"""
B_INVS = ["NoNewRequests", "ClosedOnCompletion", "IdleClosedAtOnce", "GraceRespected", "CancelledBy2T", "AllClosedAtReturn", "Terminates"]
B_FLAGS = ["CloseIdleAtOnce", "CancelLostConnHandler", "PreShutdownCloses", "PreShutdownMarksActive", "GraceWait", "SecondWait"]
B_DEVS = {"CloseIdleAtOnce": ("IdleClosedAtOnce", "IdleClosedByServerShutdown", "IdleOpenDuringOnShutdown"),
          "CancelLostConnHandler": ("CancelledBy2T", "CancelledBy2TExceptLost", "LostConnHandlerSurvivesShutdown")}
B_ASCODED = {"CloseIdleAtOnce": "CloseIdleAtOnce" in _FIXED, "CancelLostConnHandler": "CancelLostConnHandler" in _FIXED}


def b_cfg(name: str, nconn: int, durs: List[int], dts: List[int], flags: Dict[str, bool], invs: List[str],
          spec: str = "Spec") -> str:
    d = mktemp("c20b")
    p = os.path.join(d, f"ServerShutdown_{name}.cfg")
    kw = {k: str(flags.get(k, True)).upper() for k in B_FLAGS}
    with open(p, "w") as f:
        f.write(B_CFG.format(spec=spec, conns="{" + ", ".join(f'"c{i + 1}"' for i in range(nconn)) + "}",
                             durs="{" + ", ".join(map(str, durs)) + "}", dts="{" + ", ".join(map(str, dts)) + "}",
                             invs="".join(f"INVARIANT {i}\n" for i in invs), **kw))
    return p


def b_enumerate_scenarios(nconn: int, durs: List[int], dts: List[int]) -> List[dict]:
    cfg = b_cfg("inits", nconn, durs, dts, B_ASCODED, [], spec="SpecInitOnly")
    dot = os.path.join(mktemp("c20dot"), "binits.dot")
    res = run_tlc("ServerShutdown", cfg, workers=1, deadlock=False, dump_dot=dot, timeout=600)
    require_clean(res, "ServerShutdown initial states")
    nodes, _e, inits = parse_dot(dot)
    out = []
    for i in sorted(inits):
        st = nodes[i]
        if "conn" not in st or "g" not in st:
            raise MachineryError(f"cannot parse ServerShutdown initial state {st!r}")
        conns = {}
        for c, r in st["conn"].items():
            conns[str(c)] = {"kind": str(r["kind"]), "rem": None if r["rem"] == 99 else int(r["rem"]),
                             "stub": bool(r["stub"]), "reply": bool(r["reply"]),
                             "dAt": None if r["dAt"] == 1000 else int(r["dAt"])}
            if conns[str(c)]["kind"] == "lost":      # a sleeping handler whose peer went away before t0
                conns[str(c)].update(kind="sleep", dropAt=0)
        out.append({"T": 2, "D": int(st["g"]["D"]), "appCloses": bool(st["g"]["appCloses"]), "WsT": 1,
                    "conns": conns, "src": "tlc-init"})
    out.sort(key=lambda d: json.dumps(d, sort_keys=True))
    if len(out) != res.distinct or not out:
        raise MachineryError(f"ServerShutdown initial-state dump incomplete: {len(out)} of {res.distinct}")
    return out


def b_random_scenario(rng: Any) -> dict:
    q = lambda lo, hi: rng.randint(int(lo * SCALE), int(hi * SCALE)) / SCALE        # noqa: E731
    T = rng.choice([1, 2, 2, 3, 1.5, 6])
    t0 = q(0, 3)
    conns = {}
    for i in range(rng.randint(1, 4)):
        kind = rng.choice(["idle", "partial", "sleep", "sleep", "stream", "body", "ws"])
        s: Dict[str, Any] = {"kind": kind, "rem": None, "stub": False, "reply": False, "dAt": None,
                             "startAt": q(0, t0)}
        if kind in ("sleep", "stream"):
            s["rem"] = None if rng.random() < 0.25 else q(0, 3 * T + 2)
            s["stub"] = kind == "sleep" and rng.random() < (0.5 if s["rem"] is None else 0.25)
            s["pipeline"] = rng.random() < 0.15
        if (kind in ("idle", "partial") and rng.random() < 0.7) or (kind == "sleep" and rng.random() < 0.4):
            s["dAt"] = q(0, 2 * T + 2)
            s["lateDur"] = q(0, 2)
        if kind == "ws":
            s["reply"] = rng.random() < 0.5
        if rng.random() < 0.12:
            s["dropAt"] = q(0, 2 * T + 1)
        conns[f"c{i + 1}"] = s
    D = rng.choice([0, 0, 0.5, 1, 2, 3])
    for s in conns.values():      # cleanup() racing handler completion: the handler returns exactly when cleanup()
        if s["kind"] in ("sleep", "stream") and s["rem"] is not None and rng.random() < 0.3:   # is called / at t1+T / t1+2T
            s["rem"] = (t0 - s["startAt"]) + rng.choice([0, D, D + T, D + 2 * T])
    return {"T": T, "D": D, "appCloses": rng.random() < 0.6, "WsT": rng.choice([0.5, 1]),
            "tail": rng.choice([0, 0, 1]), "t0": t0, "conns": conns, "src": "random"}


def b_describe(t: dict) -> str:
    s = t["scen"]
    parts = []
    for c, x in sorted(s["conns"].items()):
        d = x["kind"]
        if x["kind"] in ("sleep", "stream"):
            d += f"(rem={'inf' if x['rem'] is None else x['rem']}{',stubborn' if x.get('stub') else ''})"
        if x.get("dAt") is not None:
            d += f"(request at t0+{x['dAt']})"
        if x["kind"] == "ws":
            d += f"(peer {'answers' if x.get('reply') else 'ignores'} close)"
        if x.get("dropAt") is not None:
            d += f"(peer drops at t0+{x['dropAt']})"
        parts.append(f"{c}={d}")
    return f"T={s['T']} on_shutdown={s['D']}s appClosesWs={s['appCloses']} " + " ".join(parts)


def b_weight(t: dict) -> tuple:
    s = t["scen"]
    frills = sum(1 for x in s["conns"].values() for k in ("stub", "pipeline", "dropAt", "dAt") if x.get(k))
    return (len(s["conns"]), frills, 0 if t["src"] == "tlc-init" else 1, len(t["events"]), json.dumps(s, sort_keys=True))


def b_judge(ctx: Ctx, traces: List[dict], label: str, counts: Dict[str, int], groups: Dict[str, List[dict]]) -> None:
    if not traces:
        return
    slim = [{"cfg": t["cfg"], "src": t["src"], "events": t["events"]} for t in traces]   # (scen holds nulls)
    verdicts, res = validate_batch("ServerShutdownTrace", "ServerShutdownTrace.cfg", slim, timeout=900)
    ctx.add_trace_batch(len(traces), res)
    for t, v in zip(traces, verdicts):
        ctx.distinct.add(hash(json.dumps([t["cfg"], [(e["ev"], e["c"], e["t"]) for e in t["events"]]], sort_keys=True)))
        if not v.ok:
            clause = v.clause or "TraceNotConsumed"
            named = [str(x) for x in v.info] if isinstance(v.info, list) else []
            t["failed_at"] = v.pos
            for cl in (sorted(set(named)) if clause in named else [clause]):
                counts[cl] = counts.get(cl, 0) + 1
                groups.setdefault(cl, []).append(t)


def b_model_counterexample(ctx: Ctx, dev: str, model: tuple) -> Optional[dict]:
    nconn, durs, dts = model
    res = run_tlc("ServerShutdown", b_cfg("dev_" + dev, nconn, durs, dts, {dev: False}, B_INVS), workers=16, timeout=300)
    require_clean(res, f"ServerShutdown[{dev}=FALSE]")
    ctx.add_model(f"ServerShutdown[only {dev}=FALSE]", res, exhaustive=False)
    if not res.violated:
        ctx.notes.append(f"B: {dev}=FALSE no longer violates {B_DEVS[dev][0]} in the model")
        return None
    return {"violated": res.violated, "deviation": dev, "steps": [a for a, _ in res.trace]}


def b_report(ctx: Ctx, groups: Dict[str, List[dict]], model: tuple) -> None:
    model_cex: Dict[str, Any] = {}
    for dev, (_inv, _weak, clause) in B_DEVS.items():
        if clause in groups:
            cex = b_model_counterexample(ctx, dev, model)
            if cex:
                model_cex[clause] = cex
    for clause, ts in sorted(groups.items()):
        t = min(ts, key=b_weight)
        detail = {"trace": {k: t[k] for k in ("cfg", "src", "scen", "events")}, "failed_at": t.get("failed_at"),
                  "occurrences": len(ts), "part": "B"}
        if clause in model_cex:
            detail["model_counterexample"] = model_cex[clause]
        ctx.violation(clause, f"{clause}: {b_describe(t)}", detail, "trace")


def run_part_b(ctx: Ctx) -> None:
    from engine import steploop

    _quiet_logs()
    models = ctx.pick([(2, [1, 3, 99], [0, 2, 3])], [(2, [1, 2, 3, 4, 99], [0, 1, 2, 3, 5]), (3, [1, 3, 99], [2])])
    for nconn, durs, dts in models:
        tag = f"{nconn} conns, durs={durs}, deliveries at {dts}, T=2"
        same = all(B_ASCODED.values())     # both deviations repaired: as-coded = ideal, one run is enough
        if not same:
            res = run_tlc("ServerShutdown", b_cfg("ideal", nconn, durs, dts, {}, B_INVS), workers=16,
                          timeout=ctx.pick(400, 3000))
            ok = ctx.expect_model_ok(f"ServerShutdown[ideal]({tag})", res)
            ctx.log(f"B model[ideal] {tag}: {res.distinct} states ok={ok} {res.wall_s:.0f}s")
        weak = {} if same else {v[0]: v[1] for v in B_DEVS.values()}
        invs = [weak.get(i, i) for i in B_INVS]
        res = run_tlc("ServerShutdown", b_cfg("ascoded", nconn, durs, dts, B_ASCODED, invs),
                      workers=16, timeout=ctx.pick(400, 3000), coverage=True)
        ok = ctx.expect_model_ok(f"ServerShutdown[as-coded]({tag})", res)
        ctx.log(f"B model[{'ideal = as-coded' if same else 'as-coded'}] {tag}: {res.distinct} states ok={ok} {res.wall_s:.0f}s")
        for act, (_d, tot) in sorted(res.coverage.items()):
            if act in ("Deliver", "HandlerDone", "StopSites", "PreShutdown", "WsCloseBegin", "WsCloseTimeout",
                       "SignalEnd", "SdWake", "SdTimeout1", "SdTimeout2", "SrvShutdownDone", "Cleanup", "Tick"):
                ctx.action_cover["B:" + act] = ctx.action_cover.get("B:" + act, 0) + tot
                if tot == 0:
                    ctx.notes.append(f"vacuity: action {act} never taken in ServerShutdown[as-coded]({tag})")
    # spec -> code -> spec
    scens: List[dict] = []
    for mdl in (models[:1] if ctx.quick else models):
        scens += b_enumerate_scenarios(*mdl)
    loop = steploop.new_loop()
    counts: Dict[str, int] = {}
    groups: Dict[str, List[dict]] = {}
    incidents: Dict[str, int] = {}
    try:
        batch: List[dict] = []
        for sc in scens:
            x = ShutExec(loop, sc)
            batch.append(x.run())
            for inc in x.incidents:
                incidents[inc] = incidents.get(inc, 0) + 1
        ctx.log(f"B replayed {len(batch)} TLC placements into the real AppRunner/Server")
        nrep = len(batch)
        for k in range(0, len(batch), 2500):
            b_judge(ctx, batch[k:k + 2500], "tlc-init", counts, groups)
        if batch:
            t0 = batch[len(batch) // 3]
            ctx.sample({"part": "B", "scenario": b_describe(t0),
                        "events": [[e["ev"], e["c"], e["t"]] for e in t0["events"]][:40]})
        n = ctx.pick(1000, 20000)
        batch = []
        for _ in range(n):
            x = ShutExec(loop, b_random_scenario(ctx.rng))
            batch.append(x.run())
            for inc in x.incidents:
                incidents[inc] = incidents.get(inc, 0) + 1
            if len(batch) >= 2500:
                b_judge(ctx, batch, "random", counts, groups)
                batch = []
        b_judge(ctx, batch, "random", counts, groups)
        ctx.log(f"B ran {n} random placements")
    finally:
        loop.uninstall()
    b_report(ctx, groups, models[0])
    ctx.extra["B_placements_replayed"] = nrep
    ctx.extra["B_random_placements"] = n
    ctx.extra["B_clause_counts"] = counts
    for inc, k in sorted(incidents.items()):
        ctx.notes.append(f"B: incidental (no clause violated): {inc} [{k} execution(s)]")
    for msg, k in sorted(LOGGED.items()):
        ctx.notes.append(f"B: incidental (no clause violated): aiohttp.server logged '{msg}' {k} time(s)")
    ctx.log(f"B verdicts: {counts or 'all accepted'}")


# ====================================================================================
def run(ctx: Ctx) -> None:
    ctx.rule = ("A: one execution per initial state (fault mask x entry point) of AppLifecycle.tla, all of them; "
                "distinct = different (cfg, event log)")
    ctx.assumptions = [
        "A: application tree fixed to root(r1,r2) + one sub-app(s1,s2), one user handler per signal and app, "
        "root handlers registered before add_subapp; at most one raising start-up step in quick (two in thorough)",
        "A: GracefulExit is raised by a loop callback (what the signal handler does); real OS signals and the "
        "gunicorn worker are not driven",
    ]
    ctx.rule += ("; B: one execution per initial state (placement of the shutdown moment over the connection "
                 "phases) of ServerShutdown.tla + seeded random placements; distinct = different time-stamped logs")
    ctx.assumptions += [
        "B: connections are RequestHandler protocols of the runner's real web.Server on engine.memnet transports; "
        "no listening socket: a recording BaseSite subclass stands in for TCPSite (asyncio.Server.close() trusted)",
        "B: connection_made() of every connection precedes the call of cleanup()",
        "B: time is the stepping loop's virtual clock; handler durations are scripted",
    ]
    run_part_a(ctx)
    run_part_b(ctx)
    ctx.evaluations = ctx.traces


LOGGED: Dict[str, int] = {}


def _quiet_logs() -> None:
    """aiohttp's server logger: keep it off stderr, count what it reports (incidental notes)."""
    import logging

    class Collect(logging.Handler):
        def emit(self, record: Any) -> None:
            exc = record.exc_info[1] if record.exc_info else None
            key = str(record.getMessage()).split("\n")[0][:80] + (f" ({type(exc).__name__}: {exc})" if exc else "")
            LOGGED[key] = LOGGED.get(key, 0) + 1

    for name in ("aiohttp.server", "aiohttp.web"):
        lg = logging.getLogger(name)
        if not any(type(h).__name__ == "Collect" for h in lg.handlers):
            lg.addHandler(Collect())
        lg.setLevel(logging.ERROR)
        lg.propagate = False


def selftest(ctx: Ctx) -> int:
    from engine import steploop

    _quiet_logs()
    ok = True

    def expect(what: str, got: Any, want: Any) -> None:
        nonlocal ok
        good = got == want
        ok = ok and good
        print(f"  {'ok  ' if good else 'FAIL'} {what}: got {got!r}, expected {want!r}")

    # ---- A (i): a good recorded log is accepted, corrupted copies are rejected with the right clause
    drv = LifeDriver()
    try:
        good = drv.run({"entry": "Runner", "failStart": [], "failShut": [], "failClean": [], "siteFails": False}, 0, True)
        goodf = drv.run({"entry": "Runner", "failStart": [], "failShut": [], "failClean": ["r1"], "siteFails": False},
                        2, False)
        intr = drv.run({"entry": "RunApp", "failStart": ["s1"], "failShut": [], "failClean": [], "siteFails": False,
                        "startKind": "base", "cleanKind": "exc"}, 0, True, "interrupt")
    finally:
        drv.close()
    nocleanup = copy.deepcopy(intr)      # what `except Exception: cleanup()` around setup() would log
    nocleanup["events"] = [e for e in nocleanup["events"] if not e["ev"].startswith("exit") and e["n"] not in ("Rcl", "Scl")]

    def without(tr: dict, ev: str, n: str) -> dict:
        x = copy.deepcopy(tr)
        k = next(i for i, e in enumerate(x["events"]) if e["ev"] == ev and e["n"] == n)
        del x["events"][k]
        return x

    dropped = without(without(good, "exit_begin", "s1"), "exit_done", "s1")
    twice = copy.deepcopy(good)
    k = next(i for i, e in enumerate(twice["events"]) if e["ev"] == "exit_done" and e["n"] == "r1")
    twice["events"][k + 1:k + 1] = [{"ev": "exit_begin", "n": "r1", "k": ""}, {"ev": "exit_done", "n": "r1", "k": ""}]
    swapped = copy.deepcopy(good)
    for e in swapped["events"]:
        if e["ev"].startswith("exit") and e["n"] in ("r1", "r2"):
            e["n"] = "r1" if e["n"] == "r2" else "r2"
    unstarted = copy.deepcopy(good)
    for e in unstarted["events"]:
        if e["ev"] == "enter_done" and e["n"] == "s2":
            e["ev"] = "enter_fail"
    silent = copy.deepcopy(goodf)
    for e in silent["events"]:
        if e["ev"] == "cleanup":
            e["n"] = "ok"
    vs, _ = a_validate([good, goodf, dropped, twice, swapped, unstarted, silent, intr, nocleanup])
    print("A trace monitor:")
    expect("unmodified log", (vs[0].ok, vs[0].clause), (True, ""))
    expect("log with a failing exit of r1 (accepted, or the known CleanupErrorSkipsLaterExits)",
           vs[1].clause in ("", "CleanupErrorSkipsLaterExits"), True)
    expect("exit of s1 dropped", vs[2].clause, "ExactlyOnceIffStarted")
    expect("exit of r1 duplicated", vs[3].clause, "ExitTwice")
    expect("exits of r1/r2 swapped", vs[4].clause, "ReverseOrder")
    expect("s2 exited although its enter failed", vs[5].clause, "ExitWithoutCompletedEnter")
    expect("failing exit not reported by cleanup()", vs[6].clause in ("ErrorsSurface", "CleanupErrorSkipsLaterExits"), True)
    expect("run_app stopped by GracefulExit while s1's start-up code is suspended", (vs[7].ok, vs[7].clause), (True, ""))
    expect("... same log without the exits of r1, r2", vs[8].clause, "ExactlyOnceIffStarted")
    # ---- A (ii): spec-level mutants
    print("A model mutants (ideal design with one mechanism disabled):")
    full = ["ExactlyOnceIffStarted", "NeverExitUnstarted", "ReverseOrder", "ErrorsSurface"]
    for dev in DEVS:
        res = run_tlc("AppLifecycle", a_cfg("mut_" + dev, {dev: False}, 1, full,
                                            entries=["RunApp"] if dev in ("SetupInTry", "RunAppCatchesBase") else ["Runner"]),
                      workers=16, timeout=300)
        require_clean(res, "AppLifecycle mutant " + dev)
        expect(f"{dev}=FALSE", res.violated, "ExactlyOnceIffStarted")
    # ---- B (i)
    loop = steploop.new_loop()
    try:
        scen = {"T": 2, "D": 1, "appCloses": True, "WsT": 1, "conns": {
            "c1": {"kind": "sleep", "rem": 1, "stub": False, "reply": False, "dAt": None},
            "c2": {"kind": "sleep", "rem": None, "stub": False, "reply": False, "dAt": None},
            "c3": {"kind": "ws", "rem": None, "stub": False, "reply": True, "dAt": None}}, "src": "selftest"}
        goodb = ShutExec(loop, scen).run()
    finally:
        loop.uninstall()
    slim = lambda tr: {"cfg": tr["cfg"], "src": tr["src"], "events": copy.deepcopy(tr["events"])}   # noqa: E731
    early = slim(goodb)
    for e in early["events"]:
        if e["ev"] == "handler_cancel" and e["c"] == "c2":
            e["t"] = goodb["cfg"]["T"]            # before t1 + T (t1 = 1 s)
    leftopen = slim(goodb)
    for e in leftopen["events"]:
        if e["ev"] == "cleanup_return":
            e["open"] = ["c2"]
    nocancel = slim(goodb)
    nocancel["events"] = [e for e in nocancel["events"] if not (e["ev"] == "handler_cancel" and e["c"] == "c2")]
    late = slim(goodb)
    k = next(i for i, e in enumerate(late["events"]) if e["ev"] == "on_shutdown_end")
    tt = late["events"][k]["t"]
    late["events"][k:k] = [{"ev": "deliver", "c": "c1", "t": tt, "open": [], "n": 1},
                           {"ev": "handler_start", "c": "c1", "t": tt, "open": [], "n": 0}]
    lost = slim(goodb)
    for e in lost["events"]:
        if e["ev"] == "final" and e["c"] == "c1":
            e["n"] = 0
    idle = slim(goodb)
    for e in idle["events"]:
        if e["ev"] == "on_shutdown_begin":
            e["open"] = sorted(e["open"] + ["c9"])
    idle["cfg"] = dict(idle["cfg"], kinds=dict(idle["cfg"]["kinds"], c9="idle"))
    vs, _ = validate_batch("ServerShutdownTrace", "ServerShutdownTrace.cfg",
                           [slim(goodb), early, leftopen, nocancel, late, lost, idle])
    print("B trace monitor:")
    expect("unmodified log", (vs[0].ok, vs[0].clause), (True, ""))
    expect("handler cancelled before t1+T", vs[1].clause, "GraceRespected")
    expect("transport open at return", vs[2].clause, "AllClosedAtReturn")
    expect("never-ending handler not cancelled", vs[3].clause, "CancelledBy2T")
    expect("handler started for a request received during on_shutdown", vs[4].clause, "NoNewRequests")
    expect("response of a handler that returned in time is missing", vs[5].clause, "GraceRespected")
    expect("idle connection open when on_shutdown begins", vs[6].clause, "IdleOpenDuringOnShutdown")
    # ---- B (ii)
    print("B model mutants:")
    for flag, want in (("GraceWait", "GraceRespected"), ("SecondWait", "CancelledBy2T"),
                       ("PreShutdownCloses", "NoNewRequests|ClosedOnCompletion"), ("PreShutdownMarksActive", "NoNewRequests|ClosedOnCompletion"),
                       ("CloseIdleAtOnce", "IdleClosedAtOnce"),
                       ("CancelLostConnHandler", "CancelledBy2T")):
        res = run_tlc("ServerShutdown", b_cfg("mut_" + flag, 2, [1, 3, 99], [0, 2, 3], {flag: False}, B_INVS),
                      workers=16, timeout=300)
        require_clean(res, "ServerShutdown mutant " + flag)
        expect(f"{flag}=FALSE", res.violated in want.split("|"), True)
    print("selftest", "passed" if ok else "FAILED")
    return 0 if ok else 2


def replay(ctx: Ctx, path: str) -> int:
    from engine import steploop

    _quiet_logs()
    payload = json.load(open(path))
    d = payload.get("detail") or {}
    tr = d.get("trace")
    if not isinstance(tr, dict) or "events" not in tr:
        print("replay: model counterexample (no implementation trace); re-run the check to reproduce it")
        return 0
    if d.get("part") == "A":
        drv = LifeDriver()
        try:
            t = drv.run(tr["cfg"], int(tr.get("kind", 0)), bool(tr.get("with_site", True)), tr.get("mode", "cancel"))
        finally:
            drv.close()
        vs, _ = a_validate([t])
        print("replay A:", a_describe(t))
        for e in t["events"]:
            print("   ", e["ev"], e["n"], e.get("k", ""))
    else:
        loop = steploop.new_loop()
        try:
            t = ShutExec(loop, tr["scen"]).run()
        finally:
            loop.uninstall()
        vs, _ = validate_batch("ServerShutdownTrace", "ServerShutdownTrace.cfg",
                               [{"cfg": t["cfg"], "src": t["src"], "events": t["events"]}])
        print("replay B:", b_describe(t))
        for e in t["events"]:
            print(f"    t={e['t'] / SCALE:g} {e['ev']} {e['c']} {e['open'] or ''} {e['n'] or ''}")
    v = vs[0]
    named = [str(x) for x in v.info] if isinstance(v.info, list) else []
    print(f"replay: ok={v.ok} clause={v.clause!r} consumed={v.pos}/{v.total} named={[x for x in named if x]}")
    if not v.ok:
        print(f"VIOLATION property=C20 replay={path}")
        return 1
    return 0
