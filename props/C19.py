"""C19 - multipart codec: round trip, truthful size, reader termination.

spec/Multipart.tla      reference boundary scanner (declarative + windowed machine), writer
                        model and size rule, observation clauses for termination / limits
spec/MultipartMC.tla    bounded model: all contents over {CR, LF, '-', b, x} x cuts
spec/MultipartCls.tla   TLC classifies the enumerated contents (adversarial table)
spec/MultipartTrace.tla judges every recorded execution of the real code

The Python side only builds inputs, drives the real MultipartWriter / FormData /
MultipartReader / BodyPartReader / BaseRequest.post over a real StreamReader under the
stepping loop, and records what an outside observer sees.  Every verdict is TLC's.
"""
from __future__ import annotations

import copy
import json
import os
import random
import sys
import warnings
from typing import Any, Dict, List, Optional, Sequence, Tuple

from engine import steploop
from engine.gen import multipart as G
from engine.runner import Ctx
from engine.tlc import MachineryError, mktemp, run_tlc, validate_batch

warnings.simplefilter("ignore")

FILL = 122            # 'z': padding byte, never part of a boundary
NO = [-1]             # "absent" for names
STREAM_LIMIT = 2 ** 16


class TooLarge(Exception):
    """max_size_error_cls handed to MultipartReader so the limit error is recognisable."""


class Budget(BaseException):
    """Raised from inside the reader when the work budget is exhausted (non-termination)."""


class Counters:
    ops = 0
    work = 0
    taken = 0          # bytes the multipart code took from the stream (minus what it pushed back)
    ops_cap = 10 ** 9
    work_cap = 10 ** 9


CNT = Counters()
_MON_READY = False
_CS = None


def counted_stream_cls() -> Any:
    global _CS
    if _CS is not None:
        return _CS
    from aiohttp.streams import StreamReader

    class CountedStream(StreamReader):
        """Real StreamReader; every await of the multipart code on it is counted."""

        def _tick(self) -> None:
            CNT.ops += 1
            if CNT.ops > CNT.ops_cap:
                raise Budget("ops")

        async def read(self, n: int = -1) -> bytes:
            self._tick()
            r = await super().read(n)
            CNT.taken += len(r)
            return r

        async def readuntil(self, separator: bytes = b"\n", *, max_size: Optional[int] = None) -> bytes:
            self._tick()
            before = self._cursor
            try:
                return await super().readuntil(separator, max_size=max_size)
            finally:
                CNT.taken += self._cursor - before      # also what a failed (too long) line consumed

        def unread_data(self, data: bytes) -> None:
            CNT.taken -= len(data)
            super().unread_data(data)

        async def readany(self) -> bytes:
            self._tick()
            return await super().readany()

        async def readchunk(self) -> Any:
            self._tick()
            return await super().readchunk()

        async def readexactly(self, n: int) -> bytes:
            self._tick()
            return await super().readexactly(n)

    _CS = CountedStream
    return _CS


def setup_work_monitor() -> None:
    """Count loop iterations (backward jumps) executed inside aiohttp/multipart.py and
    BaseRequest.post with sys.monitoring - no change to /repo."""
    global _MON_READY
    if _MON_READY:
        return
    _MON_READY = True
    mon = getattr(sys, "monitoring", None)
    if mon is None:
        return
    import aiohttp.multipart as mp
    import aiohttp.web_request as wr
    tool = 4
    try:
        mon.use_tool_id(tool, "verif-c19")
    except ValueError:
        return

    def on_jump(code: Any, src: int, dst: int) -> Any:
        if dst < src:
            CNT.work += 1
            if CNT.work > CNT.work_cap:
                raise Budget("work")
        return None

    mon.register_callback(tool, mon.events.JUMP, on_jump)
    seen = set()

    def add(code: Any) -> None:
        if id(code) in seen:
            return
        seen.add(id(code))
        mon.set_local_events(tool, code, mon.events.JUMP)
        for c in code.co_consts:
            if hasattr(c, "co_code"):
                add(c)

    def walk(obj: Any) -> None:
        for v in list(vars(obj).values()):
            f = getattr(v, "__func__", v)
            f = getattr(f, "fget", f) if isinstance(v, property) else f
            code = getattr(f, "__code__", None)
            if code is not None and code.co_filename.endswith(("multipart.py", "web_request.py")):
                add(code)
            elif isinstance(v, type) and v.__module__ in (mp.__name__,):
                walk(v)

    walk(mp)
    add(wr.BaseRequest.post.__code__)


class FakeTransport:
    def __init__(self) -> None:
        self.paused = False

    def pause_reading(self) -> None:
        self.paused = True

    def resume_reading(self) -> None:
        self.paused = False

    def get_extra_info(self, name: str, default: Any = None) -> Any:
        return default

    def is_closing(self) -> bool:
        return False


class StubParser:
    def pause_reading(self) -> None:
        pass

    def feed_data(self, data: bytes) -> Any:  # pragma: no cover
        return (), False, b""


class RecWriter:
    """AbstractStreamWriter stand-in that records what the payload writes."""

    def __init__(self) -> None:
        self.buf = bytearray()
        self.calls = 0

    async def write(self, chunk: bytes) -> None:
        self.buf += chunk
        self.calls += 1

    async def drain(self) -> None:
        pass

    async def write_eof(self, chunk: bytes = b"") -> None:
        self.buf += chunk

    def enable_compression(self, *a: Any, **k: Any) -> None:
        pass

    def enable_chunking(self) -> None:
        pass

    async def write_headers(self, *a: Any, **k: Any) -> None:
        pass


# ---------------------------------------------------------------- writer side
def b2l(b: bytes) -> List[int]:
    return list(b)


def name_items(s: Optional[str]) -> List[int]:
    if s is None:
        return NO
    return list(s.encode("utf-8", "surrogateescape"))


def has_crlf(spec: dict) -> bool:
    for p in spec["parts"]:
        for k in ("name", "filename", "ctype"):
            v = p.get(k)
            if v and any(ord(c) < 0x20 and c != "\t" or ord(c) == 0x7F for c in v):
                return True            # CR, LF, NUL and the other controls may (must, for CR/LF) be refused
        for hk, hv in p.get("headers", []):
            if any(c in hk + hv for c in "\r\n\x00"):
                return True
        if p.get("inner") and has_crlf(p["inner"]):
            return True
    return False


def build_payload(spec: dict) -> Any:
    """spec: {kind: mixed|form|formdata, boundary, quote: bool, parts: [part]}.
    part: {content: bytes | text: str, te, ce, headers: [[k, v]], name, filename, ctype, inner: spec}"""
    from aiohttp import FormData, MultipartWriter
    from multidict import CIMultiDict

    kind = spec["kind"]
    bnd = spec["boundary"]
    quote = spec.get("quote", True)
    if kind == "formdata":
        fd = FormData(boundary=bnd, quote_fields=quote, default_to_multipart=True)
        for p in spec["parts"]:
            val = p["text"] if "text" in p else p["content"]
            fd.add_field(p["name"], val, filename=p.get("filename"), content_type=p.get("ctype"))
        return fd()
    sub = "form-data" if kind == "form" else spec.get("sub", "mixed")
    w = MultipartWriter(sub, boundary=bnd)
    for p in spec["parts"]:
        hdrs: CIMultiDict = CIMultiDict()
        for k, v in p.get("headers", []):
            hdrs.add(k, v)
        if p.get("ctype"):
            hdrs["Content-Type"] = p["ctype"]
        if p.get("te"):
            hdrs["Content-Transfer-Encoding"] = p["te"]
        if p.get("ce"):
            hdrs["Content-Encoding"] = p["ce"]
        if p.get("inner"):
            obj = build_payload(p["inner"])
        else:
            obj = p["text"] if "text" in p else p["content"]
        pl = w.append(obj, hdrs)
        if p.get("name") is not None or p.get("filename") is not None:
            params = {}
            if p.get("name") is not None:
                params["name"] = p["name"]
            if p.get("filename") is not None:
                params["filename"] = p["filename"]
            pl.set_content_disposition("form-data" if kind == "form" else "attachment",
                                       quote_fields=quote, **params)
    return w


def part_content(p: dict) -> bytes:
    return p["text"].encode("utf-8") if "text" in p else p["content"]


def parts_for_event(spec: dict, forbid: frozenset) -> List[dict]:
    out = []
    form = spec["kind"] in ("form", "formdata") or spec.get("sub") == "form-data"
    for p in spec["parts"]:
        if p.get("inner"):
            out.append({"hdrs": [], "content": [], "wire": [], "enc": False, "name": NO, "filename": NO,
                        "multi": True, "inner": parts_for_event(p["inner"], forbid), "bl": False,
                        "ib": list(p["inner"]["boundary"].encode())})
            continue
        content = part_content(p)
        te, ce = p.get("te", ""), p.get("ce", "")
        wire = G.encode_wire(content, te, ce)
        coded = te in ("base64", "quoted-printable") or ce in ("gzip", "deflate")
        hdrs = [[b2l(k.lower().encode()), G.rle(v.encode("utf-8"), forbid)] for k, v in p.get("headers", [])]
        if te:
            hdrs.append([b2l(b"content-transfer-encoding"), b2l(te.encode())])
        if ce:
            hdrs.append([b2l(b"content-encoding"), b2l(ce.encode())])
        out.append({"hdrs": hdrs, "content": G.rle(content, forbid), "wire": G.rle(wire, forbid),
                    "enc": coded, "name": name_items(p.get("name")),
                    "filename": name_items(p.get("filename")), "multi": False, "inner": [], "ib": [],
                    # the reader takes the part by length: not form-data, not encoded, size known and > 0
                    "bl": (not form) and not coded and len(wire) > 0})
    return out


def all_boundaries(spec: dict) -> List[bytes]:
    out = [spec["boundary"].encode()]
    for p in spec["parts"]:
        if p.get("inner"):
            out += all_boundaries(p["inner"])
    return out


class Body:
    """A multipart body (written by the real writer or arbitrary) plus its trace."""

    def __init__(self, boundary: bytes, uselen: bool, forbid: frozenset, src: str) -> None:
        self.boundary = boundary
        self.uselen = uselen
        self.forbid = forbid
        self.src = src
        self.body = b""
        self.ctype = ""
        self.events: List[dict] = []
        self.recipe: dict = {}
        self.nsessions = 0

    def trace(self) -> dict:
        return {"cfg": {"b": list(self.boundary), "uselen": self.uselen}, "src": self.src,
                "events": self.events, "recipe": self.recipe}


def write_body(loop: steploop.StepLoop, spec: dict, src: str) -> Body:
    """Drive the real writer; returns a Body whose first event is write / refused."""
    bnds = all_boundaries(spec)
    forbid = G.forbidden(bnds)
    sub_form = spec["kind"] in ("form", "formdata") or spec.get("sub") == "form-data"
    bd = Body(bnds[0], not sub_form, forbid, src)
    bd.recipe = {"spec": spec_to_json(spec)}
    try:
        payload = build_payload(spec)
        w = RecWriter()
        loop.run_coro(payload.write(w))
        size = payload.size
        ctype = payload.content_type
    except Budget:
        raise
    except Exception as exc:  # noqa: BLE001
        bd.events.append({"ev": "refused", "crlf": has_crlf(spec), "err": type(exc).__name__, "msg": str(exc)[:80]})
        return bd
    bd.body = bytes(w.buf)
    bd.ctype = ctype
    bd.events.append({"ev": "write", "parts": parts_for_event(spec, forbid), "body": G.rle(bd.body, forbid),
                      "size": -1 if size is None else int(size), "nosize": False})
    return bd


def input_body(data: bytes, boundary: bytes, uselen: bool, ctype: str, src: str, label: str) -> Body:
    forbid = G.forbidden([boundary])
    bd = Body(boundary, uselen, forbid, src)
    bd.body = data
    bd.ctype = ctype
    bd.recipe = {"input": G.rle(data, forbid), "ctype": ctype, "label": label}
    bd.events.append({"ev": "input", "body": G.rle(data, forbid)})
    return bd


def spec_to_json(spec: dict) -> dict:
    out = {k: v for k, v in spec.items() if k != "parts"}
    ps = []
    for p in spec["parts"]:
        q = {k: v for k, v in p.items() if k not in ("content", "inner")}
        if "content" in p:
            q["content"] = G.rle(p["content"])
        if p.get("inner"):
            q["inner"] = spec_to_json(p["inner"])
        ps.append(q)
    out["parts"] = ps
    return out


def spec_from_json(js: dict) -> dict:
    out = {k: v for k, v in js.items() if k != "parts"}
    ps = []
    for p in js["parts"]:
        q = {k: v for k, v in p.items() if k not in ("content", "inner")}
        if "content" in p:
            q["content"] = G.unrle(p["content"])
        if p.get("inner"):
            q["inner"] = spec_from_json(p["inner"])
        if "headers" in q:
            q["headers"] = [tuple(x) for x in q["headers"]]
        ps.append(q)
    out["parts"] = ps
    return out


# ---------------------------------------------------------------- reader side
def classify_exc(exc: BaseException) -> str:
    name = type(exc).__name__
    if isinstance(exc, TooLarge) or name == "HTTPRequestEntityTooLarge":
        return "toolarge"
    if name == "LineTooLong":
        return "linetoolong"
    if name == "BadHttpMessage" and "Too many headers" in str(exc):
        return "toomany"
    return name


class Stop(Exception):
    pass


class Session:
    """One read session of the real reader over a real StreamReader, fed in lockstep."""

    def __init__(self, loop: steploop.StepLoop, bd: Body, sess: dict, segs: List[bytes], rng: random.Random,
                 eof: bool = True, burst: bool = False) -> None:
        self.loop = loop
        self.bd = bd
        self.sess = sess
        self.segs = segs
        self.rng = rng
        self.eof = eof
        self.burst = burst
        self.fed = 0
        self.ev: List[dict] = []

    # -- recording helpers
    def items(self, data: bytes) -> List[int]:
        return G.rle(bytes(data), self.bd.forbid)

    def hdr_items(self, headers: Any) -> List[Any]:
        out = []
        for k, v in headers.items():
            out.append([list(k.lower().encode("utf-8", "surrogateescape")),
                        self.items(v.encode("utf-8", "surrogateescape"))])
        return out

    def log_next(self, lvl: int, res: str, part: Any = None, err: str = "", use: Tuple[bool, int, int] = (False, 0, 0)) -> None:
        e = {"ev": "next", "lvl": lvl, "res": res, "hdrs": [], "name": NO, "filename": NO, "err": err,
             "fed": self.fed, "hb": use[0], "nops": use[1], "ntaken": use[2]}
        if part is not None:
            e["hdrs"] = self.hdr_items(part.headers)
            if res == "part":
                try:
                    e["name"] = name_items(part.name)
                    e["filename"] = name_items(part.filename)
                except Exception as exc:  # noqa: BLE001
                    e["err"] = "name:" + type(exc).__name__
        self.ev.append(e)

    # -- one leaf part with one API
    async def read_part(self, part: Any, lvl: int, api: str) -> None:
        chunk = self.sess.get("chunk", 8192)
        te = (part.headers.get("Content-Transfer-Encoding") or "").lower()
        ce = (part.headers.get("Content-Encoding") or "").lower()
        e: Dict[str, Any] = {"ev": "data", "lvl": lvl, "kind": "raw", "data": [], "empties": 0, "maxchunk": 0,
                             "ateof": True, "err": "", "fed": 0, "cmsapi": False, "chunkwise": False,
                             "codec": (te or "") + ("+" + ce if ce else ""), "api": api, "carry": te in ("base64", "quoted-printable")}
        out = bytearray()
        try:
            if api == "read":
                e["cmsapi"] = True
                out += await part.read()
            elif api == "read_decode":
                e["cmsapi"] = True
                e["kind"] = "dec"
                out += await part.read(decode=True)
            elif api in ("text", "json", "form"):
                # buffering helpers on top of read(decode=True): same size limit, result not compared
                e["cmsapi"] = True
                e["kind"] = "decvoid"
                await getattr(part, api)()
            elif api in ("chunks", "chunks_decode", "iter_decode", "while_chunk"):
                e["kind"] = "raw" if api in ("chunks", "while_chunk") else "dec"
                e["chunkwise"] = e["kind"] == "dec"
                guard = 0
                while not part.at_eof():
                    c = await part.read_chunk(chunk)
                    e["maxchunk"] = max(e["maxchunk"], len(c))
                    if not c and not part.at_eof():
                        e["empties"] += 1
                        guard += 1
                        if guard > 40:
                            break
                        if api == "while_chunk":
                            break
                    if api == "chunks_decode":
                        out += part.decode(c)
                    elif api == "iter_decode":
                        async for d in part.decode_iter(c):
                            out += d
                    else:
                        out += c
            elif api == "lines":
                # documented use: readline() until it returns b"" (end of the part)
                while True:
                    ln = await part.readline()
                    if not ln:
                        break
                    out += ln
                e["kind"] = "rawline"
            elif api == "release":
                e["kind"] = "void"
                await part.release()
            elif api == "partial":
                e["kind"] = "partial"
                out += await part.read_chunk(chunk)
            else:
                raise MachineryError(f"unknown api {api}")
        except (Budget, MachineryError):
            raise
        except Exception as exc:  # noqa: BLE001
            e["err"] = classify_exc(exc)
        e["data"] = self.items(out)
        e["ateof"] = bool(part.at_eof())
        e["fed"] = self.fed
        self.ev.append(e)
        if e["err"]:
            raise Stop()

    def pick_api(self) -> str:
        api = self.sess["api"]
        if api == "mix":
            return self.rng.choice(["read", "chunks", "lines", "release", "skip", "partial", "read_decode",
                                    "while_chunk"])
        return api

    async def consume(self, reader: Any, lvl: int) -> None:
        from aiohttp.multipart import MultipartReader
        prev: Any = None
        while True:
            # this next() reads one delimiter line and one header block only (hb) when the previous
            # part of this reader was consumed completely; its awaits and bytes are then bounded by
            # max_headers / max_field_size whatever the input is
            hb = prev is not None and bool(prev.at_eof())
            o0, t0 = CNT.ops, CNT.taken
            try:
                part = await reader.next()
            except (Budget, MachineryError):
                raise
            except Exception as exc:  # noqa: BLE001
                self.log_next(lvl, "err", err=classify_exc(exc), use=(hb, CNT.ops - o0, CNT.taken - t0))
                raise Stop()
            use = (hb, CNT.ops - o0, CNT.taken - t0)
            prev = part
            if part is None:
                self.log_next(lvl, "none", use=use)
                return
            if isinstance(part, MultipartReader):
                self.log_next(lvl, "multi", part, use=use)
                if lvl >= 2 or self.sess.get("skipinner"):
                    continue
                await self.consume(part, lvl + 1)
                continue
            self.log_next(lvl, "part", part, use=use)
            api = self.pick_api()
            if api != "skip":
                await self.read_part(part, lvl, api)

    async def do_post(self, stream: Any) -> None:
        from aiohttp.test_utils import make_mocked_request
        from aiohttp.web_request import FileField
        cms = self.sess.get("cms", 0)
        req = make_mocked_request("POST", "/", headers={"Content-Type": self.bd.ctype}, payload=stream,
                                  client_max_size=cms, loop=self.loop)
        req._protocol.max_field_size = self.sess.get("mfs", 8190)
        req._protocol.max_headers = self.sess.get("mh", 128)
        e: Dict[str, Any] = {"ev": "post", "fields": [], "err": "", "fed": 0}
        try:
            res = await req.post()
            for k, v in res.items():
                if isinstance(v, FileField):
                    val = v.file.read()
                    e["fields"].append({"name": name_items(k), "filename": name_items(v.filename),
                                        "value": self.items(val)})
                else:
                    val = v.encode("utf-8") if isinstance(v, str) else bytes(v)
                    e["fields"].append({"name": name_items(k), "filename": NO, "value": self.items(val)})
        except (Budget, MachineryError):
            raise
        except Exception as exc:  # noqa: BLE001
            e["err"] = classify_exc(exc)
        e["fed"] = self.fed
        self.ev.append(e)

    async def main(self, stream: Any) -> None:
        from aiohttp.multipart import MultipartReader
        if self.sess["api"] == "post":
            await self.do_post(stream)
            return
        try:
            kw: Dict[str, Any] = {"max_field_size": self.sess.get("mfs", 8190),
                                  "max_headers": self.sess.get("mh", 128),
                                  "max_size_error_cls": TooLarge}
            if self.sess.get("cms", -1) >= 0:
                kw["client_max_size"] = self.sess["cms"]
            reader = MultipartReader({"Content-Type": self.bd.ctype}, stream, **kw)
        except Exception as exc:  # noqa: BLE001
            self.log_next(1, "err", err=classify_exc(exc))
            return
        try:
            await self.consume(reader, 1)
        except Stop:
            pass

    def run(self) -> List[dict]:
        from aiohttp.base_protocol import BaseProtocol
        loop = self.loop
        proto = BaseProtocol(loop, parser=StubParser())  # type: ignore[arg-type]
        proto.connection_made(FakeTransport())  # type: ignore[arg-type]
        stream = counted_stream_cls()(proto, STREAM_LIMIT, loop=loop)
        total = sum(len(s) for s in self.segs)
        CNT.ops = 0
        CNT.work = 0
        CNT.taken = 0
        CNT.ops_cap = 40 * total + 20000
        CNT.work_cap = 200 * total + 400000
        s = dict(self.sess)
        s["ev"] = "session"
        s["linecap"] = 2 * STREAM_LIMIT          # StreamReader.readline() default limit (high-water mark)
        s["seg"] = max([len(x) for x in self.segs] + [1]) if not self.burst else max(total, 1)
        self.ev.append(s)
        task = loop.create_task(self.main(stream))
        outcome = "done"
        try:
            loop.run_until_idle()
            for seg in self.segs:
                if task.done():
                    break
                stream.feed_data(seg)
                self.fed += len(seg)
                if not self.burst:
                    loop.run_until_idle()
            if not task.done():
                if self.eof:
                    stream.feed_eof()
                loop.run_until_idle()
            if not task.done():
                outcome = "stuck" if self.eof else "open"
                task.cancel()
                loop.run_until_idle()
            else:
                exc = task.exception() if not task.cancelled() else None
                if isinstance(exc, Budget):
                    outcome = "budget"
                elif isinstance(exc, MachineryError):
                    raise exc
                elif exc is not None:
                    raise MachineryError(f"harness consumer failed: {exc!r}")
        except RuntimeError as exc:
            if "step budget" in str(exc):
                outcome = "budget"
                task.cancel()
            else:
                raise
        self.ev.append({"ev": "end", "ops": CNT.ops, "work": CNT.work, "outcome": outcome, "fed": self.fed})
        return self.ev


def run_session(loop: steploop.StepLoop, bd: Body, sess: dict, segs: List[bytes], rng: random.Random,
                eof: bool = True, burst: bool = False, sseed: Optional[int] = None) -> None:
    if sseed is None:
        sseed = rng.randrange(2 ** 30)
    s = Session(loop, bd, sess, segs, random.Random(sseed), eof=eof, burst=burst)
    evs = s.run()
    bd.events += evs
    bd.nsessions += 1
    bd.recipe.setdefault("sessions", []).append(
        {"sess": sess, "lens": [len(x) for x in segs], "eof": eof, "burst": burst, "rs": sseed})


# ---------------------------------------------------------------- TLC side
MC_CFG = """SPECIFICATION Spec
CONSTANTS
  MaxLen1 = {l1}
  MaxLen2 = {l2}
  MaxLenN = {ln}
  WithLen = {wl}
  HoldDelta = {hd}
  SizeMutant = {sm}
INVARIANT InvRoundTrip
INVARIANT InvLieDetected
INVARIANT InvSizeTruthful
INVARIANT InvWindowSufficient
INVARIANT InvTerminates
PROPERTY Progress
VIEW View
CHECK_DEADLOCK FALSE
"""

CLS_CFG = """SPECIFICATION ClsSpec
CONSTANTS
  MaxLen1 = {l1}
POSTCONDITION PrintClasses
CHECK_DEADLOCK FALSE
"""


def write_cfg(name: str, text: str) -> str:
    d = mktemp("c19cfg")
    p = os.path.join(d, name)
    with open(p, "w") as f:
        f.write(text)
    return p


def mc_cfg(l1: int, l2: int, ln: int, wl: bool, hd: int = 0, sm: bool = False) -> str:
    return write_cfg(f"MultipartMC_{l1}_{l2}_{ln}.cfg",
                     MC_CFG.format(l1=l1, l2=l2, ln=ln, wl=str(wl).upper(), hd=hd, sm=str(sm).upper()))


def class_table(ctx: Ctx, maxlen: int) -> List[Tuple[Tuple[int, ...], Tuple[int, ...], Tuple[Any, ...]]]:
    """Contents enumerated by TLC with the signature the reference scanner gives them."""
    res = run_tlc("MultipartCls", write_cfg("MultipartCls.cfg", CLS_CFG.format(l1=maxlen)), workers=1,
                  timeout=600, deadlock=False)
    if not res.ok:
        raise MachineryError("MultipartCls failed:\n" + "\n".join(res.output.splitlines()[-30:]))
    ctx.add_model(f"MultipartCls(MaxLen1={maxlen})", res, exhaustive=True)
    out = []
    for v in res.printed:
        if v and v[0] == "C":
            out.append((tuple(v[1]), tuple(v[2]), tuple(v[3])))
    if not out:
        raise MachineryError("MultipartCls printed no classes")
    return out


def stratified(table: List[Any], rng: random.Random, per_class: int) -> List[Any]:
    groups: Dict[Any, List[Any]] = {}
    for row in table:
        groups.setdefault((row[1], row[2]), []).append(row)
    out = []
    for key in sorted(groups, key=repr):
        g = groups[key]
        out += g if len(g) <= per_class else rng.sample(g, per_class)
    return out


# ---------------------------------------------------------------- drivers
def sub_rng(ctx: Ctx, tag: str) -> random.Random:
    r = random.Random(f"{ctx.seed}:{tag}")
    return r


def seg_scripts(body: bytes, boundary: bytes, rng: random.Random, ncuts: int, all_cuts: bool) -> List[Tuple[str, List[bytes], bool]]:
    """(label, segments, burst) scripts for one body."""
    out: List[Tuple[str, List[bytes], bool]] = [("whole", [body] if body else [], False)]
    cuts = G.boundary_cuts(body, boundary)
    if not all_cuts and len(cuts) > ncuts:
        cuts = sorted(rng.sample(cuts, ncuts))
    for c in cuts:
        out.append((f"cut{c}", G.split_at(body, [c]), False))
    if len(body) <= 400:
        out.append(("bytes", G.fixed_segments(body, 1), False))
    if len(body) > 8192:
        for c in (8190, 8191, 8192, 8193, 8194):
            if c < len(body):
                out.append((f"cut{c}", G.split_at(body, [c]), False))
    out.append(("rand-small", G.random_segments(body, rng, max(2, len(boundary) + 3)), False))
    out.append(("rand-large", G.random_segments(body, rng, max(16, len(body) // 3)), False))
    out.append(("burst", G.random_segments(body, rng, max(4, len(body) // 5)), True))
    if len(cuts) >= 2:
        c2 = sorted(rng.sample(cuts, 2))
        out.append((f"cut{c2[0]}+{c2[1]}", G.split_at(body, c2), False))
    return out


RAW_APIS = ["read", "chunks", "lines", "release", "skip", "partial", "mix", "while_chunk"]


def min_chunk(boundary: bytes) -> int:
    return len(boundary) + 4        # len("--" + B) + 2: the legal minimum of read_chunk()


def sessions_for(loop: steploop.StepLoop, bd: Body, rng: random.Random, ncuts: int, all_cuts: bool,
                 apis: Sequence[str], chunk_sizes: Sequence[int], cap: int = 10 ** 6) -> None:
    scripts = seg_scripts(bd.body, bd.boundary, rng, ncuts, all_cuts)
    if len(scripts) > cap:
        scripts = scripts[:1] + rng.sample(scripts[1:], cap - 1)
    k = rng.randrange(100)
    for label, segs, burst in scripts:
        api = apis[k % len(apis)]
        k += 1
        sess = {"api": api, "strict": api in ("lines", "mix"), "chunk": chunk_sizes[k % len(chunk_sizes)],
                "mfs": 8190, "mh": 128, "cms": -1, "script": label}
        if api == "post":
            sess["cms"] = 0
        run_session(loop, bd, sess, segs, rng, burst=burst)


def leaf(content: bytes, **kw: Any) -> dict:
    d = {"content": content}
    d.update(kw)
    return d


def driver_roundtrip(ctx: Ctx, loop: steploop.StepLoop, table: List[Any]) -> List[Body]:
    """(A) every sampled class content, concretised, written by the real writer, read back."""
    rng = sub_rng(ctx, "rt")
    rows = table if not ctx.quick else stratified(table, rng, 1)     # thorough: every enumerated content
    if ctx.quick and len(rows) > 240:
        rows = rng.sample(rows, 240)
    ctx.log(f"round trip: {len(rows)} of {len(table)} enumerated (content, boundary) classes")
    bodies: List[Body] = []
    for n, (cls, mb, sig) in enumerate(rows):
        variants_per = 1 if ctx.quick else (2 if n % 8 == 0 else 1)
        for v in range(variants_per):
            blen = rng.choice([1, 2, 70]) if (v or rng.random() < 0.4) else (1 if len(mb) == 1 else 2)
            bnd = G.BOUNDARIES[blen]
            bpre = rng.choice([1, max(1, blen - 1), blen])
            core = G.concretise(cls, bnd.encode(), bpre)
            padk = rng.choice(["none", "none", "chunk", "window", "two-chunks"])
            where = rng.choice(["tail", "head", "both"])
            if padk == "none":
                content = core
            elif padk == "chunk":
                content = G.pad(core, 8192 + rng.choice([-blen - 6, -3, -2, -1, 0, 1, 2, 3, blen + 6]), where, FILL)
            elif padk == "two-chunks":
                content = G.pad(core, 2 * 8192 + rng.choice([-blen - 5, -1, 0, 1, blen + 5]), where, FILL)
            else:
                content = G.pad(core, blen + 4 + rng.choice([-2, -1, 0, 1, 2, blen + 4]), where, FILL)
            kind = rng.choice(["mixed", "form", "form", "formdata"])
            other = G.concretise(rng.choice(rows)[0], bnd.encode(), 1)
            parts = [leaf(content, name="f0")]
            if rng.random() < 0.5:
                parts.append(leaf(other, name="f1", filename="o.bin") if rng.random() < 0.5 else leaf(other, name="f1"))
            if rng.random() < 0.2:
                parts.insert(0, leaf(b"", name="e"))
            spec = {"kind": kind, "boundary": bnd, "parts": parts}
            bd = write_body(loop, spec, f"rt:{n}:{v}:{padk}:{kind}")
            if bd.body:
                apis = list(RAW_APIS) + (["post"] if kind != "mixed" else ["read_decode"])
                rng.shuffle(apis)
                mc = min_chunk(bnd.encode())
                every_cut = (not ctx.quick) and n % 64 == 0          # thorough: every cut around every boundary
                sessions_for(loop, bd, rng, 4 if ctx.quick else (10 ** 6 if every_cut else 6), every_cut, apis,
                             [mc, mc + 1, mc + 2, 8192, 2 * mc + 3, max(100, mc + 9)],
                             cap=8 if ctx.quick else (10 ** 6 if every_cut else 6))
            bodies.append(bd)
    return bodies


def text_lines(rng: random.Random, n: int) -> bytes:
    words = [b"alpha", b"=", b"be ta", b"g\xc3\xa4mma", b"--", b"x" * 80, b"tail ", b"\t", b"=3D", b"."]
    out = bytearray()
    while len(out) < n:
        out += rng.choice(words)
        if rng.random() < 0.3:
            out += b"\r\n"
    return bytes(out[:n])


def driver_encodings(ctx: Ctx, loop: steploop.StepLoop, table: List[Any]) -> List[Body]:
    """Transfer encodings: base64 / quoted-printable / gzip / deflate and their combinations."""
    rng = sub_rng(ctx, "enc")
    bodies: List[Body] = []
    combos = [("base64", ""), ("quoted-printable", ""), ("", "gzip"), ("", "deflate"), ("base64", "gzip"),
              ("base64", "deflate"), ("quoted-printable", "deflate"), ("binary", ""), ("", "identity")]
    n = ctx.pick(40, 240)
    for k in range(n):
        te, ce = combos[k % len(combos)]
        blen = rng.choice([1, 2, 70])
        bnd = G.BOUNDARIES[blen]
        style = rng.choice(["class", "nul-pad", "fill-pad", "random", "text", "edge"])
        if style == "class":
            content = G.concretise(rng.choice(table)[0], bnd.encode(), rng.choice([1, blen]))
        elif style == "nul-pad":        # base64 of NULs is a run of 'A': wire straddles the 8 KiB chunk
            content = b"\x00" * (6144 + rng.choice([-4, -3, -2, -1, 0, 1, 2, 3, 4, 6144])) + bytes(rng.randrange(256) for _ in range(rng.randrange(4)))
        elif style == "fill-pad":
            content = bytes([FILL]) * rng.choice([8190, 8192, 8195, 12288, 16384 + 1])
        elif style == "random":
            content = bytes(rng.randrange(256) for _ in range(rng.choice([1, 2, 3, 4, 5, 57, 58, 100, 1000])))
        elif style == "text":
            content = text_lines(rng, rng.choice([10, 76, 77, 200, 900]))
        else:
            content = rng.choice([b"", b"=", b"\r\n", b"a=", b"a \r\n", b"\r", b"\n", b".\r\n", b"ab", b"abc", b"abcd"])
        if te == "quoted-printable":
            wire = G.encode_wire(content, te, ce)
            if G.decode_wire(wire, te, ce) != content:
                content = text_lines(rng, 120)       # the stdlib transducer itself is not invertible here
                if G.decode_wire(G.encode_wire(content, te, ce), te, ce) != content:
                    continue
        tev = "" if te == "binary" and rng.random() < 0.5 else te
        parts = [leaf(content, te=tev, ce=ce)]
        if rng.random() < 0.5:
            parts.append(leaf(b"plain-" + bytes([FILL]) * rng.choice([0, 3, 20]), headers=[("X-K", "v")]))
        spec = {"kind": "mixed", "boundary": bnd, "parts": parts}
        bd = write_body(loop, spec, f"enc:{k}:{te}:{ce}:{style}")
        if bd.body:
            mc = min_chunk(bnd.encode())
            # decode() is stateless, so chunk-wise decoding is only meaningful for the transfer encodings;
            # compressed parts are decoded as a whole (read(decode=True))
            zipped = ce in ("gzip", "deflate")
            apis = ["read", "read_decode", "chunks", "read_decode" if zipped else "chunks_decode", "read_decode", "lines",
                    "read_decode" if zipped else "iter_decode", "release"]
            sessions_for(loop, bd, rng, ctx.pick(3, 40), False, apis, [mc, mc + 1, mc + 3, 8192, 4 * (mc // 4) + 4, max(64, mc + 7)],
                         cap=ctx.pick(9, 24))
        bodies.append(bd)
    # chunk-wise decoding where the chunk edges are dictated by the network: tiny segments
    for k, (te, content) in enumerate([("base64", b"9\xf4\xe7\x84\x08"), ("base64", bytes(range(40))),
                                       ("quoted-printable", b"caf=C3=A9 = \xc3\xa9 tail \r\n"),
                                       ("quoted-printable", bytes([FILL]) * 100)]):
        for bnd in ("b", G.BOUNDARIES[70]):
            spec = {"kind": "mixed", "boundary": bnd, "parts": [leaf(content, te=te), leaf(b"next")]}
            bd = write_body(loop, spec, f"enc:chunkwise:{k}:{te}")
            if bd.body:
                mc = min_chunk(bnd.encode())
                for api in ("chunks_decode", "iter_decode"):
                    for chunk in (8192, mc, mc + 2):
                        sess = {"api": api, "strict": False, "chunk": chunk, "mfs": 8190, "mh": 128, "cms": -1, "script": "bytes"}
                        run_session(loop, bd, sess, G.fixed_segments(bd.body, 1), rng)
                        run_session(loop, bd, dict(sess, script="whole"), [bd.body], rng)
                        run_session(loop, bd, dict(sess, script="fixed3"), G.fixed_segments(bd.body, 3), rng)
            bodies.append(bd)
    return bodies


def driver_nested(ctx: Ctx, loop: steploop.StepLoop, table: List[Any]) -> List[Body]:
    rng = sub_rng(ctx, "nest")
    bodies: List[Body] = []
    for k in range(ctx.pick(30, 160)):
        ob, ib = rng.choice([("b", "ci"), ("bx", "c"), (G.BOUNDARIES[70], "inner-" + "q" * rng.choice([1, 30])),
                             ("b", "xb"), ("outer", "inner")])
        c1 = G.concretise(rng.choice(table)[0], ib.encode(), 1)
        c2 = G.concretise(rng.choice(table)[0], ob.encode(), 1)
        if rng.random() < 0.3:
            c1 = G.pad(c1, 8192 + rng.choice([-3, 0, 3]), "tail", FILL)
        inner_kind = rng.choice(["mixed", "form"])
        inner = {"kind": inner_kind, "boundary": ib, "parts": [leaf(c1, name="i0")] + ([leaf(b"second")] if rng.random() < 0.5 else [])}
        parts: List[dict] = [{"inner": inner}]
        if rng.random() < 0.7:
            parts.append(leaf(c2))
        if rng.random() < 0.3:
            parts.insert(0, leaf(b"first"))
        spec = {"kind": "mixed", "boundary": ob, "parts": parts}
        bd = write_body(loop, spec, f"nest:{k}")
        if bd.body:
            mc = max(min_chunk(ob.encode()), min_chunk(ib.encode()))
            sessions_for(loop, bd, rng, ctx.pick(4, 60), False, ["read", "chunks", "lines", "release", "skip", "mix"],
                         [mc, mc + 1, 8192, max(50, mc + 5)], cap=ctx.pick(8, 30))
        bodies.append(bd)
    return bodies


def driver_names(ctx: Ctx, loop: steploop.StepLoop) -> List[Body]:
    """Names / filenames from classes; CR/LF must be refused or encoded."""
    rng = sub_rng(ctx, "names")
    bodies: List[Body] = []
    classes = sorted(G.NAME_CLASSES)
    combos = []
    for nc in classes:
        for fc in [None] + classes:
            combos.append((nc, fc))
    if ctx.quick:
        keep = [c for c in combos if c[1] is None or c[0] == "ascii" or c[0] == c[1]]
        combos = keep + rng.sample(combos, 40)
    k = 0
    for nc, fc in combos:
        for kind, quote in (("formdata", True), ("formdata", False), ("form", True), ("mixed", True)):
            if ctx.quick and rng.random() < 0.5 and not (nc in G.CRLF_NAME_CLASSES or fc in G.CRLF_NAME_CLASSES):
                continue
            name = G.NAME_CLASSES[nc]
            fname = None if fc is None else G.NAME_CLASSES[fc]
            if kind == "formdata" and name == "":
                pass
            p = leaf(b"value-" + str(k).encode(), name=name)
            if fname is not None:
                p["filename"] = fname
            spec = {"kind": kind, "boundary": "nb", "quote": quote, "parts": [p, leaf(b"after", name="z")]}
            bd = write_body(loop, spec, f"names:{nc}:{fc}:{kind}:{int(quote)}")
            k += 1
            if bd.body:
                for api in (["read", "post"] if kind != "mixed" else ["read"]):
                    sess = {"api": api, "strict": False, "chunk": 8192, "mfs": 8190, "mh": 128,
                            "cms": 0 if api == "post" else -1, "script": "whole"}
                    run_session(loop, bd, sess, [bd.body], rng)
            bodies.append(bd)
    bodies += names_structural(ctx, loop, rng)
    return bodies


def names_structural(ctx: Ctx, loop: steploop.StepLoop, rng: random.Random) -> List[Body]:
    """Field names / filenames over the code point classes crossed with the structural characters
    of a Content-Disposition parameter (';', '"', '\\', '=', SP, '%', controls ...), each in every
    position and in ordered pairs, quote_fields True and False: the value comes back exactly (or
    percent-encoded), or the writer refuses it."""
    bodies: List[Body] = []
    strings = G.structural_names(rng, ctx.quick, sample=40)
    kinds = ("formdata",) if ctx.quick else ("formdata", "form", "mixed")
    for n, sname in enumerate(strings):
        for quote in (True, False):
            if ctx.quick and n >= 62 and quote != (n % 2 == 0):      # sampled pairs: one quoting mode each
                continue
            for which in ("name", "filename"):
                kind = kinds[n % len(kinds)]
                p = leaf(b"v", name=sname) if which == "name" else leaf(b"v", name="n", filename=sname)
                spec = {"kind": kind, "boundary": "nb", "quote": quote, "parts": [p, leaf(b"after", name="z")]}
                bd = write_body(loop, spec, f"names2:{which}:{int(quote)}:{kind}:{n}")
                if bd.body:
                    apis = ["read"] + (["post"] if kind != "mixed" and (n % 3 == 0 or not ctx.quick) else [])
                    for api in apis:
                        sess = {"api": api, "strict": False, "chunk": 8192, "mfs": 8190, "mh": 128,
                                "cms": 0 if api == "post" else -1, "script": "whole"}
                        run_session(loop, bd, sess, [bd.body], rng)
                bodies.append(bd)
    return bodies


def base_bodies(ctx: Ctx, loop: steploop.StepLoop, table: List[Any], rng: random.Random) -> List[Tuple[dict, Body]]:
    """Valid bodies that the termination driver mutates."""
    out = []
    sample = [r for r in table if r[2][1] >= 3][:]
    rng.shuffle(sample)
    specs: List[dict] = []
    for bnd in ctx.pick(("b", G.BOUNDARIES[70]), ("b", "bx", G.BOUNDARIES[70])):
        c = G.concretise(sample[len(specs) % len(sample)][0], bnd.encode(), 1)
        specs.append({"kind": "mixed", "boundary": bnd, "parts": [leaf(b"abc" + c), leaf(b"hello world", headers=[("X-A", "1")])]})
        specs.append({"kind": "form", "boundary": bnd, "parts": [leaf(c + b"-tail", name="a"), leaf(b"", name="b"), leaf(b"xyz", name="c", filename="f.txt")]})
        specs.append({"kind": "mixed", "boundary": bnd, "parts": [leaf(b"0123456789" * 3, te="base64"), leaf(b"after")]})
        specs.append({"kind": "mixed", "boundary": bnd, "parts": [leaf(b"line one\r\nline=two \r\n", te="quoted-printable"), leaf(b"A" * 50, ce="gzip")]})
        specs.append({"kind": "mixed", "boundary": bnd, "parts": [{"inner": {"kind": "mixed", "boundary": "in" if bnd != "in" else "jn", "parts": [leaf(b"deep")]}}, leaf(b"flat")]})
    specs.append({"kind": "form", "boundary": "b", "parts": [leaf(bytes([FILL]) * 9000, name="big"), leaf(b"s", name="s")]})
    if not ctx.quick:
        specs.append({"kind": "mixed", "boundary": "bx", "parts": [leaf(bytes([FILL]) * 20000, te="base64"), leaf(b"s")]})
    for k, spec in enumerate(specs):
        bd = write_body(loop, spec, f"term-base:{k}")
        if bd.body:
            out.append((spec, bd))
    return out


TERM_APIS = ["read", "chunks", "lines", "release", "read_decode", "chunks_decode", "skip", "while_chunk", "post", "mix"]


def driver_termination(ctx: Ctx, loop: steploop.StepLoop, table: List[Any]) -> List[Body]:
    """(B) valid bodies mutated + EOF at every position: the reader must terminate."""
    rng = sub_rng(ctx, "term")
    bodies: List[Body] = []
    k = 0
    for nbase, (spec, base) in enumerate(base_bodies(ctx, loop, table, rng)):
        bnd = base.boundary
        uselen = base.uselen
        muts = G.mutations(base.body, bnd, rng)
        muts.append(("valid", base.body))
        for label, data in muts:
            hostile = label.startswith("hdr")
            if hostile and ctx.quick and (nbase % 5 not in (0, 1, 4) or nbase >= 5 or label.startswith("hdr0")):
                continue
            bd = input_body(data, bnd, uselen, base.ctype, f"term:{label}", label)
            mc = min_chunk(bnd)
            apis = TERM_APIS if uselen else [a for a in TERM_APIS]
            n_api = 0 if (hostile and ctx.quick) else ctx.pick(2, 5)
            for api in rng.sample(apis, n_api):
                scripts = [("whole", [data] if data else [], False)]
                if len(data) <= 600 and rng.random() < ctx.pick(0.3, 1.0):
                    scripts.append(("bytes", G.fixed_segments(data, 1), False))
                scripts.append(("rand", G.random_segments(data, rng, max(3, len(bnd) + 2)), False))
                if ctx.quick:
                    scripts = [rng.choice(scripts)]
                for sl, segs, burst in scripts:
                    sess = {"api": api, "strict": True, "chunk": rng.choice([mc, mc + 1, 8192, 37 + mc]),
                            "mfs": 8190, "mh": 128, "cms": 0 if api == "post" else -1, "script": sl}
                    run_session(loop, bd, sess, segs, rng, burst=burst)
            if label.startswith("hdr"):
                # hostile header block: every API that consumes the previous part completely, several
                # segmentations, default and small limits - one next() must stay within HeaderBlockBound
                for api, (sl, segs), (mh, mfs) in list(zip(("read", "release", "chunks", "lines", "read", "release"),
                                                     (("whole", [data]), ("fixed97", G.fixed_segments(data, 97)),
                                                      ("rand", G.random_segments(data, rng, 11)),
                                                      ("fixed4096", G.fixed_segments(data, 4096)),
                                                      ("fixed97", G.fixed_segments(data, 97)), ("whole", [data])),
                                                     ((128, 8190), (4, 64), (128, 8190), (128, 8190), (4, 64), (16, 200))))[: ctx.pick(3, 6)]:
                    sess = {"api": api, "strict": True, "chunk": 8192, "mfs": mfs, "mh": mh, "cms": -1, "script": sl}
                    run_session(loop, bd, sess, segs, rng)
            bodies.append(bd)
            k += 1
        # EOF at every position of the valid body
        positions = G.eof_positions(base.body, bnd, rng, every=not ctx.quick and len(base.body) <= 4000,
                                    cap=ctx.pick(24, 300))
        bd = None
        for j, pos in enumerate(positions):
            if bd is None or bd.nsessions >= 40:
                if bd is not None:
                    bodies.append(bd)
                bd = None
            data = base.body[:pos]
            bd1 = input_body(data, bnd, uselen, base.ctype, f"term:eof@{pos}", f"eof@{pos}")
            api = TERM_APIS[(j + k) % len(TERM_APIS)]
            sess = {"api": api, "strict": True, "chunk": rng.choice([min_chunk(bnd), 8192]), "mfs": 8190, "mh": 128,
                    "cms": 0 if api == "post" else -1, "script": "whole"}
            run_session(loop, bd1, sess, [data] if data else [], rng)
            if len(data) <= 300 and j % 3 == 0:
                run_session(loop, bd1, dict(sess, script="bytes"), G.fixed_segments(data, 1), rng)
            bodies.append(bd1)
    return bodies


def driver_limits(ctx: Ctx, loop: steploop.StepLoop) -> List[Body]:
    """(iii) max_field_size / max_headers / client_max_size enforced while reading."""
    rng = sub_rng(ctx, "lim")
    bodies: List[Body] = []
    z = bytes([FILL])
    # header value length around max_field_size
    for mfs in ctx.pick([64, 8190], [32, 64, 1000, 8190]):
        for delta in (-40, -5, -3, -2, -1, 0, 1, 2, 3, 10, 500, 20000):
            vlen = mfs + delta - len("X-Long: ")
            if vlen < 1:
                continue
            for kind in ("mixed", "form"):
                if ctx.quick and kind == "form" and delta not in (-3, 3, 500):
                    continue
                spec = {"kind": kind, "boundary": "lim", "parts": [
                    leaf(b"one", name="a"), leaf(b"two", name="b", headers=[("X-Long", (z * vlen).decode())]), leaf(b"three", name="c")]}
                bd = write_body(loop, spec, f"lim:field:{mfs}:{delta}:{kind}")
                if not bd.body:
                    bodies.append(bd)
                    continue
                for seg in ctx.pick([7, 100], [1, 7, 100, 4096]):
                    for api in ("read", "post") if kind == "form" else ("read", "chunks"):
                        sess = {"api": api, "strict": False, "chunk": 8192, "mfs": mfs, "mh": 128,
                                "cms": 0 if api == "post" else -1, "script": f"fixed{seg}"}
                        run_session(loop, bd, sess, G.fixed_segments(bd.body, seg), rng)
                sess = {"api": "read", "strict": False, "chunk": 8192, "mfs": mfs, "mh": 128, "cms": -1, "script": "whole"}
                run_session(loop, bd, sess, [bd.body], rng)
                bodies.append(bd)
    # number of headers around max_headers
    for mh in ctx.pick([4, 128], [1, 4, 16, 128]):
        for delta in (-2, -1, 0, 1, 2, 40):
            nh = mh + delta - 2          # the writer adds Content-Type and Content-Disposition/Length
            if nh < 0:
                continue
            hdrs = [(f"X-H{i}", f"v{i}") for i in range(nh)]
            spec = {"kind": "form", "boundary": "lim", "parts": [leaf(b"one", name="a"), leaf(b"two", name="b", headers=hdrs), leaf(b"3", name="c")]}
            bd = write_body(loop, spec, f"lim:headers:{mh}:{delta}")
            if not bd.body:
                bodies.append(bd)
                continue
            for seg in ctx.pick([5, 64], [1, 5, 64, 1000]):
                for api in ("read", "post"):
                    sess = {"api": api, "strict": False, "chunk": 8192, "mfs": 8190, "mh": mh,
                            "cms": 0 if api == "post" else -1, "script": f"fixed{seg}"}
                    run_session(loop, bd, sess, G.fixed_segments(bd.body, seg), rng)
            bodies.append(bd)
    # client_max_size: read() and post(), small and default
    for cms in ctx.pick([10, 1000, 1024 ** 2], [1, 10, 1000, 65536, 1024 ** 2]):
        for delta in (-1, 0, 1, 5000, 400000):
            n = cms + delta
            if n < 0 or (ctx.quick and cms >= 65536 and delta not in (0, 1, 400000)):
                continue
            for kind in ("form", "mixed", "formdata"):
                if kind == "formdata":
                    parts = [leaf(z * n, name="f", filename="big.bin"), leaf(b"t", name="t")]
                else:
                    parts = [leaf(z * n, name="f"), leaf(b"t", name="t")]
                spec = {"kind": kind, "boundary": "lim", "parts": parts}
                bd = write_body(loop, spec, f"lim:cms:{cms}:{delta}:{kind}")
                if not bd.body:
                    bodies.append(bd)
                    continue
                segsz = [97, 4096] if len(bd.body) < 200000 else [4096]
                for seg in segsz:
                    apis = ["read", "read_decode"] + (["post"] if kind != "mixed" else [])
                    for api in apis:
                        sess = {"api": api, "strict": False, "chunk": 8192, "mfs": 8190, "mh": 128, "cms": cms,
                                "script": f"fixed{seg}"}
                        run_session(loop, bd, sess, G.fixed_segments(bd.body, seg), rng)
                bodies.append(bd)
    bodies += limits_in_shapes(ctx, loop, rng)
    return bodies


def shaped(parts: List[dict], shape: str) -> dict:
    """Put the parts under test into a flat body or inside a nested multipart part (depth 2)."""
    if shape == "flat-mixed":
        return {"kind": "mixed", "boundary": "lim", "parts": parts}
    inner = {"kind": "form" if shape == "nest-form" else "mixed", "boundary": "inn", "parts": parts}
    return {"kind": "mixed", "boundary": "lim",
            "parts": [leaf(b'"pre"', headers=[("X-Pre", "1")]), {"inner": inner}, leaf(b'"post"')]}


def limits_in_shapes(ctx: Ctx, loop: steploop.StepLoop, rng: random.Random) -> List[Body]:
    """The same three limits wherever a part can sit: the limits configured on the outer reader
    must hold for parts inside a nested multipart/* part (depth 2) exactly as for flat parts, for
    every read API that enforces them; the reference computes the limit point through the nesting.
    Also: the size limit applies to the decoded size of read(decode=True)."""
    bodies: List[Body] = []
    z = bytes([FILL])
    nests = ("nest-mixed", "nest-form")
    segs = ctx.pick([7, 97], [1, 7, 97, 4096])

    def drive(bd: Body, apis: Sequence[str], mfs: int = 8190, mh: int = 128, cms: int = -1,
              seg_list: Sequence[int] = segs) -> None:
        for seg in seg_list:
            for api in apis:
                sess = {"api": api, "strict": False, "chunk": 8192, "mfs": mfs, "mh": mh, "cms": cms,
                        "script": f"fixed{seg}"}
                run_session(loop, bd, sess, G.fixed_segments(bd.body, seg), rng)
        sess = {"api": apis[0], "strict": False, "chunk": 8192, "mfs": mfs, "mh": mh, "cms": cms, "script": "whole"}
        run_session(loop, bd, sess, [bd.body], rng)

    # (a) header line length inside a nested part
    for mfs in ctx.pick([64], [32, 64, 8190]):
        for delta in ctx.pick((-5, -3, 1, 3, 500), (-40, -5, -3, -2, -1, 0, 1, 2, 3, 10, 500, 20000)):
            vlen = mfs + delta - len("X-Long: ")
            if vlen < 1:
                continue
            for shape in nests:
                parts = [leaf(b"one", name="a"), leaf(b"two", name="b", headers=[("X-Long", (z * vlen).decode())]),
                         leaf(b"three", name="c")]
                bd = write_body(loop, shaped(parts, shape), f"lim:nfield:{mfs}:{delta}:{shape}")
                if bd.body:
                    drive(bd, ("read", "chunks"), mfs=mfs)
                bodies.append(bd)
    # (b) number of header lines inside a nested part
    for mh in ctx.pick([4], [1, 4, 16, 128]):
        for delta in (-1, 0, 1, 2, 40):
            nh = mh + delta - 2
            if nh < 0:
                continue
            for shape in nests:
                hdrs = [(f"X-H{i}", f"v{i}") for i in range(nh)]
                parts = [leaf(b"one", name="a"), leaf(b"two", name="b", headers=hdrs), leaf(b"3", name="c")]
                bd = write_body(loop, shaped(parts, shape), f"lim:nheaders:{mh}:{delta}:{shape}")
                if bd.body:
                    drive(bd, ("read", "release"), mh=mh)
                bodies.append(bd)
    # (c) client_max_size for a part inside a nested part: every API that enforces it
    for cms in ctx.pick([10, 4096], [1, 10, 1000, 4096, 65536]):
        for delta in (-1, 0, 1, 5000, 200000):
            n = cms + delta
            if n < 0 or (ctx.quick and delta == 5000):
                continue
            for shape in nests:
                parts = [leaf(b"s", name="s"), leaf(z * n, name="f"), leaf(b"t", name="t")]
                bd = write_body(loop, shaped(parts, shape), f"lim:ncms:{cms}:{delta}:{shape}")
                if bd.body:
                    drive(bd, ("read", "read_decode"), cms=cms, seg_list=[97, 4096] if len(bd.body) < 100000 else [4096])
                bodies.append(bd)
    # (d) the decoded size counts as well: a small compressed wire that inflates beyond the limit
    for cms in ctx.pick([1000], [100, 1000, 65536]):
        for n in (cms - 1, cms, cms + 1, 20 * cms):
            for ce in ("gzip", "deflate"):
                for shape in ("flat-mixed", "nest-mixed"):
                    if ctx.quick and shape == "flat-mixed" and ce == "deflate":
                        continue
                    parts = [leaf(z * n, ce=ce), leaf(b"t")]
                    bd = write_body(loop, shaped(parts, shape), f"lim:dcms:{cms}:{n}:{ce}:{shape}")
                    if bd.body:
                        drive(bd, ("read_decode", "read"), cms=cms, seg_list=[13])
                    bodies.append(bd)
    # (e) compressed parts whose DECODED size crosses client_max_size by one byte, by one
    #     decompression block and by many blocks: the limit applies to the running total, for every
    #     API built on read(decode=True)
    from aiohttp.helpers import DEFAULT_CHUNK_SIZE as block      # = BodyPartReader max_decompress_size
    for cms in ctx.pick([block], [65536, block, 4 * block]):
        for n in (cms - 1, cms, cms + 1, cms + 65536, cms + block, cms + 8 * block):
            for ce in ("gzip", "deflate"):
                for shape in ("flat-mixed", "nest-mixed"):
                    if ctx.quick and (shape == "nest-mixed") != (ce == "deflate"):
                        continue
                    content = b'"' + z * (n - 2) + b'"'            # valid text, JSON and form data
                    parts = [leaf(content, ce=ce, ctype="application/json"), leaf(b'"t"', ctype="application/json")]
                    bd = write_body(loop, shaped(parts, shape), f"lim:dtotal:{cms}:{n - cms}:{ce}:{shape}")
                    if bd.body:
                        for api, seg in (("read_decode", 0), ("text", 0), ("json", 29), ("form", 0), ("read", 29)):
                            sess = {"api": api, "strict": False, "chunk": 8192, "mfs": 8190, "mh": 128, "cms": cms,
                                    "script": f"fixed{seg}" if seg else "whole"}
                            run_session(loop, bd, sess, G.fixed_segments(bd.body, seg) if seg else [bd.body], rng)
                    bodies.append(bd)
    return bodies


# ---------------------------------------------------------------- judging
# Deviations of the unchanged tree that the trace spec names with a clause of their own.
DEVIATIONS = {
    "NameQuoteBeforeSemicolon": "a field name / filename containing '\"' followed (after optional blanks) by ';' is cut at the "
                                "';' by parse_content_disposition (the header is split on every ';', quoted or not)",
    "NameMultiSemicolon": "a field name / filename containing two or more ';' inside its quoted value makes "
                          "parse_content_disposition drop the whole header: name and filename come back as None",
    "DecodeChunkwisebase64": "read_chunk() hands out a partial base64 quartet when the transport delivered fewer than "
                             "4 characters, so decode(chunk) / request.post() raise binascii.Error",
    "DecodeChunkwisequoted-printable": "read_chunk() cuts a quoted-printable escape or soft line break at a chunk edge, "
                                       "so chunk-wise decode() silently corrupts the content",
    "ReadlineEndNotEof": "readline() returns b'' before at_eof() for content that is empty or ends with a newline; "
                         "the following next() fails",
    "WriterAssertion": "FormData / form-data writer raises AssertionError for a non-ASCII field name with quote_fields=True "
                       "(Content-Disposition carries name*= instead of name=)",
    "NameLeadingSlash": "leading '/' or '\\' of a field NAME is stripped by parse_content_disposition",
}

def judge(ctx: Ctx, bodies: List[Body], label: str) -> None:
    """Hand the recorded traces to TLC (MultipartTrace) in parallel batches; TLC's verdicts decide."""
    from concurrent.futures import ThreadPoolExecutor
    traces = [b.trace() for b in bodies if b.events]
    if not traces:
        return
    # balance batches by event volume
    traces.sort(key=lambda t: -sum(len(e.get("body", [])) + len(e.get("data", [])) + 8 for e in t["events"]))
    nb = max(1, min(ctx.pick(8, 48), len(traces) // 40))
    batches: List[List[dict]] = [[] for _ in range(nb)]
    for i, t in enumerate(traces):
        batches[i % nb].append(t)

    def one(batch: List[dict]) -> Any:
        stripped = [{k: v for k, v in t.items() if k != "recipe"} for t in batch]
        verdicts, res = validate_batch("MultipartTrace", "MultipartTrace.cfg", stripped, timeout=2400, heap="3g",
                                        env={"JAVA_TOOL_OPTIONS": "-Xss64m"})
        return batch, verdicts, res

    with ThreadPoolExecutor(max_workers=ctx.pick(4, 6)) as ex:
        results = list(ex.map(one, batches))
    for batch, verdicts, res in results:
        ctx.add_trace_batch(len(batch), res)
        nsess = sum(1 for t in batch for e in t["events"] if e["ev"] == "session")
        ctx.extra["sessions"] = ctx.extra.get("sessions", 0) + nsess
        for t, v in zip(batch, verdicts):
            for e in t["events"]:
                if e["ev"] == "session":
                    ctx.distinct.add(hash((t["src"].split(":")[0], e.get("api"), e.get("script", "")[:4], e.get("chunk"),
                                           len(t["events"][0].get("body", [])))))
            info = v.info or [[], 0, []]
            for d in (info[0] or []):
                ctx.drift(d[1])
            ctx.extra["events_judged_against_reference"] = ctx.extra.get("events_judged_against_reference", 0) + int(info[1])
            failures = [(int(x[0]) - 1, x[1]) for x in (info[2] or [])]
            if not v.ok:
                failures.append((v.pos, v.clause or "TraceNotConsumed"))
            for pos, clause in failures:
                if clause == "HarnessProtocol":
                    raise MachineryError(f"harness emitted an event the trace spec cannot place: {t['src']} event {pos}")
                bad_ev = t["events"][pos] if pos < len(t["events"]) else {}
                sess = {}
                for e in t["events"][: pos + 1]:
                    if e["ev"] == "session":
                        sess = e
                if clause in DEVIATIONS:
                    sig = f"{clause}: {DEVIATIONS[clause]}"       # one stable signature per named deviation
                else:
                    sig = f"{clause}: api={sess.get('api', '-')} ev={bad_ev.get('ev')}"
                    if bad_ev.get("codec"):
                        sig += f" codec={bad_ev['codec']}"
                    if bad_ev.get("err"):
                        sig += f" err={bad_ev['err']}"
                ctx.violation(clause, sig, {"trace": slim(t, pos), "failed_at": pos, "label": label,
                                            "src": t["src"]}, "trace")
    if bodies and bodies[0].events:
        t = bodies[0].trace()
        ctx.sample({"src": t["src"], "cfg": t["cfg"],
                    "events": [{k: (e[k] if not isinstance(e[k], list) or len(e[k]) < 40 else f"<{len(e[k])} items>")
                                for k in e if k in ("ev", "api", "res", "kind", "err", "fed", "ops", "outcome", "size", "lvl", "script")}
                               for e in t["events"][:8]]})


def slim(t: dict, pos: int) -> dict:
    """Keep the body event, the failing session and the recipe (replay payloads stay small)."""
    evs = t["events"]
    start = 0
    for i in range(min(pos, len(evs) - 1), -1, -1):
        if evs[i]["ev"] == "session":
            start = i
            break
    end = len(evs)
    for i in range(start + 1, len(evs)):
        if evs[i]["ev"] == "end":
            end = i + 1
            break
    nsess_before = sum(1 for e in evs[:start] if e["ev"] == "session")
    rec = copy.deepcopy(t.get("recipe", {}))
    if rec.get("sessions"):
        rec["sessions"] = rec["sessions"][nsess_before:nsess_before + 1]
    return {"cfg": t["cfg"], "src": t["src"], "events": evs[:1] + (evs[start:end] if start else []), "recipe": rec}


# ---------------------------------------------------------------- entry points
def failures_of(v: Any) -> List[Tuple[int, str]]:
    """Clauses TLC reported for one trace: (event index, clause)."""
    info = v.info or [[], 0, []]
    out = [(int(x[0]) - 1, x[1]) for x in (info[2] or [])]
    if not v.ok:
        out.append((v.pos, v.clause or "TraceNotConsumed"))
    return out


def run(ctx: Ctx) -> None:
    ctx.rule = ("executions = read sessions (one body x one segmentation x one read API) of the real reader; "
                "distinct = different (driver, API, segmentation script kind, chunk size, body length)")
    ctx.assumptions = [
        "round-trip equality is claimed for contents that honour the RFC 2046 composer obligation (no line of a "
        "scanned part starts with --boundary) or that are read by Content-Length; other contents only get the "
        "termination / limit clauses",
        "transfer encodings are inverted by the stdlib in the harness (base64, binascii qp, zlib); only framing is specified; "
        "chunk-wise decode() is claimed for base64 and quoted-printable only (decode() is stateless, compressed parts are "
        "decoded as a whole)",
        "work is measured in awaits on the content stream and loop back-edges inside aiohttp/multipart.py, never wall clock",
        "segments are delivered in lockstep (the reader runs until it blocks before the next segment arrives) or in one burst",
        "long runs of a non-structural byte are run-length encoded identically on both sides of every comparison",
        "request.post() is driven on a mocked request over a real StreamReader (no HTTP parser in front)",
    ]
    setup_work_monitor()
    loop = steploop.new_loop()
    # ---- 1. bounded model
    l1, l2, ln = ctx.pick((3, 1, 1), (5, 2, 2))
    if os.environ.get("C19_SKIP_MODEL"):      # development aid for mutation runs (the model does not depend on /repo)
        l1, l2, ln = 1, 0, 9
    res = run_tlc("MultipartMC", mc_cfg(l1, l2, ln, True), workers=16, timeout=ctx.pick(900, 3000), deadlock=False)
    ok = ctx.expect_model_ok(f"MultipartMC(MaxLen1={l1},MaxLen2={l2},MaxLenN={ln},WithLen)", res)
    ctx.log(f"model: {res.distinct} states, ok={ok}, {res.wall_s:.0f}s")
    if not ctx.quick:
        res = run_tlc("MultipartMC", mc_cfg(6, 0, 9, False), workers=16, timeout=3000, deadlock=False)
        ok = ctx.expect_model_ok("MultipartMC(MaxLen1=6,single part,no Content-Length)", res)
        ctx.log(f"model len<=6: {res.distinct} states, ok={ok}, {res.wall_s:.0f}s")
    # ---- 2. adversarial contents from TLC
    table = class_table(ctx, 5)
    ctx.log(f"TLC classified {len(table)} (content, boundary) pairs into {len({(r[1], r[2]) for r in table})} signatures")
    # ---- 3. drivers, then TLC's verdicts on everything recorded
    todo: List[Tuple[str, List[Body]]] = []
    for name, drv in (("roundtrip", lambda: driver_roundtrip(ctx, loop, table)),
                      ("encodings", lambda: driver_encodings(ctx, loop, table)),
                      ("nested", lambda: driver_nested(ctx, loop, table)),
                      ("names", lambda: driver_names(ctx, loop)),
                      ("termination", lambda: driver_termination(ctx, loop, table)),
                      ("limits", lambda: driver_limits(ctx, loop))):
        bodies = drv()
        ns = sum(b.nsessions for b in bodies)
        ctx.log(f"{name}: {len(bodies)} bodies, {ns} sessions recorded")
        ctx.extra.setdefault("sessions_per_driver", {})[name] = ns
        todo.append((name, bodies))
        if not ctx.quick:
            judge(ctx, bodies, name)
            ctx.log(f"{name}: judged, violations so far {len(ctx.violations)}")
    if ctx.quick:
        judge(ctx, [b for _n, bs in todo for b in bs], "all")
    ctx.log(f"judged {ctx.traces} traces / {ctx.extra.get('sessions', 0)} sessions; "
            f"{ctx.extra.get('events_judged_against_reference', 0)} events compared with the reference")
    if ctx.extra.get("events_judged_against_reference", 0) == 0:
        raise MachineryError("no event was judged against the reference scanner (vacuous run)")
    ctx.evaluations = ctx.extra.get("sessions", 0)
    # anything that is not one of the named deviations is listed first
    ctx.violations.sort(key=lambda v: v.clause in DEVIATIONS)
    loop.uninstall()


def selftest(ctx: Ctx) -> int:
    setup_work_monitor()
    loop = steploop.new_loop()
    rng = random.Random(1)
    spec = {"kind": "form", "boundary": "bx", "parts": [leaf(b"ab\r\n--b\r\ncd", name="n1"), leaf(b"second", name="n2", filename="f.txt")]}
    bd = write_body(loop, spec, "selftest")
    sess = {"api": "read", "strict": False, "chunk": 8192, "mfs": 8190, "mh": 128, "cms": -1, "script": "cut"}
    run_session(loop, bd, sess, G.split_at(bd.body, [30]), rng)
    run_session(loop, bd, dict(sess, api="chunks", chunk=6), G.fixed_segments(bd.body, 1), rng)
    good = bd.trace()
    good.pop("recipe")
    idx = [i for i, e in enumerate(good["events"]) if e["ev"] == "data"]
    bad1 = copy.deepcopy(good)
    bad1["events"][idx[0]]["data"][0] ^= 1                 # corrupted content byte
    bad2 = copy.deepcopy(good)
    del bad2["events"][[i for i, e in enumerate(good["events"]) if e["ev"] == "next"][1]]   # dropped event
    bad3 = copy.deepcopy(good)
    bad3["events"][0]["size"] += 1                         # declared size lies
    bad4 = copy.deepcopy(good)
    bad4["events"][[i for i, e in enumerate(good["events"]) if e["ev"] == "end"][0]]["ops"] = 10 ** 6   # runaway reader
    bad5 = copy.deepcopy(good)
    bad5["events"][idx[-1]]["empties"] = 1                 # empty read_chunk without at_eof
    bad6 = copy.deepcopy(good)
    bad6["events"][0]["body"][-6] = 120                    # the writer's closing delimiter is damaged
    vs, _ = validate_batch("MultipartTrace", "MultipartTrace.cfg", [good, bad1, bad2, bad3, bad4, bad5, bad6],
                           env={"JAVA_TOOL_OPTIONS": "-Xss64m"})
    fails = [failures_of(v) for v in vs]
    print(fails)
    ok = (not fails[0]) and all(fails[1:]) and int((vs[0].info or [[], 0])[1]) > 0
    # spec-level mutants: window one byte short; size rule without the header block
    r1 = run_tlc("MultipartMC", mc_cfg(3, 1, 9, False, hd=1), workers=16, timeout=900, deadlock=False)
    r2 = run_tlc("MultipartMC", mc_cfg(2, 1, 9, False, sm=True), workers=16, timeout=900, deadlock=False)
    print("mutant window-1:", r1.violated, "| mutant size-without-headers:", r2.violated)
    ok = ok and r1.violated == "InvWindowSufficient" and r2.violated == "InvSizeTruthful"
    print("selftest", "passed" if ok else "FAILED")
    return 0 if ok else 2


def replay(ctx: Ctx, path: str) -> int:
    setup_work_monitor()
    payload = json.load(open(path))
    t = payload["detail"]["trace"]
    rec = t.get("recipe", {})
    loop = steploop.new_loop()
    if "spec" in rec:
        bd = write_body(loop, spec_from_json(rec["spec"]), "replay")
    else:
        bd = input_body(G.unrle(rec["input"]), bytes(t["cfg"]["b"]), t["cfg"]["uselen"], rec["ctype"], "replay", rec.get("label", ""))
    for s in rec.get("sessions", []):
        segs = []
        pos = 0
        for n in s["lens"]:
            segs.append(bd.body[pos:pos + n])
            pos += n
        run_session(loop, bd, s["sess"], segs, random.Random(0), eof=s.get("eof", True), burst=s.get("burst", False),
                    sseed=s.get("rs", 0))
    tr = bd.trace()
    tr.pop("recipe")
    vs, _ = validate_batch("MultipartTrace", "MultipartTrace.cfg", [tr], env={"JAVA_TOOL_OPTIONS": "-Xss64m"})
    fails = failures_of(vs[0])
    print(f"replay: failures={fails} events={vs[0].total}")
    if fails:
        print(f"VIOLATION property=C19 replay={path}")
        print(f"  clause={fails[0][1]}")
        return 1
    return 0
