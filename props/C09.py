"""C09 - body decoding is transparent, memory-bounded and always makes progress.

spec/BodyFlow.tla        implementation-shaped model of the four-party flow-control protocol
                         (transport pause, parser pause, decoder budget / data_available, reader
                         water marks) + consumer; TLC: all interleavings for small constants,
                         deadlock check on, liveness under weak fairness
spec/BodyFlowTrace.tla   observational monitor over recorded executions of the real pipeline
engine/gen/bodies.py     payload corpus, reference decodings (trusted codec libraries), framings,
                         segmentations, consumer schedules, unit-structured payloads

Driver A: behaviours of BodyFlow (transition cover of a small graph + simulation) are rendered
          to concrete payloads whose pieces have the modelled expansion factors and imposed on
          the real client pipeline (engine.clikit); the projection (buffered size, transport
          paused) is compared after every environment action (refinement: drift only).
Driver B: corpus x framing x segmentation x consumer schedule x read_bufsize on the client side.
Driver C: the same bodies as request bodies against a real RequestHandler; BaseRequest.read(),
          post() and streamed reads with client_max_size.
Every recorded execution is judged by TLC (BodyFlowTrace); Python only drives and records.
"""
from __future__ import annotations

import asyncio
import copy
import json
import os
import sys
import zlib
from typing import Any, Callable, Dict, List, Optional, Tuple

from engine import steploop
from engine.gen import bodies as B
from engine.runner import Ctx
from engine.tlc import (MachineryError, cover_behaviours, mktemp, require_clean, run_tlc,
                        simulate_behaviours, validate_batch)

CAP = 1_000_000_000
_CUR: Optional["Exec"] = None          # execution that currently receives wrapper events


def cap(x: int) -> int:
    return x if x < CAP else CAP


# ---------------------------------------------------------------- run-time wrappers (harness process only)
def install_wrappers() -> None:
    """Log every decompress_sync call (input / output size, max_length) of the three decoders."""
    import aiohttp.compression_utils as cu

    for name in ("ZLibDecompressor", "BrotliDecompressor", "ZSTDDecompressor"):
        cls = getattr(cu, name, None)
        if cls is None or "decompress_sync" not in cls.__dict__:
            raise MachineryError(f"cannot bind C09: aiohttp.compression_utils.{name}.decompress_sync not found")
        orig = cls.__dict__["decompress_sync"]
        if getattr(orig, "_c09", False):
            continue

        def make(orig: Any) -> Any:
            def decompress_sync(self: Any, data: Any, max_length: int = 0) -> bytes:
                x = _CUR
                try:
                    r = orig(self, data, max_length)
                except BaseException:
                    if x is not None:
                        x.rec("dec", n=len(data), m=-1, k=cap(max_length))
                    raise
                if x is not None:
                    x.rec("dec", n=len(data), m=len(r), k=cap(max_length))
                return r
            decompress_sync._c09 = True  # type: ignore[attr-defined]
            return decompress_sync
        setattr(cls, "decompress_sync", make(orig))


class NetTap:
    """Stands between the in-memory transport and the protocol: records deliveries."""

    def __init__(self, proto: Any, x: "Exec") -> None:
        self._p = proto
        self._x = x

    def data_received(self, data: bytes) -> None:
        try:
            self._p.data_received(data)
        finally:
            self._x.rec("net", n=len(data))

    def eof_received(self) -> Any:
        self._x.rec("neteof")
        return self._p.eof_received()

    def connection_lost(self, exc: Any) -> None:
        self._p.connection_lost(exc)

    def __getattr__(self, name: str) -> Any:
        return getattr(self._p, name)


# ---------------------------------------------------------------- one recorded execution
class Exec:
    def __init__(self, loop: steploop.StepLoop, plan: dict) -> None:
        self.loop = loop
        self.plan = plan
        self.limit = plan["limit"]
        self.ref: B.Ref = plan["ref"]
        self.events: List[dict] = []
        self.reader: Any = None
        self.tr: Any = None
        self.proto: Any = None
        self.consumed = 0
        self.crc = 0
        self.in_read = False
        self.done = False
        self.steps0 = loop.steps
        self.nreads = 0
        self.sealed = False
        # largest chunk size the APPLICATION has asked for so far (read(n), iter_chunked(n), an explicit
        # max_size, client_max_size for BaseRequest.read(); CAP for read()): the memory bound is stated
        # relative to max(read_bufsize, req), never relative to limits the code raised on its own
        self.req = 0

    # ---- observation
    def obs(self) -> dict:
        rd = self.reader
        if rd is None:
            return {"size": -1, "low": self.limit, "high": 2 * self.limit, "consumed": self.consumed,
                    "steps": self.loop.steps - self.steps0, "req": cap(self.req)}
        low, high = rd.get_read_buffer_limits()
        if self.in_read:
            # inside a read call the public counters lag (bytes already taken are not yet returned)
            size = getattr(rd, "_size", -1)
            if not isinstance(size, int):
                size = -1
        else:
            size = rd.total_bytes - self.consumed
        return {"size": cap(size), "low": cap(low), "high": cap(high), "consumed": cap(self.consumed),
                "steps": self.loop.steps - self.steps0, "req": cap(self.req)}

    QUIESCENT = ("net", "read", "start", "eof", "err", "srv", "stuck")

    def rec(self, ev: str, s: str = "", n: int = 0, m: int = 0, k: int = 0) -> None:
        if self.sealed:                 # tear-down of the harness itself is not part of the execution
            return
        o = self.obs()
        # st only NAMES a failure (StalePause...): outside a parser call, is the payload parser's pause
        # request still pending although it holds nothing back?  (private peek, 0 if the attributes are gone)
        o["st"] = self.stale_flag() if ev in self.QUIESCENT else 0
        self.events.append({"ev": ev, "s": s, "n": n, "m": m, "k": k, "obs": o})

    def stale_flag(self) -> int:
        try:
            p = self.proto._parser
            pp = p._payload_parser
            return 1 if (pp is not None and pp._paused and not p._payload_has_more_data) else 0
        except Exception:  # noqa: BLE001
            return 0

    def tap(self, tr: Any, proto: Any) -> None:
        self.tr, self.proto = tr, proto
        tr.protocol = NetTap(proto, self)
        op, orr = tr.pause_reading, tr.resume_reading

        def pause() -> None:
            op()
            self.rec("tpause")

        def resume() -> None:
            orr()
            self.rec("tresume")
        tr.pause_reading, tr.resume_reading = pause, resume

    def prefix_dg(self) -> int:
        c = B.ref_prefix_crc(self.ref, self.consumed)
        return -1 if c < 0 else B.dg31(c)

    def stuck_why(self) -> str:
        """"error-set": the application waits although the stream already carries an error
        (public API: StreamReader.exception())."""
        try:
            return "error-set" if (self.reader is not None and self.reader.exception() is not None) else ""
        except Exception:  # noqa: BLE001
            return ""

    def stale_peek(self) -> int:
        """Only names the clause: does the parser hold input back although nobody is paused?"""
        try:
            p = self.proto._parser
            pp = p._payload_parser
            held = bool(pp._chunk_tail) or bool(p._payload_has_more_data) or bool(pp._more_data_available)
            return 1 if held and not self.tr.reading_paused else 0
        except Exception:  # noqa: BLE001
            return 0

    # ---- the application
    async def one_read(self, content: Any, op: tuple, iters: dict) -> Tuple[bytes, bool]:
        kind = op[0]
        if kind in ("read", "iter_chunked", "readuntil_max"):
            self.req = max(self.req, op[1])
        elif kind in ("readall", "readstep"):
            self.req = CAP
        self.in_read = True
        try:
            if kind == "readline":
                d = await content.readline()
                end = d == b""
            elif kind == "readuntil":              # readuntil(sep) without max_size
                d = await content.readuntil(op[1].encode("latin-1"))
                end = d == b""
            elif kind == "readuntil_max":          # readuntil(b"\n", max_size=n)
                d = await content.readuntil(b"\n", max_size=op[1])
                end = d == b""
            elif kind == "aiter":                  # async for line in content
                it = iters.get(op)
                if it is None:
                    it = content.__aiter__()
                    iters[op] = it
                try:
                    d = await it.__anext__()
                    end = False
                except StopAsyncIteration:
                    d, end = b"", True
            elif kind == "read":
                d = await content.read(op[1])
                end = d == b""
            elif kind == "readany":
                d = await content.readany()
                end = d == b""
            elif kind == "readall":
                d = await content.read()
                end = True
            elif kind == "readstep":        # one iteration of read(): model replay only
                content.set_read_chunk_size(sys.maxsize)
                d = await content.readany()
                end = d == b""
            elif kind == "readchunk":
                d, flag = await content.readchunk()
                end = d == b"" and not flag
            elif kind in ("iter_chunked", "iter_any"):
                it = iters.get(op)
                if it is None:
                    it = (content.iter_chunked(op[1]) if kind == "iter_chunked" else content.iter_any()).__aiter__()
                    iters[op] = it
                try:
                    d = await it.__anext__()
                    end = False
                except StopAsyncIteration:
                    d, end = b"", True
            else:
                raise MachineryError(f"unknown consumer op {op!r}")
        finally:
            self.in_read = False
        self.consumed += len(d)
        self.crc = zlib.crc32(d, self.crc)
        self.nreads += 1
        self.rec("read", s=kind, n=(op[1] if len(op) > 1 and isinstance(op[1], int) else -1), m=len(d),
                 k=B.dg31(self.crc))
        if end:
            self.rec("eof", k=self.prefix_dg())
        return d, end

    def rec_err(self, exc: BaseException, ev: str = "err") -> None:
        name = type(exc).__name__
        s = "payload" if name.endswith("PayloadError") else "other:" + name
        self.rec(ev, s=s, n=self.consumed, k=self.prefix_dg())

    async def consume(self, content: Any, sched: List[tuple], cyield: int = 0) -> None:
        self.reader = content
        self.rec("start")
        i = 0
        last: Optional[tuple] = None
        iters: dict = {}
        try:
            while True:
                if i < len(sched):
                    op = sched[i]
                    i += 1
                else:
                    assert last is not None
                    op = last
                if op[0] == "pause":
                    for _ in range(op[1]):
                        await asyncio.sleep(0)
                    continue
                last = op
                _d, end = await self.one_read(content, op, iters)
                if end:
                    return
                if cyield and self.nreads % cyield == 0:
                    await asyncio.sleep(0)
        except asyncio.CancelledError:
            raise
        except MachineryError:
            raise
        except Exception as exc:  # noqa: BLE001
            self.rec_err(exc)
            # the error must persist and nothing more may be delivered
            for _ in range(2):
                try:
                    await self.one_read(content, ("readany",), iters)
                except asyncio.CancelledError:
                    raise
                except Exception as exc2:  # noqa: BLE001
                    self.rec_err(exc2)

    # ---- driving
    def drive(self, feed: Callable[[bytes], Any], close: Callable[[], Any], queue: List[bytes], gap: int,
              close_after: bool, finished: Callable[[], bool]) -> None:
        plan = self.plan
        hard = 2 * (60 * (plan["inLen"] + B.ref_len(self.ref) + plan["pauses"]) + 600) + 5000
        i = 0
        countdown = 0
        closed = False
        while not finished():
            acted = False
            if i < len(queue):
                if countdown <= 0:
                    feed(queue[i])
                    i += 1
                    countdown = gap
                    acted = True
            elif close_after and not closed:
                close()
                closed = True
                acted = True
            ran = self.loop.run_iteration()
            countdown -= 1
            if finished():
                break
            if ran == 0 and not acted and i >= len(queue) and (closed or not close_after):
                self.rec("stuck", k=self.stale_peek(), s=self.stuck_why())
                break
            if self.loop.steps - self.steps0 > hard:
                self.rec("budget")
                break
        self.rec("end")
        self.sealed = True

    def trace(self) -> dict:
        p = self.plan
        return {"cfg": {"side": p["side"], "identity": p["codec"] == "identity", "br": p["codec"] == "br",
                        "deflate": p["codec"] in ("deflate", "deflate-raw"),
                        "limit": p["limit"],
                        "cms": p.get("cms", 0), "refOk": bool(self.ref.ok) and not p.get("netTrunc", False),
                        "refWhy": self.ref.why if not self.ref.ok else "",
                        "refLen": B.ref_len(self.ref), "refDigest": B.dg31(B.ref_crc(self.ref)),
                        "netTrunc": bool(p.get("netTrunc", False)), "inLen": p["inLen"], "pauses": p["pauses"],
                        "maxPiece": p["maxPiece"]},
                "src": p.get("src", "corpus"), "name": p["name"], "events": self.events}


def sched_pauses(sched: List[tuple]) -> int:
    return sum(o[1] for o in sched if o[0] == "pause")


# ---------------------------------------------------------------- wire rendering
def render(plan: dict) -> List[bytes]:
    """Fill in the wire pieces of a plan: [head(+glued first piece), piece, ...]."""
    side, codec, framing = plan["side"], plan["codec"], plan["framing"]
    enc: bytes = plan["enc"]
    wire, _ = B.frame(enc, framing, plan.get("chunks"))
    ce = B.header_value(codec)
    hs: List[str] = []
    if side == "client":
        hs.append("HTTP/1.1 200 OK")
    else:
        hs.append("POST /p HTTP/1.1")
        hs.append("Host: h")
        hs.append("Content-Type: " + plan.get("ctype", "application/octet-stream"))
    if ce:
        hs.append("Content-Encoding: " + ce)
    if framing == "length":
        hs.append(f"Content-Length: {len(enc)}")
    elif framing == "chunked":
        hs.append("Transfer-Encoding: chunked")
    else:
        hs.append("Connection: close")
    head = ("\r\n".join(hs) + "\r\n\r\n").encode("latin-1")
    ntr = plan.get("netcut")
    if ntr is not None:
        wire = wire[:ntr]
    pieces = B.cut(wire, [c for c in plan.get("cuts", []) if 0 < c < len(wire)])
    plan["inLen"] = len(wire)
    plan["maxPiece"] = max([len(p) for p in pieces] or [0])
    if plan.get("glue") and pieces:
        return [head + pieces[0]] + pieces[1:]
    return [head] + pieces


# ---------------------------------------------------------------- client side
def run_client(loop: steploop.StepLoop, plan: dict) -> dict:
    global _CUR
    from engine.clikit import ClientKit

    queue = render(plan)
    sched = plan["sched"]
    plan["pauses"] = sched_pauses(sched) + plan["gap"] * len(queue) + (plan["inLen"] if plan.get("cyield") else 0)
    x = Exec(loop, plan)
    kit = ClientKit(loop)
    kit.on_create = lambda pc: x.tap(pc.tr, pc.proto)

    async def go() -> None:
        try:
            r = await kit.session.get("http://h/p", read_bufsize=plan["limit"])
        except asyncio.CancelledError:
            raise
        except Exception as exc:  # noqa: BLE001
            x.rec_err(exc)
            x.done = True
            return
        try:
            await x.consume(r.content, sched, plan.get("cyield", 0))
        finally:
            x.done = True

    _CUR = x
    try:
        t = kit.spawn("r1", go())
        loop.run_until_idle()
        if not kit.conns:
            raise MachineryError("client did not open a connection")
        c = kit.conns[0]
        close_after = plan["framing"] == "eof" or plan.get("netcut") is not None
        x.drive(c.feed, c.close_by_peer, queue, plan["gap"], close_after, lambda: x.done or t.done())
    finally:
        _CUR = None
        kit.close()
    return x.trace()


# ---------------------------------------------------------------- server side
def run_server(loop: steploop.StepLoop, plan: dict) -> dict:
    global _CUR
    from aiohttp import web
    from engine import srvkit

    queue = render(plan)
    sched = plan.get("sched") or []
    plan["pauses"] = sched_pauses(sched) + plan["gap"] * len(queue)
    x = Exec(loop, plan)
    op = plan["srvop"]

    async def handler(request: Any) -> Any:
        content = request.content
        try:
            if op == "stream":
                await x.consume(content, sched, plan.get("cyield", 0))
            else:
                x.reader = content
                x.rec("start")
                if op in ("read", "post") and plan["cms"]:
                    x.req = plan["cms"]        # BaseRequest.read() works in pieces of client_max_size
                elif op == "mpost":
                    # post() reads multipart fields with read_chunk(8192) / read_chunk(DEFAULT_CHUNK_SIZE):
                    # that constant is the chunk size this consumer asks for
                    from aiohttp import helpers
                    x.req = max(8192, int(getattr(helpers, "DEFAULT_CHUNK_SIZE", 2 ** 18)))
                x.in_read = True
                try:
                    if op == "read":
                        body = await request.read()
                    elif op == "mpost":
                        # multipart/form-data: re-render what post() parsed with the generator's own
                        # canonical renderer; the monitor compares length and digest with the reference
                        form = await request.post()
                        fields = []
                        for name, val in form.items():
                            if isinstance(val, web.FileField):
                                fields.append((name, val.filename, val.file.read()))
                            elif isinstance(val, (bytes, bytearray)):
                                fields.append((name, None, bytes(val)))
                            else:
                                fields.append((name, None, val.encode("latin-1")))
                        body = B.multipart_form(fields)
                    else:
                        form = await request.post()
                        body = b"a=" + form.get("a", "").encode("latin-1")
                finally:
                    x.in_read = False
                x.consumed += len(body)
                x.rec("srv", s="ok", n=len(body), m=B.dg31(zlib.crc32(body)), k=cap(content.total_bytes))
        except asyncio.CancelledError:
            raise
        except web.HTTPRequestEntityTooLarge:
            x.in_read = True           # the public counters lag: observe the buffer itself
            # what read() had accumulated = everything decoded so far - what is still buffered
            # (public API: total_bytes, read_nowait)
            total = content.total_bytes
            try:
                buffered = len(content.read_nowait(-1))
            except Exception:  # noqa: BLE001  (the payload carries an error: read_nowait raises it)
                buffered = getattr(content, "_size", None)
            x.rec("srv", s="413", n=cap(total), k=(cap(total - buffered) if isinstance(buffered, int) else -1))
        except Exception as exc:  # noqa: BLE001
            x.in_read = True
            x.rec_err(exc, "srv")
        finally:
            x.in_read = False
            if op != "stream":
                x.reader = None        # the handler is done with the body; no further size observation
            x.done = True
        return web.Response(text="ok")

    app = web.Application(client_max_size=plan["cms"])
    app.router.add_route("*", "/{tail:.*}", handler)
    kit = srvkit.ServerKit(loop, None, app=app, mode="app", read_bufsize=plan["limit"], keepalive_timeout=30.0,
                           lingering_time=0.0)
    _CUR = x
    conn = None
    try:
        conn = kit.connect()
        x.tap(conn.tr, conn.proto)
        close_after = plan.get("netcut") is not None
        x.drive(conn.feed, conn.eof, queue, plan["gap"], close_after, lambda: x.done)
    finally:
        _CUR = None
        try:
            if conn is not None:
                if not conn.tr.closed:
                    conn.tr.drop(None)
                loop.run_until_idle()
                th = conn.start_task
                if th is not None and not th.done():
                    th.cancel()
                    loop.run_until_idle()
            kit.close()
        except Exception:  # noqa: BLE001
            pass
        for h in list(loop._scheduled):
            h.cancel()
        loop._scheduled.clear()
        loop.exc_contexts.clear()
    return x.trace()


# ---------------------------------------------------------------- plans (drivers B and C)
LIMITS = [1, 2, 3, 7, 16, 64, 1024, 65536]


def _base_plan(rng: Any, body: B.Body, side: str, limit: int) -> dict:
    framing = rng.choice(["length", "chunked", "eof"] if side == "client" else ["length", "chunked"])
    plan: Dict[str, Any] = {"side": side, "codec": body.codec, "framing": framing, "enc": body.enc, "ref": body.ref,
                            "limit": limit, "name": body.name, "kind": body.kind, "gap": rng.choice([0, 0, 0, 1, 2, 5]),
                            "glue": rng.random() < 0.2, "cyield": rng.choice([0, 0, 1, 3])}
    marks = list(body.marks)
    if framing == "chunked":
        plan["chunks"] = rng.choice(B.chunk_plans(rng, len(body.enc), marks))
        wire, offmap = B.frame(body.enc, "chunked", plan["chunks"])
        marks = [offmap[m] for m in marks if m in offmap] + [v for v in list(offmap.values())[:6]]
        n = len(wire)
    else:
        n = len(body.enc)
    plan["cuts"] = rng.choice(B.segmentations(rng, n, marks, 7))
    return plan


def client_plans(ctx: Ctx, rng: Any, bodies: List[B.Body], per_body: int) -> List[dict]:
    plans = []
    for body in bodies:
        if not body.enc:
            continue
        # well-formed bodies get more schedules than each single truncation / bit flip
        for _ in range(per_body if body.kind in ("trunc", "flip") else 4 * per_body):
            limit = rng.choice(LIMITS if body.kind not in ("trunc", "flip") else [1, 2, 7, 64, 65536])
            plan = _base_plan(rng, body, "client", limit)
            plan["sched"] = rng.choice(B.schedules(rng, limit, 22))
            if body.ref.ok and rng.random() < 0.04 and plan["framing"] != "eof":
                wire_len = len(B.frame(body.enc, plan["framing"], plan.get("chunks"))[0])
                if wire_len > 2:
                    plan["netcut"] = rng.randrange(1, wire_len - 1)       # HTTP framing cut short
                    plan["netTrunc"] = True
                    plan["name"] += "/netcut"
            plans.append(plan)
    return plans


def server_plans(ctx: Ctx, rng: Any, bodies: List[B.Body], per_body: int) -> List[dict]:
    plans = []
    for body in bodies:
        if not body.enc:
            continue
        for _ in range(per_body if body.kind in ("trunc", "flip") else 3 * per_body):
            limit = rng.choice([1, 2, 7, 64, 1024, 65536])
            plan = _base_plan(rng, body, "server", limit)
            n = B.ref_len(body.ref)
            plan["srvop"] = "post" if "/form" in body.name else rng.choice(["read", "read", "stream"])
            plan["cms"] = rng.choice([0, 1, max(1, n // 3), max(1, n - 1), n, n + 1, 2 * n + 10, 1024 ** 2])
            if plan["srvop"] == "post":
                plan["ctype"] = "application/x-www-form-urlencoded"
            if plan["srvop"] == "stream":
                plan["sched"] = rng.choice(B.schedules(rng, limit, 22))
            plan["name"] = "srv/" + plan["srvop"] + "/" + plan["name"]
            plans.append(plan)
    return plans


def multipart_bodies(rng: Any, quick: bool) -> List[Tuple[B.Body, int]]:
    """(body, length of the largest field) - multipart/form-data request bodies for post(), every codec:
    incompressible and highly compressible (wire size far below the decoded size)."""
    out = []
    for codec in B.CODECS:
        shapes = [("small", [("a", None, b"x" * 40), ("f", "up.bin", bytes(range(256)) * 2)]),
                  ("zeros", [("a", None, b"ab"), ("field", None, b"0" * (1 << 16))]),
                  ("filezeros", [("f", "z.bin", b"\0" * (1 << 16)), ("t", None, b"tail")])]
        if not quick:
            shapes.append(("mixed", [("a", None, bytes(rng.choice(b"abcdefgh") for _ in range(5000))),
                                     ("f", "m.bin", bytes(rng.randrange(256) for _ in range(3000)))]))
        for nm, fields in shapes:
            raw = B.multipart_form(fields)
            enc = B.encode(codec, raw)
            out.append((B.Body(f"{codec}/mpform-{nm}", codec, enc, B.reference(codec, enc), "form"),
                        max(len(v) for _n, _f, v in fields)))
    return out


def multipart_plans(ctx: Ctx, rng: Any) -> List[dict]:
    """request.post() on multipart/form-data with and without Content-Encoding, client_max_size clearly
    below the decoded size (413 required) and at / above it (the form must come back intact).  Values
    between `largest field` and `whole body` are left out: there the code may or may not have seen the
    closing delimiter when it tests the size."""
    plans = []
    for body, big in multipart_bodies(rng, ctx.quick):
        n = B.ref_len(body.ref)
        for cms in [1, max(1, big // 2), max(1, big - 1), n, n + 1, 4 * n, 0][:: (1 if not ctx.quick else 1)]:
            # (readline() of the multipart reader is bounded by the high-water mark: the buffer must hold a line)
            limit = rng.choice([512, 4096, 65536])
            plan = _base_plan(rng, body, "server", limit)
            plan.update(srvop="mpost", cms=cms, ctype=f"multipart/form-data; boundary={B.BOUNDARY}",
                        name=f"srv/mpost/{body.name}/cms{cms}", kind="form")
            plans.append(plan)
    return plans


def aligned_plans(ctx: Ctx, rng: Any, bodies: List[B.Body]) -> List[dict]:
    """Bodies with member boundaries: a network piece / HTTP chunk boundary exactly at every member
    boundary (the sender flushes member by member), in every framing, on both sides."""
    plans = []
    for body in bodies:
        marks = [m for m in body.marks if 0 < m < len(body.enc)]
        if not marks or not body.enc:
            continue
        per_member = [b - a for a, b in zip([0] + marks, marks + [len(body.enc)])]
        for side in ("client", "server"):
            for framing in (("length", "chunked", "eof") if side == "client" else ("length", "chunked")):
                limit = rng.choice([2, 16, 65536])
                plan: Dict[str, Any] = {"side": side, "codec": body.codec, "framing": framing, "enc": body.enc,
                                        "ref": body.ref, "limit": limit, "name": body.name + "/aligned",
                                        "kind": body.kind, "gap": rng.choice([0, 2]), "glue": rng.random() < 0.3,
                                        "cyield": 0}
                if framing == "chunked":
                    plan["chunks"] = per_member
                    wire, offmap = B.frame(body.enc, "chunked", per_member)
                    # one piece per chunk (cut after each chunk's CRLF) or everything in one piece
                    plan["cuts"] = rng.choice([[offmap[m] - len(b"%x\r\n" % per_member[i + 1]) for i, m in enumerate(marks)], []])
                else:
                    plan["cuts"] = list(marks)
                if side == "client":
                    plan["sched"] = rng.choice([[("read", 4096)], [("readany",)], [("read", limit + 1)], [("readall",)]])
                else:
                    plan["srvop"] = rng.choice(["read", "stream"])
                    plan["cms"] = 0
                    plan["sched"] = [("read", 4096)]
                    plan["name"] = "srv/" + plan["srvop"] + "/" + plan["name"]
                plans.append(plan)
    return plans


def plateau_plans(ctx: Ctx, rng: Any, bodies: List[B.Body], per_body: int) -> List[dict]:
    """Chunked + coded bodies cut where the decoder emits nothing: an HTTP chunk ends inside (or at the
    end of) a stretch of input that decodes to zero bytes (checksum / trailer, header of the next member,
    empty block ...), the network cuts the chunk right where that stretch begins, and the application
    has drained everything and waits inside its read call when the rest of the chunk arrives."""
    plans = []
    for body in bodies:
        if body.codec == "identity" or not body.ref.ok or len(body.enc) < 4:
            continue
        cum = B.stream_profile(body.codec, body.enc)
        pls = [(i, j) for (i, j) in B.plateaus(cum) if cum[j] < cum[-1] or j == len(body.enc)]
        if not pls:
            continue
        # prefer stretches that contain a member boundary, then the longest ones
        pls.sort(key=lambda ij: (not any(ij[0] < m <= ij[1] for m in body.marks), -(ij[1] - ij[0])))
        for (i, j) in pls[:per_body]:
            inside = [m for m in body.marks if i < m <= j]
            b = rng.choice(inside) if inside and rng.random() < 0.7 else rng.randint(i + 1, j)
            if b >= len(body.enc):
                chunks = [len(body.enc)]
            else:
                chunks = [b, len(body.enc) - b]
            wire, offmap = B.frame(body.enc, "chunked", chunks)
            first_end = offmap[0] + chunks[0] + 2                 # after the CRLF that ends the first chunk
            cut_in = B.wire_offset(offmap, rng.randint(i, b - 1) if rng.random() < 0.5 else i)
            for side in ("client", "server"):
                limit = rng.choice([16, 1024, 65536])
                n = rng.choice([64, 4096])
                plan: Dict[str, Any] = {"side": side, "codec": body.codec, "framing": "chunked", "enc": body.enc,
                                        "ref": body.ref, "limit": limit, "name": f"{body.name}/plateau@{i}-{j}",
                                        "kind": body.kind, "gap": rng.choice([3, 6]), "glue": rng.random() < 0.5,
                                        "cyield": 0, "chunks": chunks,
                                        "cuts": sorted({cut_in, first_end} | ({first_end - 2} if rng.random() < 0.3 else set())),
                                        "sched": rng.choice([[("read", n)], [("iter_chunked", n)], [("read", n)],
                                                             [("readchunk",)], [("readany",)]])}
                if side == "server":
                    plan["srvop"] = "stream"
                    plan["cms"] = 0
                    plan["name"] = "srv/stream/" + plan["name"]
                plans.append(plan)
    return plans


def error_after_chunk_end_plans(ctx: Ctx, rng: Any, bodies: List[B.Body]) -> List[dict]:
    """Chunked + corrupt coded bodies: the application has read everything decoded so far and waits; the
    next network piece first completes an HTTP chunk without adding any output (the waiting read is woken
    with nothing to return) and then carries the input the decoder rejects - the error must still reach
    the read."""
    plans = []
    for body in bodies:
        if body.codec == "identity" or body.ref.ok or body.ref.why != "corrupt":
            continue
        e = B.first_error_offset(body.codec, body.enc)
        cum = B.stream_profile(body.codec, body.enc)
        if e <= 1 or cum[e] == 0:
            continue
        # the stretch of input right before the rejected byte that decodes to nothing (e.g. the checksum
        # whose last byte fails): the HTTP chunk ends inside it, the network cuts where it begins
        i = min(k for k in range(1, e + 1) if cum[k] == cum[e])
        hi = min(e, len(body.enc) - 1)
        if hi <= i:
            continue
        for b in {hi, rng.randint(i + 1, hi)}:
            chunks = [b, len(body.enc) - b]
            wire, offmap = B.frame(body.enc, "chunked", chunks)
            data_end = B.wire_offset(offmap, rng.randint(i, b - 1))     # the rest of chunk 1 adds no output
            for side in ("client", "server"):
                plan: Dict[str, Any] = {"side": side, "codec": body.codec, "framing": "chunked", "enc": body.enc,
                                        "ref": body.ref, "limit": rng.choice([64, 65536]),
                                        "name": f"{body.name}/err-after-chunk-end@{b}", "kind": body.kind,
                                        "gap": rng.choice([3, 6]), "glue": rng.random() < 0.5, "cyield": 0,
                                        "chunks": chunks, "cuts": [data_end],
                                        "sched": rng.choice([[("read", 4096)], [("readany",)], [("readchunk",)],
                                                             [("iter_chunked", 512)]])}
                if side == "server":
                    plan.update(srvop="stream", cms=0, name="srv/stream/" + plan["name"])
                plans.append(plan)
    return plans


SLICE_LIMITS = [64, 1024, 65536]


def slice_aligned_plans(ctx: Ctx, rng: Any) -> List[dict]:
    """Multi-member / multi-frame bodies (single stream for br) whose decoded size reaches the decoder's
    slice limit (= read_bufsize while the application does not ask for more) exactly at, one byte before
    and one byte after a member end, with further members behind; delivered in one read (no later wire
    data will carry parked input along) and in several; every kind of consumer.  Judged for completeness."""
    plans = []
    for L in SLICE_LIMITS:
        pats = [[L // 4] * 5 + [3], [L, 5, L, 7], [L - 1, 9, L + 1, 3], [L + 1, L - 1, 2], [L // 2] * 4 + [1],
                [2 * L, 3], [L, L, L]]
        for codec in B.CODECS:
            if codec == "identity":
                continue
            for pi, pat in enumerate(pats):
                parts = [B._mixed(rng, n) for n in pat]
                if codec in B.MULTI:
                    enc, marks = B.concat_members(codec, parts)
                else:
                    enc, marks = B.encode(codec, b"".join(parts)), []
                body = B.Body(f"{codec}/slice{L}-p{pi}", codec, enc, B.Ref(True, b"".join(parts)), "members", marks)
                consumers = [[("readany",)], [("read", max(1, L // 2))], [("readchunk",)], [("iter_any",)],
                             [("iter_chunked", L)], [("read", L)], [("pause", 9), ("readany",)]]
                picks = [(rng.choice(consumers), "one"), (rng.choice(consumers), "several")]
                if not ctx.quick:
                    picks += [(c, rng.choice(["one", "several"])) for c in consumers]
                for sched, delivery in picks:
                    side = "server" if rng.random() < 0.25 else "client"
                    framing = rng.choice(["length", "chunked", "eof"] if side == "client" else ["length", "chunked"])
                    plan: Dict[str, Any] = {"side": side, "codec": codec, "framing": framing, "enc": enc,
                                            "ref": body.ref, "limit": L, "name": body.name + "/" + delivery,
                                            "kind": "members", "gap": 0 if delivery == "one" else rng.choice([0, 2, 4]),
                                            "glue": delivery == "one" or rng.random() < 0.3, "cyield": rng.choice([0, 0, 2]),
                                            "sched": sched}
                    if framing == "chunked":
                        plan["chunks"] = rng.choice(B.chunk_plans(rng, len(enc), marks)[:1] + B.chunk_plans(rng, len(enc), marks)[2:])
                    if delivery == "one":
                        plan["cuts"] = []
                    else:
                        n = len(B.frame(enc, framing, plan.get("chunks"))[0])
                        plan["cuts"] = sorted({rng.randrange(1, n) for _ in range(rng.choice([1, 2, 4]))}) if n > 1 else []
                        if framing != "chunked" and marks and rng.random() < 0.5:
                            plan["cuts"] = list(marks)
                    if side == "server":
                        plan.update(srvop="stream", cms=0, name="srv/stream/" + plan["name"])
                    plans.append(plan)
    return plans


def line_plans(ctx: Ctx, rng: Any) -> List[dict]:
    """Line-by-line consumers (readline, `async for line in content`, readuntil(sep), readuntil with an
    explicit max_size, mixed with read(n)) on highly compressible text whose wire bytes arrive at once
    or in pieces: the bytes must be right and the buffered amount must stay within the bound that
    read_bufsize (and what the application explicitly asked for) gives."""
    plans = []
    for L in SLICE_LIMITS:
        w = max(8, L // 2)
        total = ctx.pick(40, 200) * L
        texts = {"zeros": (b"0" * (w - 1) + b"\n") * (total // w),
                 "ragged": b"".join(bytes([97 + k % 26]) * rng.randint(0, w - 1) + b"\n" for k in range(total // w)) + b"no newline at the end",
                 "semi": (b"v" * (w - 1) + b";") * (total // w)}
        for codec in B.CODECS:
            for tname, text in texts.items():
                enc = B.encode(codec, text)
                ref = B.Ref(True, text)
                if tname == "semi":           # records end in ";", there is no newline at all
                    consumers = [[("readuntil", ";")], [("pause", 5), ("readuntil", ";")],
                                 [("readuntil", ";"), ("read", 7), ("readuntil", ";")]]
                else:
                    consumers = [[("readline",)], [("aiter",)], [("readuntil", "\n")], [("readuntil_max", 2 * L + 3)],
                                 [("readline",), ("read", 7), ("readline",)], [("pause", 5), ("aiter",)]]
                for sched in (consumers if not ctx.quick else [rng.choice(consumers[:3]), rng.choice(consumers)]):
                    side = "server" if rng.random() < 0.25 else "client"
                    framing = rng.choice(["length", "chunked", "eof"] if side == "client" else ["length", "chunked"])
                    n = len(enc)
                    plan: Dict[str, Any] = {"side": side, "codec": codec, "framing": framing, "enc": enc, "ref": ref,
                                            "limit": L, "name": f"{codec}/lines{L}-{tname}", "kind": "lines",
                                            "gap": rng.choice([0, 0, 3]), "glue": rng.random() < 0.5, "cyield": 0,
                                            "sched": sched,
                                            "cuts": rng.choice([[], [n // 2], sorted({rng.randrange(1, n) for _ in range(3)})])}
                    if framing == "chunked":
                        plan["chunks"] = rng.choice([[n], [max(1, n // 3)] * 4])
                        plan["cuts"] = [c for c in plan["cuts"]][:1]
                    if side == "server":
                        plan.update(srvop="stream", cms=0, name="srv/stream/" + plan["name"])
                    plans.append(plan)
    return plans


def form_bodies(rng: Any) -> List[B.Body]:
    """Bodies that post() can parse: a=<latin-1 text without separators>."""
    out = []
    for codec in B.CODECS:
        for n in (5, 300):
            raw = b"a=" + bytes(rng.choice(b"abcdefghijklmnopqrstuvwxyz0123456789") for _ in range(n))
            enc = B.encode(codec, raw)
            out.append(B.Body(f"{codec}/form{n}", codec, enc, B.reference(codec, enc), "random"))
    return out


def bomb_plans(ctx: Ctx, rng: Any) -> List[dict]:
    plans = []
    for body in B.bombs(ctx.quick):
        n = B.ref_len(body.ref)
        combos = [(65536, [("readany",)]), (65536, [("read", 100000)]), (4096, [("pause", 30), ("read", 1000)]),
                  (65536, [("readall",)])]
        if not ctx.quick:
            combos += [(1024, [("readany",)]), (1 << 20, [("iter_chunked", 1 << 18)])]
        for limit, sched in combos:
            rd = min([o[1] for o in sched if o[0] in ("read", "iter_chunked")] or [limit])
            if n // limit + n // rd > 25000:          # keeps a trace below ~10^5 events
                continue
            for framing in (["length", "chunked"] if ctx.quick else ["length", "chunked", "eof"]):
                plan = {"side": "client", "codec": body.codec, "framing": framing, "enc": body.enc, "ref": body.ref,
                        "limit": limit, "name": body.name + "/" + framing, "kind": "bomb", "gap": rng.choice([0, 1]),
                        "glue": False, "cyield": 0, "sched": sched,
                        "cuts": sorted({rng.randrange(1, len(body.enc)) for _ in range(rng.choice([0, 1, 3]))})}
                if framing == "chunked":
                    plan["chunks"] = [rng.choice([len(body.enc), 16, 300])] * (len(body.enc) // 16 + 2)
                plans.append(plan)
        # the same bomb as a request body: read() must answer 413 without decoding it all
        for cms in ([1024 ** 2 // 4] if ctx.quick else [1024 ** 2, 64 * 1024]):
            plans.append({"side": "server", "codec": body.codec, "framing": "length", "enc": body.enc, "ref": body.ref,
                          "limit": 65536, "name": "srv/read/" + body.name, "kind": "bomb", "gap": 0, "glue": False,
                          "cyield": 0, "sched": [], "cuts": [], "srvop": "read", "cms": cms})
    # a compressed multipart form whose wire size is far below client_max_size and whose decoded size is
    # far above: post() must answer 413
    for codec in B.CODECS:
        if codec == "identity":
            continue
        raw = B.multipart_form([("field", None, b"\0" * ctx.pick(1 << 20, 16 << 20)), ("t", None, b"x")])
        enc = B.encode(codec, raw, level=9)
        for framing in ("length", "chunked"):
            plans.append({"side": "server", "codec": codec, "framing": framing, "enc": enc,
                          "ref": B.Ref(True, raw), "limit": 65536, "name": f"srv/mpost/{codec}/form-bomb/{framing}",
                          "kind": "bomb", "gap": 0, "glue": False, "cyield": 0, "sched": [],
                          "cuts": [len(enc) // 2] if framing == "length" else [], "chunks": [4096] * (len(enc) // 4096 + 1),
                          "srvop": "mpost", "cms": 65536, "ctype": f"multipart/form-data; boundary={B.BOUNDARY}"})
    return plans


def run_plan(loop: steploop.StepLoop, plan: dict) -> dict:
    tr = run_client(loop, plan) if plan["side"] == "client" else run_server(loop, plan)
    tr["plan"] = plan_to_json(plan)
    return tr


def plan_to_json(plan: dict) -> dict:
    d = {k: v for k, v in plan.items() if k not in ("enc", "ref")}
    d["enc"] = list(plan["enc"]) if len(plan["enc"]) <= 4096 else None
    if d["enc"] is None:
        import base64
        z = zlib.compress(plan["enc"], 9)
        d["encz"] = base64.b64encode(z).decode() if len(z) <= 1 << 18 else None
    d["sched"] = [list(o) for o in plan.get("sched") or []]
    return d


def plan_from_json(d: dict) -> dict:
    plan = dict(d)
    if d.get("enc") is None and d.get("encz"):
        import base64
        plan["enc"] = zlib.decompress(base64.b64decode(d["encz"]))
        plan["ref"] = B.reference(d["codec"], plan["enc"])
    elif d.get("enc") is None:
        codec = d["codec"]
        mb = int(d["name"].split("bomb")[1].split("M")[0])
        body = [b for b in B.bombs(True, [codec]) + B.bombs(False, [codec]) if f"bomb{mb}M" in b.name][0]
        plan["enc"], plan["ref"] = body.enc, body.ref
    else:
        plan["enc"] = bytes(d["enc"])
        plan["ref"] = B.reference(d["codec"], plan["enc"])
    plan["sched"] = [tuple(o) for o in d.get("sched") or []]
    return plan


# ---------------------------------------------------------------- judging
SLIM = ("ev", "s", "n", "m", "k", "obs")


def judge(ctx: Ctx, traces: List[dict], label: str) -> None:
    if not traces:
        return
    slim = [{"cfg": t["cfg"], "src": t["src"], "events": t["events"]} for t in traces]
    verdicts, res = validate_batch("BodyFlowTrace", "BodyFlowTrace.cfg", slim, timeout=1800)
    ctx.add_trace_batch(len(traces), res)
    for t, v in zip(traces, verdicts):
        cfg = t["cfg"]
        key = (cfg["side"], t["name"].split("@")[0], cfg["limit"], cfg["refOk"],
               tuple(e["ev"] for e in t["events"] if e["ev"] not in ("dec", "read", "net"))[:40],
               len(t["events"]) // 8)
        ctx.distinct.add(hash(key))
        if v.ok:
            continue
        if v.clause in ("HarnessCount", "NoEndEvent", "EventsAfterEnd"):
            raise MachineryError(f"harness bookkeeping broke ({v.clause}) in {t['name']} at event {v.pos}")
        ev = t["events"][v.pos] if v.pos < len(t["events"]) else {}
        plan = t.get("plan", {})
        if v.clause == "TruncatedStreamCleanEof":
            sig = f"{v.clause}: codec={plan.get('codec')}"
        elif v.clause == "ErrorSetReaderWaits":
            sig = f"{v.clause}: chunked body, error set after a data-less wake-up of the waiting read"
        elif v.clause.startswith("StalePause"):
            sig = f"{v.clause}: framing={plan.get('framing')} coded={plan.get('codec') != 'identity'}"
        else:
            sig = (f"{v.clause}: {cfg['side']} codec={plan.get('codec')} framing={plan.get('framing')} "
                   f"kind={plan.get('kind', t['src'])}")
        detail = {"trace": {"cfg": cfg, "src": t["src"], "name": t["name"],
                            "events": t["events"][max(0, v.pos - 30):v.pos + 1]},
                  "plan": plan, "failed_at": v.pos, "event": ev, "label": label}
        ctx.violation(v.clause, sig, detail, "trace")
    t0 = traces[0]
    ctx.sample({"src": t0["src"], "name": t0["name"], "cfg": t0["cfg"],
                "events": [{k: e[k] for k in ("ev", "s", "n", "m", "k")} for e in t0["events"][:10]]})


# ---------------------------------------------------------------- model configurations
BASE_CONSTS: Dict[str, Any] = dict(
    Mode='"Chunked"', Codec='"zlib"', Side='"client"', Limit=1, Big=6, MaxPieces=4, MaxUnits=1,
    ReadSizes="{0, 1, 3, 1000}", ClientMax=2, WithMembers="FALSE", WithCorrupt="FALSE", WithTrunc="FALSE", MidChunkCuts="TRUE", ZeroUnits="TRUE",
    ClearStalePause="TRUE", EofKeepsParser="TRUE", UseBudget="TRUE", ResumeReenters="TRUE",
    PauseReachesParser="TRUE", KeepPending="TRUE", CheckEachChunk="TRUE", ErrChecked="TRUE",
    PendingCountsAvail="TRUE", LineKeepsLimits="TRUE")
SAFETY = ["Resident", "OneCallBudget", "NoInputLost", "ErrorNotData", "NoDeadlock", "NoSpuriousFailure",
          "EofMeansAllDelivered",
          "HeldBackImpliesPaused", "MaxSize", "NeverReturnsMore"]


def write_cfg(over: Dict[str, Any], *, spec: str = "Spec", invs: Optional[List[str]] = None,
              props: Optional[List[str]] = None) -> str:
    c = dict(BASE_CONSTS)
    for k, v in over.items():
        c[k] = f'"{v}"' if k in ("Mode", "Codec", "Side") else ("TRUE" if v is True else "FALSE" if v is False else v)
    t = f"SPECIFICATION {spec}\nCONSTANTS\n" + "".join(f"  {k} = {v}\n" for k, v in c.items())
    t += "".join(f"INVARIANT {i}\n" for i in (SAFETY if invs is None else invs))
    t += "".join(f"PROPERTY {p}\n" for p in (["ErrStopsFeed"] if props is None else props))
    d = mktemp("c09cfg")
    p = os.path.join(d, "BodyFlow.cfg")
    with open(p, "w") as f:
        f.write(t)
    return p


def cname(over: Dict[str, Any]) -> str:
    return "BodyFlow(" + ",".join(f"{k}={v}" for k, v in over.items()) + ")"


def code_keeps_stale_pause(loop: steploop.StepLoop) -> bool:
    """Which model configuration mirrors the code?  A tiny concrete probe of the pure-Python payload
    parser: does a pause request that found nothing to hold back survive the feed_data call?"""
    from aiohttp.base_protocol import BaseProtocol
    from aiohttp.http_parser import HeadersParser, HttpPayloadParser
    from aiohttp.streams import StreamReader

    class P(BaseProtocol):
        def pause_reading(self) -> None:       # what BaseProtocol.pause_reading does to the parser
            pp.pause_reading()

        def resume_reading(self, resume_parser: bool = True) -> None:
            pass

    proto = P(loop)
    rd = StreamReader(proto, 2, loop=loop)
    pp = HttpPayloadParser(rd, chunked=True, headers_parser=HeadersParser(), limit=2)
    pp.feed_data(b"5\r\nabcde\r\n")
    return bool(getattr(pp, "_paused", False))


# ---------------------------------------------------------------- driver A: model behaviours -> real pipeline
UNIT = 128


class Replay(Exec):
    """Consumer driven by commands; afterwards free-running to the end of the body."""

    def __init__(self, loop: steploop.StepLoop, plan: dict) -> None:
        super().__init__(loop, plan)
        self.cmd: Optional[asyncio.Future] = None
        self.free = False
        self.waiting_cmd = False

    async def next_cmd(self) -> tuple:
        if self.free:
            return ("readany",)
        self.cmd = self.loop.create_future()
        self.waiting_cmd = True
        try:
            return await self.cmd
        finally:
            self.waiting_cmd = False
            self.cmd = None

    def command(self, op: tuple) -> bool:
        if self.cmd is None or self.cmd.done():
            return False
        self.cmd.set_result(op)
        return True

    def go_free(self) -> None:
        self.free = True
        if self.cmd is not None and not self.cmd.done():
            self.cmd.set_result(("readany",))

    async def consume_cmds(self, content: Any) -> None:
        self.reader = content
        self.rec("start")
        iters: dict = {}
        try:
            while True:
                op = await self.next_cmd()
                _d, end = await self.one_read(content, op, iters)
                if end:
                    return
        except asyncio.CancelledError:
            raise
        except MachineryError:
            raise
        except Exception as exc:  # noqa: BLE001
            self.rec_err(exc)
            for _ in range(2):
                try:
                    await self.one_read(content, ("readany",), iters)
                except asyncio.CancelledError:
                    raise
                except Exception as exc2:  # noqa: BLE001
                    self.rec_err(exc2)


_act_re = __import__("re").compile(r"(\w+)(?:\((.*)\))?$")
_send_re = __import__("re").compile(r"NetSend\(<<([0-9, ]*)>>,\s*(TRUE|FALSE)\)")


def replay_behaviour(ctx: Ctx, loop: steploop.StepLoop, beh: List[Any], consts: Dict[str, Any], src: str) -> Optional[dict]:
    """Impose one BodyFlow behaviour on the real client pipeline, then let it run to completion."""
    global _CUR
    from engine.clikit import ClientKit

    mode, mcodec, limit_u = consts["Mode"], consts["Codec"], int(consts["Limit"])
    codec = {"zlib": "gzip", "zstd": "zstd", "identity": "identity"}[mcodec]
    framing = {"Length": "length", "Chunked": "chunked", "UntilEOF": "eof"}[mode]
    rng = ctx.rng
    # ---- pass 1: the pieces the peer sends (model NetSend actions), closed properly by the harness
    sends: List[Tuple[List[int], bool]] = []
    prev_inbox_len = 0
    for lbl, st in beh[1:]:
        if lbl.startswith("NetSend"):
            mm = _send_re.match(lbl)
            if not mm:
                raise MachineryError(f"cannot parse model action {lbl!r}")
            sends.append(([int(v) for v in mm.group(1).split(",") if v.strip()], mm.group(2) == "TRUE"))
    extra_close = framing != "eof" and not (sends and sends[-1][1])
    planned = sends + ([([1], True)] if extra_close else [])
    uc = B.UnitCodec(codec, UNIT, rng)
    wire_pieces: List[bytes] = []
    for idx, (us, fin) in enumerate(planned):
        ubytes = [uc.unit(u) for u in us]
        if idx == len(planned) - 1:
            ubytes[-1] = ubytes[-1] + uc.close()
        if framing == "chunked":
            out = b"".join(b"%x\r\n%s\r\n" % (len(b), b) for b in ubytes if b)
            if fin:
                out += b"0\r\n\r\n"
        else:
            out = b"".join(ubytes)
        wire_pieces.append(out)
    total = sum(len(p) for p in wire_pieces)
    ref = B.Ref(uc.ok, bytes(uc.plain), "" if uc.ok else "corrupt")
    hs = ["HTTP/1.1 200 OK"]
    if B.header_value(codec):
        hs.append("Content-Encoding: " + B.header_value(codec))
    hs.append({"length": f"Content-Length: {total}", "chunked": "Transfer-Encoding: chunked",
               "eof": "Connection: close"}[framing])
    head = ("\r\n".join(hs) + "\r\n\r\n").encode()
    plan = {"side": "client", "codec": codec, "framing": framing, "limit": limit_u * UNIT, "ref": ref, "enc": b"",
            "name": f"{src}/{mode}/{mcodec}", "kind": src, "src": src, "inLen": total,
            "maxPiece": max([len(p) for p in wire_pieces] or [0]), "pauses": 8 * len(beh), "gap": 0}
    x = Replay(loop, plan)
    kit = ClientKit(loop)
    kit.on_create = lambda pc: x.tap(pc.tr, pc.proto)

    async def go() -> None:
        try:
            r = await kit.session.get("http://h/p", read_bufsize=plan["limit"])
        except asyncio.CancelledError:
            raise
        except Exception as exc:  # noqa: BLE001
            x.rec_err(exc)
            x.done = True
            return
        try:
            await x.consume_cmds(r.content)
        finally:
            x.done = True

    def project_check(st: dict) -> None:
        """Refinement only: the real pipeline agrees with the model state (pc = idle)."""
        if not st or st.get("pc") != "idle" or x.reader is None or x.in_read or st["rexc"] or st["pst"] != "open":
            return
        real = x.reader.total_bytes - x.consumed
        msize = sum(st["buf"]) * UNIT
        if real != msize:
            ctx.drift("replay:size")
            if os.environ.get("C09_DEBUG"):
                print("DRIFT size", real, msize, [l for l, _ in beh[1:]], file=sys.stderr)
        if bool(st["tPaused"]) != bool(x.tr.reading_paused) and st["connected"]:
            ctx.drift("replay:transport-paused")
            if os.environ.get("C09_DEBUG"):
                print("DRIFT tp", x.tr.reading_paused, st["tPaused"], [l for l, _ in beh[1:]], file=sys.stderr)

    _CUR = x
    try:
        t = kit.spawn("r1", go())
        loop.run_until_idle()
        c = kit.conns[0]
        c.feed(head)
        loop.run_until_idle()
        q: List[bytes] = []
        nsent = 0
        closed = False
        prev = beh[0][1]
        for lbl, st in beh[1:]:
            m = _act_re.match(lbl)
            a = m.group(1) if m else lbl
            ctx.action_cover[a] = ctx.action_cover.get(a, 0) + 1
            if a in ("NetSend", "NetDeliver", "NetEofDeliver", "ConsumerRead"):
                project_check(prev)
            if a == "NetSend":
                q.append(wire_pieces[nsent])
                nsent += 1
            elif a == "NetDeliver":
                if x.tr.reading_paused:
                    ctx.drift("replay:deliver-while-paused")
                if q:
                    c.feed(q.pop(0))
                loop.run_until_idle()
            elif a == "NetEofDeliver":
                if not closed:
                    c.close_by_peer()
                    closed = True
                loop.run_until_idle()
            elif a == "ConsumerRead":
                n = int(m.group(2)) if m and m.group(2) else 1
                if x.done:
                    pass
                elif not x.command(("readstep",) if n >= 1000 else ("read", n * UNIT)):
                    ctx.drift("replay:consumer-blocked")
                loop.run_until_idle()
            prev = st
        project_check(prev)
        # ---- completion: the peer finishes the body, the application reads to the end
        rest = q + wire_pieces[nsent:]
        x.go_free()
        close_after = (framing == "eof") and not closed
        x.drive(c.feed, c.close_by_peer, rest, 0, close_after, lambda: x.done or t.done())
    finally:
        _CUR = None
        kit.close()
    tr = x.trace()
    tr["plan"] = {"codec": codec, "framing": framing, "kind": src, "limit": plan["limit"],
                  "actions": [lbl for lbl, _ in beh[1:]], "consts": {k: str(v) for k, v in consts.items()}}
    return tr


# ---------------------------------------------------------------- the check
def model_phase(ctx: Ctx, loop: steploop.StepLoop, stale: bool) -> List[dict]:
    """TLC over the design (all interleavings, deadlock check on, liveness) + the as-coded deviations."""
    traces: List[dict] = []
    q = ctx.quick
    mp = 4 if q else 4
    mu = 1 if q else 2
    ideal: List[Dict[str, Any]] = [
        dict(Mode="Chunked", Codec="zlib", Limit=1, MaxPieces=mp, MaxUnits=mu),
        dict(Mode="Length", Codec="zstd", Limit=2, MaxPieces=mp, MaxUnits=mu),
        dict(Mode="UntilEOF", Codec="zlib", Limit=1, MaxPieces=3, MaxUnits=ctx.pick(1, 2), WithMembers=True),
        dict(Mode="Chunked", Codec="identity", Limit=1, MaxPieces=mp, MaxUnits=mu),
        dict(Mode="Length", Codec="zlib", Limit=1, MaxPieces=3, MaxUnits=ctx.pick(1, 2), WithCorrupt=True, WithTrunc=True),
        dict(Mode="Length", Codec="zlib", Limit=1, MaxPieces=ctx.pick(4, 3), MaxUnits=ctx.pick(1, 2), Side="server", ClientMax=2),
    ]
    if not q:
        for mode in ("Length", "Chunked", "UntilEOF"):
            for codec in ("zlib", "zstd", "identity"):
                for lim in (1, 2):
                    ideal.append(dict(Mode=mode, Codec=codec, Limit=lim, MaxPieces=3, MaxUnits=2,
                                      WithMembers=(codec, mode) in (("zlib", "Length"), ("zstd", "UntilEOF"))))
        ideal.append(dict(Mode="Chunked", Codec="zstd", Limit=2, MaxPieces=3, MaxUnits=2, WithCorrupt=True, WithTrunc=True))
        ideal.append(dict(Mode="Chunked", Codec="zlib", Limit=2, MaxPieces=3, MaxUnits=2, Side="server", ClientMax=3))
    live = ctx.pick([dict(Mode="Chunked", Codec="zlib", Limit=1, MaxPieces=2, MaxUnits=2)],
                    [dict(Mode=m, Codec=c, Limit=1, MaxPieces=3, MaxUnits=2)
                     for m, c in (("Chunked", "zlib"), ("UntilEOF", "zstd"), ("Length", "identity"), ("Chunked", "identity"))])
    jobs: List[Tuple[str, str]] = [(cname(o), write_cfg(o)) for o in ideal]
    # liveness under weak fairness, no state constraint
    jobs += [("liveness " + cname(o), write_cfg(o, spec="FairSpec", invs=[], props=["Progress", "ReachesEof"]))
             for o in live]
    from concurrent.futures import ThreadPoolExecutor

    def one(job: Tuple[str, str]) -> Any:
        return run_tlc("BodyFlow", job[1], workers=16, timeout=ctx.pick(600, 3000), deadlock=True)
    with ThreadPoolExecutor(max_workers=3) as ex:          # small models: JVM start-up dominates
        results = list(ex.map(one, jobs))
    for (name, _cfg), res in zip(jobs, results):
        ok = ctx.expect_model_ok(name, res)
        ctx.log(f"model {name}: {res.distinct} states, depth {res.depth}, ok={ok}, {res.wall_s:.0f}s")
    # the code as found: TLC exhibits the consequences of the stale pause flag; the counterexample is
    # imposed on the real pipeline and judged like every other execution
    if stale:
        for over in (dict(Mode="Chunked", Codec="identity", Limit=1, MaxPieces=3, MaxUnits=1, MidChunkCuts=False,
                          ClearStalePause=False, EofKeepsParser=False),):
            res = run_tlc("BodyFlow", write_cfg(over, invs=["NoDeadlock", "NoSpuriousFailure"], props=[]),
                          workers=4, timeout=300, deadlock=False)
            require_clean(res, "as-coded " + cname(over))
            ctx.extra.setdefault("as_coded_model_runs", []).append(
                {"name": cname(over), "violated": res.violated, "distinct": res.distinct,
                 "counterexample": [a for a, _ in res.trace]})
            ctx.log(f"as-coded {cname(over)}: violated={res.violated} after {res.distinct} states")
            if res.violated and res.trace:
                full = full_consts(over)
                beh = [("Init", res.trace[0][1])] + [(a, s) for a, s in res.trace[1:]]
                tr = replay_behaviour(ctx, loop, beh, full, "tlc-counterexample")
                if tr is not None:
                    tr["expect_dev"] = True
                    traces.append(tr)
            else:
                ctx.drift("as-coded model shows no deviation")
    return traces


def full_consts(over: Dict[str, Any]) -> Dict[str, Any]:
    full = {k: (v.strip('"') if isinstance(v, str) else v) for k, v in BASE_CONSTS.items()}
    full.update(over)
    return full


def replay_phase(ctx: Ctx, loop: steploop.StepLoop, stale: bool) -> List[dict]:
    """Driver A: transition cover of a small graph + simulated behaviours, on the configuration that mirrors the code."""
    # (line reads - read size 0 - are model-checked but not replayed: the rendered units carry no separators)
    dev = dict(ClearStalePause=not stale, EofKeepsParser=not stale, MidChunkCuts=False, ReadSizes="{1, 3, 1000}")
    traces: List[dict] = []
    cov = dict(dev, Mode="Chunked", Codec="zlib", Limit=1, MaxPieces=2, MaxUnits=1, ReadSizes="{1, 1000}")
    behs, cres = cover_behaviours("BodyFlow", write_cfg(cov, invs=[], props=[]), timeout=600)
    ctx.extra["transition_cover"] = {"model": cname(cov), "paths": len(behs),
                                     "edges_traversed": sum(len(b) - 1 for b in behs), "states": cres.distinct}
    for b in behs:
        tr = replay_behaviour(ctx, loop, b, full_consts(cov), "tlc-cover")
        if tr is not None:
            traces.append(tr)
    ctx.log(f"replayed {len(behs)} transition-cover paths of {cname(cov)} ({cres.distinct} states)")
    sims = [dict(Mode="Chunked", Codec="zlib", Limit=2, MaxPieces=4, MaxUnits=2, WithMembers=True, WithCorrupt=True, **dev),
            dict(Mode="Length", Codec="zlib", Limit=1, MaxPieces=4, MaxUnits=2, WithMembers=True, **dev),
            dict(Mode="UntilEOF", Codec="zlib", Limit=1, MaxPieces=4, MaxUnits=2, **dev),
            dict(Mode="Chunked", Codec="identity", Limit=1, MaxPieces=4, MaxUnits=2, **dev),
            dict(Mode="UntilEOF", Codec="identity", Limit=2, MaxPieces=4, MaxUnits=2, **dev)]
    if ctx.quick:
        sims = sims[:1] + sims[3:4] + sims[1:2]
    from concurrent.futures import ThreadPoolExecutor

    def sim(over: Dict[str, Any]) -> Any:
        return simulate_behaviours("BodyFlow", write_cfg(over, invs=[], props=[]), num=ctx.pick(60, 600),
                                   depth=ctx.pick(60, 80), seed=ctx.seed, timeout=600)[0]
    with ThreadPoolExecutor(max_workers=3) as ex:
        allbs = list(ex.map(sim, sims))
    for over, bs in zip(sims, allbs):
        for b in bs:
            tr = replay_behaviour(ctx, loop, b, full_consts(over), "tlc-sim")
            if tr is not None:
                traces.append(tr)
    ctx.log(f"replayed {len(traces)} model behaviours in total; actions: {dict(ctx.action_cover)}")
    return traces


def run(ctx: Ctx) -> None:
    ctx.rule = ("executions = behaviours of BodyFlow (transition cover, simulation, counterexamples of the as-coded "
                "configuration) rendered to unit-structured gzip/identity payloads and imposed on a real ClientSession "
                "+ corpus (random, bombs, members, empty members, truncations, bit flips) x identity/chunked/EOF framing "
                "x segmentations x consumer schedules x read_bufsize, client side and server side (read/post/stream, "
                "client_max_size); distinct = (side, body, limit, outcome, control-event sequence, length class)")
    ctx.assumptions = [
        "zlib, brotli and zstd are trusted: the reference decoding is their one-shot decode; the digest is CRC-32 (31 bits)",
        "Brotli's output_buffer_limit is soft (block granularity): one call may return < 2*limit + 32 KiB",
        "the transport honours pause_reading: no data and no EOF is delivered while paused (engine.memnet)",
        "decode calls are observed by wrapping decompress_sync in the harness process; buffered size = "
        "total_bytes - bytes read (public counters), the reader's own counter only inside a read call",
        "HTTP 'deflate' = zlib stream, raw deflate accepted when the first byte does not announce CM=8",
        "reads with no size limit (read(), read(-1)) lift the memory bound by design (water marks = sys.maxsize)",
    ]
    install_wrappers()
    loop = steploop.new_loop()
    stale = code_keeps_stale_pause(loop)
    ctx.extra["code_keeps_stale_pause_flag"] = stale
    ctx.log(f"probe: payload parser keeps a stale pause request: {stale}")
    # C09_PHASES (default: all) restricts a run to some phases - for sensitivity experiments only
    phases = set((os.environ.get("C09_PHASES") or "model,replay,corpus").split(","))
    if phases != {"model", "replay", "corpus"}:
        ctx.notes.append(f"partial run: phases={sorted(phases)}")
    traces = model_phase(ctx, loop, stale) if "model" in phases else []
    if "replay" in phases:
        traces += replay_phase(ctx, loop, stale)
    judge(ctx, traces, "model-replay")
    # the as-coded counterexample must be exhibited by the code, otherwise the model does not mirror it
    for t in traces:
        if t.get("expect_dev"):
            hit = any(v.source == "trace" and v.detail["trace"].get("name") == t["name"]
                      and v.clause.startswith("StalePause") for v in ctx.violations)
            if not hit:
                ctx.drift("as-coded counterexample not reproduced by the code")
    # ---- drivers B and C
    if "corpus" not in phases:
        ctx.evaluations = ctx.traces
        loop.uninstall()
        return
    rng = ctx.rng
    bodies = B.corpus(rng, ctx.quick)
    plans = client_plans(ctx, rng, bodies, ctx.pick(1, 6))
    plans += server_plans(ctx, rng, bodies + form_bodies(rng), ctx.pick(1, 3))
    good = [b for b in bodies if b.kind in ("random", "members", "empty-members")]
    plans += aligned_plans(ctx, rng, bodies)
    plans += plateau_plans(ctx, rng, good, ctx.pick(2, 6))
    plans += error_after_chunk_end_plans(ctx, rng, bodies)
    plans += multipart_plans(ctx, rng)
    plans += slice_aligned_plans(ctx, rng)
    plans += line_plans(ctx, rng)
    plans += bomb_plans(ctx, rng)
    ctx.log(f"{len(plans)} corpus executions planned ({len(bodies)} bodies)")
    batch: List[dict] = []
    nev = 0
    kinds: Dict[str, int] = {}
    for p in plans:
        tr = run_plan(loop, p)
        kinds[p.get("kind", "?")] = kinds.get(p.get("kind", "?"), 0) + 1
        batch.append(tr)
        nev += len(tr["events"])
        if nev > 150000:
            judge(ctx, batch, "corpus")
            batch, nev = [], 0
    judge(ctx, batch, "corpus")
    ctx.extra["corpus_kinds"] = kinds
    ctx.extra["replay_action_counts"] = dict(ctx.action_cover)
    ctx.evaluations = ctx.traces
    loop.uninstall()


# ---------------------------------------------------------------- selftest / replay
MUTANTS: List[Tuple[str, Dict[str, Any], Tuple[str, ...]]] = [
    ("max_length dropped from the decoder call", dict(Mode="Length", Codec="zlib", UseBudget=False),
     ("Resident", "OneCallBudget")),
    ("resume_reading does not re-enter the parser", dict(Mode="Chunked", Codec="zlib", ResumeReenters=False),
     ("NoDeadlock", "Deadlock", "HeldBackImpliesPaused")),
    ("pause not propagated to the payload parser", dict(Mode="Chunked", Codec="zlib", PauseReachesParser=False),
     ("Resident",)),
    ("_pending_unused_data forgotten", dict(Mode="Length", Codec="zlib", WithMembers=True, KeepPending=False, MaxPieces=2, MaxUnits=3),
     ("NoInputLost",)),
    ("413 test moved after the accumulation", dict(Mode="Length", Codec="zlib", Side="server", ClientMax=1,
                                                    CheckEachChunk=False), ("MaxSize",)),
    ("stale pause flag (code as found)", dict(Mode="Chunked", Codec="identity", ClearStalePause=False,
                                              EofKeepsParser=False),
     ("NoDeadlock", "NoSpuriousFailure", "HeldBackImpliesPaused", "Deadlock")),
    ("stored payload error not raised by read", dict(Mode="Length", Codec="zlib", WithCorrupt=True, ErrChecked=False),
     ("ErrorNotData",)),
    ("data_available forgets input parked at a member end", dict(Mode="Length", Codec="zstd", WithMembers=True,
                                                                  PendingCountsAvail=False, MaxPieces=2, MaxUnits=3),
     ("EofMeansAllDelivered", "NoDeadlock", "Deadlock", "HeldBackImpliesPaused")),
    ("line reads raise the water marks", dict(Mode="Length", Codec="zlib", LineKeepsLimits=False),
     ("Resident", "OneCallBudget")),
]


def _good_plans() -> List[dict]:
    data = bytes(range(97, 123)) * 9
    enc = B.encode("gzip", data)
    ref = B.reference("gzip", enc)
    p1 = {"side": "client", "codec": "gzip", "framing": "chunked", "enc": enc, "ref": ref, "limit": 4,
          "name": "selftest/gzip", "kind": "random", "gap": 0, "glue": False, "cyield": 0,
          "chunks": [9] * 40, "cuts": [20, 41], "sched": [("pause", 3), ("read", 3)]}
    p2 = {"side": "server", "codec": "gzip", "framing": "length", "enc": enc, "ref": ref, "limit": 8,
          "name": "selftest/srv413", "kind": "random", "gap": 0, "glue": False, "cyield": 0, "cuts": [10],
          "sched": [], "srvop": "read", "cms": 50}
    return [p1, p2]


def selftest(ctx: Ctx) -> int:
    install_wrappers()
    loop = steploop.new_loop()
    ok = True
    # (i) the monitor rejects corrupted / shortened recordings of good executions
    good = [run_plan(loop, p) for p in _good_plans()]
    cli, srv = good

    def mutate(t: dict, fn: Callable[[dict], None]) -> dict:
        c = copy.deepcopy(t)
        fn(c)
        return c

    def flip_digest(t: dict) -> None:
        reads = [e for e in t["events"] if e["ev"] == "read" and e["m"] > 0]
        reads[-1]["k"] ^= 1

    def drop_eof(t: dict) -> None:
        t["events"] = [e for e in t["events"] if e["ev"] != "eof"]

    def fat_call(t: dict) -> None:
        next(e for e in t["events"] if e["ev"] == "dec" and e["m"] > 0)["m"] = 5 * t["cfg"]["limit"]

    def fat_buffer(t: dict) -> None:
        e = next(e for e in t["events"] if e["ev"] == "read")
        e["obs"]["size"] = e["obs"]["high"] + 2 * t["cfg"]["limit"] + 1

    def lost_byte(t: dict) -> None:
        t["cfg"]["refLen"] += 1

    def data_after_err(t: dict) -> None:
        i = next(k for k, e in enumerate(t["events"]) if e["ev"] == "read")
        t["events"].insert(i, dict(t["events"][i], ev="err", s="payload", n=0, m=0, k=0))
        t["cfg"]["refOk"] = False
        t["cfg"]["refWhy"] = "corrupt"

    def srv_accumulated(t: dict) -> None:
        next(e for e in t["events"] if e["ev"] == "srv")["k"] = 10 * t["cfg"]["cms"]

    def srv_returned_more(t: dict) -> None:
        e = next(e for e in t["events"] if e["ev"] == "srv")
        e["s"], e["n"] = "ok", t["cfg"]["cms"] + 1

    def truncated_ref(deflate: bool) -> Callable[[dict], None]:
        def fn(t: dict) -> None:       # the same recording, had the reference called the stream truncated
            t["cfg"].update(refOk=False, refWhy="truncated", deflate=deflate)
        return fn

    bads = [(mutate(cli, truncated_ref(True)), "TruncatedDeflateCleanEof"),
            (mutate(cli, truncated_ref(False)), "TruncatedStreamCleanEof"),
            (mutate(cli, flip_digest), "WrongBytes"), (mutate(cli, drop_eof), "Stuck"),
            (mutate(cli, fat_call), "OneCallBudget"), (mutate(cli, fat_buffer), "Resident"),
            (mutate(cli, lost_byte), "WrongLength"), (mutate(cli, data_after_err), "DataAfterError"),
            (mutate(srv, srv_accumulated), "MaxSizeAccumulated"), (mutate(srv, srv_returned_more), "MaxSizeReturnedMore")]
    slim = [{"cfg": t["cfg"], "src": "selftest", "events": t["events"]} for t in good + [b for b, _ in bads]]
    vs, _ = validate_batch("BodyFlowTrace", "BodyFlowTrace.cfg", slim)
    for t, v in zip(good, vs[:2]):
        print(f"good {t['name']}: ok={v.ok} clause={v.clause!r} ({v.pos}/{v.total})")
        ok = ok and v.ok
    for (b, want), v in zip(bads, vs[2:]):
        print(f"corrupted recording, expected {want}: got {v.clause!r} at {v.pos}")
        ok = ok and (v.clause == want)
    # (ii) spec-level mutants: TLC must find the violation; the unmutated configuration must pass
    for what, over, wants in MUTANTS:
        o = dict(Limit=1, MaxPieces=3, MaxUnits=1)
        o.update(over)
        res = run_tlc("BodyFlow", write_cfg(o), workers=16, timeout=300, deadlock=True)
        require_clean(res, "mutant " + what)
        print(f"mutant [{what}]: TLC reports {res.violated} ({res.distinct} states)")
        ok = ok and (res.violated in wants)
    print("selftest", "passed" if ok else "FAILED")
    loop.uninstall()
    return 0 if ok else 2


def replay(ctx: Ctx, path: str) -> int:
    payload = json.load(open(path))
    detail = payload.get("detail") or {}
    plan_j = detail.get("plan")
    if not isinstance(plan_j, dict):
        print("replay: model counterexample only; re-run the check to reproduce")
        for a, _s in (detail.get("trace") or [])[:60]:
            print("   ", a)
        return 0
    install_wrappers()
    loop = steploop.new_loop()
    if "actions" in plan_j:
        consts = dict(plan_j["consts"])
        beh = [("Init", {})] + [(a, {}) for a in plan_j["actions"]]
        tr = replay_behaviour(ctx, loop, beh, consts, plan_j.get("kind", "tlc-sim"))
    else:
        tr = run_plan(loop, plan_from_json(plan_j))
    assert tr is not None
    vs, _ = validate_batch("BodyFlowTrace", "BodyFlowTrace.cfg",
                           [{"cfg": tr["cfg"], "src": tr["src"], "events": tr["events"]}])
    v = vs[0]
    print(f"replay of {tr['name']}: ok={v.ok} clause={v.clause!r} at event {v.pos}/{v.total}")
    print("cfg:", tr["cfg"])
    for e in tr["events"][max(0, v.pos - 12):v.pos + 1]:
        print("   ", e["ev"], e["s"], e["n"], e["m"], e["k"], e["obs"])
    loop.uninstall()
    if not v.ok:
        print(f"VIOLATION property=C09 replay={path}")
        return 1
    return 0
