"""C08 - StreamReader: exact ordered delivery with back-pressure.

spec/StreamReader.tla is the reference machine; StreamReaderMC.tla the bounded model;
StreamReaderTrace.tla validates executions recorded from the real class.
"""
from __future__ import annotations

import asyncio
import json
from typing import Any, Dict, List, Optional

from engine import steploop
from engine.runner import Ctx
from engine.tlc import MachineryError, run_tlc, simulate_behaviours, validate_batch

BIG = 1000000000


class FakeTransport:
    def __init__(self) -> None:
        self.paused = False
        self.calls: List[str] = []

    def pause_reading(self) -> None:
        self.paused = True
        self.calls.append("pause")

    def resume_reading(self) -> None:
        self.paused = False
        self.calls.append("resume")

    def get_extra_info(self, name: str, default: Any = None) -> Any:
        return default

    def is_closing(self) -> bool:
        return False


class StubParser:
    def pause_reading(self) -> None:
        pass

    def feed_data(self, data: bytes) -> Any:  # pragma: no cover
        return (), False, b""


class Boom(Exception):
    pass


class Exec:
    """One execution of a real StreamReader under the stepping loop, recorded as events."""

    def __init__(self, loop: steploop.StepLoop, limit: int) -> None:
        from aiohttp.base_protocol import BaseProtocol
        from aiohttp.streams import StreamReader

        self.loop = loop
        self.proto = BaseProtocol(loop, parser=StubParser())  # type: ignore[arg-type]
        self.tr = FakeTransport()
        self.proto.connection_made(self.tr)  # type: ignore[arg-type]
        self.reader = StreamReader(self.proto, limit, loop=loop)
        self.limit = limit
        self.events: List[dict] = []
        self.task: Optional[asyncio.Task] = None
        self.cur: Optional[dict] = None
        self.iters: Dict[str, Any] = {}

    # ---- observation
    def obs(self) -> dict:
        low, high = self.reader.get_read_buffer_limits()
        o = {"paused": bool(self.tr.paused), "low": min(low, BIG), "high": min(high, 2 * BIG),
             "at_eof": bool(self.reader.at_eof())}
        sz = getattr(self.reader, "_size", None)
        if isinstance(sz, int):
            o["size"] = sz
        return o

    def _result(self) -> dict:
        t = self.task
        assert t is not None and t.done()
        self.task = None
        op = self.cur["op"]  # type: ignore[index]
        try:
            r = t.result()
        except Boom:
            return {"rdata": [], "rflag": False, "rerr": "exc"}
        except asyncio.IncompleteReadError as e:
            return {"rdata": list(e.partial), "rflag": False, "rerr": "incomplete"}
        except StopAsyncIteration:
            return {"rdata": [], "rflag": False, "rerr": ""}
        except BaseException as e:  # noqa: BLE001
            name = type(e).__name__
            if name == "LineTooLong":
                return {"rdata": [], "rflag": False, "rerr": "toolong"}
            return {"rdata": [], "rflag": False, "rerr": "other:" + name}
        if op == "readchunk":
            data, flag = r
            return {"rdata": list(data), "rflag": bool(flag), "rerr": ""}
        if self.cur.get("via") == "iter" and len(r) == 0:  # type: ignore[union-attr]
            return {"rdata": [], "rflag": False, "rerr": "other:EmptyYield"}
        return {"rdata": list(r), "rflag": False, "rerr": ""}

    def _guard(self, fn: Any) -> str:
        """Producer calls are total for legal stimuli: an exception is recorded, not raised."""
        try:
            fn()
            return ""
        except Exception as exc:  # noqa: BLE001
            return type(exc).__name__

    def _settle(self, serr: Any, ev: Optional[dict] = None) -> dict:
        if ev is None:
            serr, ev = "", serr
        ev["serr"] = serr
        try:
            self.loop.run_until_idle()
        except Exception as exc:  # noqa: BLE001
            ev["serr"] = ev["serr"] or ("loop:" + type(exc).__name__)
        ev.setdefault("data", [])
        ev.setdefault("op", "")
        ev.setdefault("n", 0)
        ev.setdefault("via", "direct")
        ev.update({"rdata": [], "rflag": False, "rerr": "", "then": "none"})
        if self.task is not None:
            if self.task.done():
                ev.update(self._result())
                ev["then"] = "ret"
            else:
                ev["then"] = "block"
        ev["obs"] = self.obs()
        self.events.append(ev)
        return ev

    # ---- stimuli
    def feed(self, data: bytes) -> dict:
        serr = self._guard(lambda: self.reader.feed_data(data))
        return self._settle(serr, {"ev": "feed", "data": list(data)})

    def begin(self) -> dict:
        serr = self._guard(lambda: self.reader.begin_http_chunk_receiving())
        return self._settle(serr, {"ev": "begin"})

    def end(self) -> dict:
        serr = self._guard(lambda: self.reader.end_http_chunk_receiving())
        return self._settle(serr, {"ev": "end"})

    def eof(self) -> dict:
        serr = self._guard(lambda: self.reader.feed_eof())
        return self._settle(serr, {"ev": "eof"})

    def setexc(self) -> dict:
        serr = self._guard(lambda: self.reader.set_exception(Boom("boom")))
        return self._settle(serr, {"ev": "setexc"})

    def endexc(self) -> dict:
        """end of an HTTP chunk and a payload error in the same data_received call (no loop turn between)"""
        def both() -> None:
            self.reader.end_http_chunk_receiving()
            self.reader.set_exception(Boom("boom"))
        serr = self._guard(both)
        return self._settle(serr, {"ev": "endexc"})

    def unread(self, data: bytes) -> dict:
        serr = self._guard(lambda: self.reader.unread_data(data))
        return self._settle(serr, {"ev": "unread", "data": list(data)})

    def nowait(self, n: int) -> dict:
        ev: dict = {"ev": "nowait", "n": n}
        try:
            r = self.reader.read_nowait(n)
            res = {"rdata": list(r), "rflag": False, "rerr": ""}
        except Boom:
            res = {"rdata": [], "rflag": False, "rerr": "exc"}
        except BaseException as e:  # noqa: BLE001
            res = {"rdata": [], "rflag": False, "rerr": "other:" + type(e).__name__}
        self.loop.run_until_idle()
        ev.update({"data": [], "op": "", "then": "none", "via": "direct", "serr": ""})
        ev.update(res)
        ev["obs"] = self.obs()
        self.events.append(ev)
        return ev

    def call(self, op: str, n: int, via: str = "direct") -> dict:
        assert self.task is None
        r = self.reader
        if via == "iter":
            key = f"{op}:{n}"
            it = self.iters.get(key)
            if it is None:
                if op == "read":
                    it = r.iter_chunked(n)
                elif op == "readany":
                    it = r.iter_any()
                elif op == "readchunk":
                    it = r.iter_chunks()
                elif op == "readuntil" and n == 0:
                    it = r.__aiter__()
                else:
                    via = "direct"
                if via == "iter":
                    self.iters[key] = it
            if via == "iter":
                coro = it.__anext__()
        if via != "iter":
            if op == "read":
                coro = r.read(n)
            elif op == "readall":
                coro = r.read() if n == 0 else r.read(-1)
            elif op == "readany":
                coro = r.readany()
            elif op == "readexactly":
                coro = r.readexactly(n)
            elif op == "readuntil":
                coro = r.readline() if n == 0 else r.readuntil(b"\n", max_size=n)
            elif op == "readchunk":
                coro = r.readchunk()
            else:
                raise MachineryError(f"unknown op {op}")
        self.cur = {"op": op, "n": n, "via": via}
        self.task = self.loop.create_task(coro)
        return self._settle({"ev": "call", "op": op, "n": n, "via": via})

    def finish(self) -> None:
        if self.task is not None and not self.task.done():
            self.task.cancel()
            self.loop.run_until_idle()
            self.task = None

    def trace(self, src: str) -> dict:
        return {"cfg": {"limit": self.limit}, "src": src, "events": self.events}


def do_stim(x: Exec, e: dict) -> Optional[dict]:
    """Apply a model / replay stimulus to the real reader; returns the recorded event."""
    ev = e["ev"]
    if ev == "feed":
        return x.feed(bytes(e["data"]))
    if ev == "begin":
        return x.begin()
    if ev == "end":
        return x.end()
    if ev == "eof":
        return x.eof()
    if ev == "setexc":
        return x.setexc()
    if ev == "endexc":
        return x.endexc()
    if ev == "unread":
        return x.unread(bytes(e["data"]))
    if ev == "nowait":
        return x.nowait(e["n"])
    if ev == "call":
        return x.call(e["op"], e["n"], e.get("via", "direct"))
    return None


# ---------------------------------------------------------------- drivers
def replay_behaviours(ctx: Ctx, loop: steploop.StepLoop, behs: List[List[Any]], limit: int,
                      src: str) -> List[dict]:
    traces = []
    for beh in behs:
        x = Exec(loop, limit)
        for _label, st in beh[1:]:
            last = st["last"]
            if last["ev"] == "init":
                continue
            if last["ev"] in ("call", "nowait", "unread") and x.task is not None:
                break   # the code is still blocked where the model has returned: the trace so far is judged
            ev = do_stim(x, {k: v for k, v in last.items()})
            if ev is not None and ev.get("rerr") == "toolong":
                break   # bytes consumed by the failed call are unspecified: the execution ends here
        x.finish()
        if x.events:
            traces.append(x.trace(src))
    return traces


def random_exec(ctx: Ctx, loop: steploop.StepLoop, rng: Any, k: int) -> dict:
    limit = rng.choice([1, 1, 2, 3, 4, 8, 16, 64])
    x = Exec(loop, limit)
    chunked = rng.random() < 0.45
    use_unread = (not chunked) and rng.random() < 0.15
    style = rng.choice(["mixed", "mixed", "chunks", "lines", "bulk", "smallchunks"])
    if chunked:
        x.begin()
    nsteps = rng.randint(4, 28)
    eof = False
    exc = False
    alphabet = [10, 97, 98, 99, 100, 0, 255]

    def rbytes() -> bytes:
        hi = x.reader.get_read_buffer_limits()[1]
        m = rng.choice([0, 1, 1, 2, 3, min(hi, 40), min(hi + 1, 41), min(3 * hi, 90)])
        return bytes(rng.choice(alphabet if rng.random() < 0.8 else [10]) for _ in range(m))

    ops = [("read", 1), ("read", 2), ("read", 3), ("read", 7), ("read", 50), ("readany", 0),
           ("readall", 0), ("readexactly", 2), ("readexactly", 5), ("readuntil", 0),
           ("readuntil", 3), ("readchunk", 0)]
    if style == "chunks" or style == "smallchunks":
        ops = [("readchunk", 0)] * 4 + [("read", 2), ("readany", 0)]
    elif style == "lines":
        ops = [("readuntil", 0)] * 3 + [("readuntil", 4), ("read", 2)]
    elif style == "bulk":
        ops = [("readall", 0), ("readany", 0), ("read", 50), ("readexactly", 5)]
    for _ in range(nsteps):
        busy = x.task is not None
        choices = []
        if not eof:
            choices += ["feed"] * 5
            if chunked:
                choices += ["end"] * (6 if style == "smallchunks" else 3)
            choices += ["eof"]
        if not exc and rng.random() < 0.05:
            choices += ["setexc"]
        if not exc and chunked and not eof and rng.random() < 0.08:
            choices += ["endexc"]
        if not busy:
            choices += ["call"] * 6 + ["nowait"]
            if use_unread and x.reader._cursor > 0:  # type: ignore[attr-defined]
                choices += ["unread"]
        if not choices:
            break
        c = rng.choice(choices)
        if c == "feed":
            d = rbytes()
            if style == "smallchunks":
                d = d[:1]
            e = x.feed(d)
        elif c == "end":
            e = x.end()
        elif c == "eof":
            e = x.eof()
            eof = True
        elif c == "setexc":
            e = x.setexc()
            exc = True
        elif c == "endexc":
            e = x.endexc()
            exc = True
        elif c == "nowait":
            e = x.nowait(rng.choice([-1, 1, 2, 5]))
        elif c == "unread":
            e = x.unread(bytes(rng.choice([120, 121]) for _ in range(rng.randint(1, 2))))
        else:
            op, n = rng.choice(ops)
            via = "iter" if rng.random() < 0.3 else "direct"
            e = x.call(op, n, via)
        if e.get("rerr") == "toolong":
            break
    x.finish()
    return x.trace("random")


# ---------------------------------------------------------------- check
MODEL_CFG = """SPECIFICATION Spec
CONSTANTS
  Limit = {limit}
  MaxFed = {maxfed}
  WithUnread = {unread}
  WithChunks = {chunks}
INVARIANT InvSize
INVARIANT InvPieces
INVARIANT InvBounds
INVARIANT InvNoStuckPause
INVARIANT InvPauseAboveHigh
INVARIANT InvBlocked
INVARIANT InvSelf
VIEW View
CHECK_DEADLOCK FALSE
"""


def write_cfg(limit: int, maxfed: int, unread: bool, chunks: bool) -> str:
    from engine.tlc import mktemp
    import os
    d = mktemp("c08cfg")
    p = os.path.join(d, f"StreamReaderMC_{limit}_{maxfed}.cfg")
    with open(p, "w") as f:
        f.write(MODEL_CFG.format(limit=limit, maxfed=maxfed, unread=str(unread).upper(),
                                 chunks=str(chunks).upper()))
    return p


def judge(ctx: Ctx, traces: List[dict], label: str) -> None:
    if not traces:
        return
    verdicts, res = validate_batch("StreamReaderTrace", "StreamReaderTrace.cfg", traces)
    if res.violated:
        raise MachineryError(f"reference invariant {res.violated} failed during trace validation:\n"
                             + "\n".join(res.output.splitlines()[-30:]))
    ctx.add_trace_batch(len(traces), res)
    for t, v in zip(traces, verdicts):
        key = json.dumps([[e["ev"], e.get("op"), e.get("n"), len(e.get("data", [])), e["then"]]
                          for e in t["events"]])
        if len(t["events"]) >= 3:
            ctx.distinct.add(hash(key))
        for d in (v.info or []):
            ctx.drift(d[1])
        if not v.ok:
            bad_ev = t["events"][v.pos] if v.pos < len(t["events"]) else None
            sig = v.clause
            if bad_ev is not None:
                sig += f" on {bad_ev['ev']}{'/' + bad_ev['op'] if bad_ev.get('op') else ''}"
            ctx.violation(v.clause, sig, {"trace": t, "failed_at": v.pos, "label": label}, "trace")
    ctx.sample({"src": traces[0]["src"], "limit": traces[0]["cfg"]["limit"],
                "events": [{k: e[k] for k in ("ev", "op", "n", "data", "then", "rdata", "rflag", "rerr")}
                           for e in traces[0]["events"][:8]]})


def run(ctx: Ctx) -> None:
    ctx.rule = ("executions = TLC-generated behaviours of StreamReaderMC replayed into the real StreamReader "
                "+ seeded random producer/consumer interleavings; distinct = different (event, op, arg, "
                "piece length, blocked/returned) sequences of >= 3 events")
    ctx.assumptions = ["limit >= 1 (read_bufsize=0 is outside the model)",
                       "one consumer coroutine at a time (two concurrent readers is a documented RuntimeError)",
                       "pause/resume observed on a fake transport behind the real BaseProtocol",
                       "trace ends after a LineTooLong error (bytes consumed by the failed call are unspecified)"]
    loop = steploop.new_loop()
    # ---- 1. bounded model: all interleavings over the small alphabet
    configs = ctx.pick([(1, 4, False, True), (2, 5, False, False)],
                       [(1, 6, False, True), (2, 6, False, True), (4, 7, False, False), (1, 5, True, False)])
    for (limit, maxfed, unread, chunks) in configs:
        cfg = write_cfg(limit, maxfed, unread, chunks)
        res = run_tlc("StreamReaderMC", cfg, workers=16, timeout=ctx.pick(300, 1500), deadlock=False)
        ok = ctx.expect_model_ok(f"StreamReaderMC(limit={limit},maxfed={maxfed},unread={unread},chunks={chunks})", res)
        ctx.log(f"model limit={limit} maxfed={maxfed}: {res.distinct} states, ok={ok}, {res.wall_s:.0f}s")
    # ---- 2. spec -> code: simulated behaviours replayed into the real class
    all_traces: List[dict] = []
    for (limit, maxfed, unread, chunks) in ctx.pick([(1, 8, False, True), (2, 10, True, False)],
                                                   [(1, 10, False, True), (2, 12, True, False), (4, 14, False, True)]):
        cfg = write_cfg(limit, maxfed, unread, chunks)
        behs, res = simulate_behaviours("StreamReaderMC", cfg, num=ctx.pick(400, 3000), depth=ctx.pick(14, 18),
                                        seed=ctx.seed, timeout=300)
        tr = replay_behaviours(ctx, loop, behs, limit, "tlc-sim")
        ctx.log(f"replayed {len(tr)} simulated behaviours (limit={limit})")
        all_traces += tr
    judge(ctx, all_traces, "tlc-sim")
    # ---- 3. code -> spec: random executions
    n = ctx.pick(4000, 40000)
    batch: List[dict] = []
    for k in range(n):
        batch.append(random_exec(ctx, loop, ctx.rng, k))
        if len(batch) >= 4000:
            judge(ctx, batch, "random")
            batch = []
    judge(ctx, batch, "random")
    ctx.evaluations = ctx.traces
    loop.uninstall()


def selftest(ctx: Ctx) -> int:
    """The binding must reject a corrupted trace and the model must catch a mutant spec."""
    loop = steploop.new_loop()
    x = Exec(loop, 2)
    x.call("read", 3)
    x.feed(b"abcde")
    x.call("readany", 0)
    x.eof()
    x.call("readany", 0)
    good = x.trace("selftest")
    import copy
    bad1 = copy.deepcopy(good)
    bad1["events"][1]["rdata"][0] ^= 1           # corrupted byte
    bad2 = copy.deepcopy(good)
    del bad2["events"][1]                         # dropped event
    bad3 = copy.deepcopy(good)
    bad3["events"][1]["obs"]["paused"] = False    # pause not observed although size > high
    bad3["events"][1]["rdata"] = []
    bad3["events"][1]["then"] = "block"
    vs, _ = validate_batch("StreamReaderTrace", "StreamReaderTrace.cfg", [good, bad1, bad2, bad3])
    print([(v.ok, v.clause, v.pos) for v in vs])
    ok = vs[0].ok and not vs[1].ok and not vs[2].ok and not vs[3].ok
    print("selftest", "passed" if ok else "FAILED")
    return 0 if ok else 2


def replay(ctx: Ctx, path: str) -> int:
    payload = json.load(open(path))
    t = payload["detail"]["trace"]
    loop = steploop.new_loop()
    x = Exec(loop, t["cfg"]["limit"])
    for e in t["events"]:
        do_stim(x, e)
    x.finish()
    vs, _ = validate_batch("StreamReaderTrace", "StreamReaderTrace.cfg", [x.trace("replay")])
    v = vs[0]
    print(f"replay: ok={v.ok} clause={v.clause!r} pos={v.pos}/{v.total}")
    if not v.ok:
        print(f"VIOLATION property=C08 replay={path}")
        return 1
    return 0
