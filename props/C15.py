"""C15 - static file serving stays inside its root and serves exact bytes.

spec/StaticServe.tla holds the two reference machines (A: tree + symlink confinement,
B: RFC 9110 range / conditional arithmetic); StaticServeMC.tla enumerates both request
spaces exhaustively and checks the reference's own sanity invariants; StaticServeTrace.tla
decides every request/response pair recorded from the real code.

Binding: the tree of the spec is materialised under scratch, a real Application with
add_static(...) is set up, and every target / header combination is written as RAW request
bytes to a real RequestHandler (web.Server protocol) over an in-memory transport under the
stepping loop.  Python only spells the request, records status / headers / body and projects
them (marker -> node id, listing -> entry names, Content-Range -> numbers); TLC judges.
"""
from __future__ import annotations

import copy
import html
import itertools
import json
import logging
import os
import re
from asyncio import constants as aio_constants
from asyncio import transports as aio_transports
from email.utils import formatdate, parsedate_to_datetime
from typing import Any, Dict, Iterable, List, Optional, Tuple

from engine import steploop
from engine.memnet import MemTransport
from engine.runner import Ctx
from engine.tlc import MachineryError, mktemp, run_tlc, validate_batch

# ------------------------------------------------------------------ the alphabet of part A
PLAIN = ["f", "d", "g", "li", "lo", "ld", "secret"]
ALPHABET = PLAIN + [".", "..", "", "%2e%2e", "%2E%2E%2F", "..%2f", "%2f", "%252e%252e",
                    "\\", "..\\", "C:", "<ABS>", "<ABS%>", "<RXREL>", "<RXH>"]
UPS = {"..", "%2e%2e", "%2E%2E%2F", "..%2f", "<RXREL>"}
LINKS = {"li", "lo", "ld"}
ENDS = {"f", "g", "li", "lo", "secret", "<ABS>", "<ABS%>", "<RXREL>", "<RXH>"}
MAXLEN = 4
GZLEN = 2
R_NAME, RX_NAME = "root", "rootx"
PREFIX = "/static"

# ------------------------------------------------------------------ tables of part B
RANGE_RAW = {
    "empty": "bytes=", "dash": "bytes=-", "alpha": "bytes=a-b", "unit": "items=0-1",
    "triple": "bytes=0-1-2", "nosep": "bytes 0-1", "ows": "bytes= 0-1", "upper": "BYTES=0-0",
    "multi1": "bytes=0-0,2-3", "multi2": "bytes=0-1,-1",
}
IFR = ["absent", "date_older", "date_equal", "date_newer", "etag_equal", "etag_other", "etag_weak", "garbage"]
ETAGV = ["absent", "star", "equal", "other", "weak"]
DATEV = ["absent", "older", "equal", "newer", "invalid"]
MTIME = 1700000000
FILE_BYTES = b"abcd"

DEV_SIGNATURES = {
    "Dev_IfRangeETagIgnored": "Range + If-Range: <entity-tag that does not match> is answered 206 "
                              "(If-Range is parsed as a date only; an entity tag counts as absent)",
    "Dev_IfRangeDateNotExact": "Range + If-Range: <date later than Last-Modified> is answered 206 "
                               "(mtime <= date instead of the exact match of RFC 9110 13.1.5)",
    "Dev_SuffixZeroAsWhole": "Range: bytes=-0 is answered 206 with the whole file (treated as bytes=0-) "
                             "instead of 416 / 200",
}


# ------------------------------------------------------------------ transport
class SrvTransport(aio_transports._FlowControlMixin, MemTransport):
    """MemTransport that loop.sendfile() accepts (fallback mode: read + write)."""

    _sendfile_compatible = aio_constants._SendfileMode.FALLBACK

    def __init__(self, loop: Any, protocol: Any) -> None:
        MemTransport.__init__(self, loop, protocol)
        self._loop = loop
        self._protocol_paused = False
        self._set_write_buffer_limits()

    def set_protocol(self, protocol: Any) -> None:
        self.protocol = protocol

    def get_protocol(self) -> Any:
        return self.protocol


class Response:
    __slots__ = ("status", "headers", "body", "raw", "framing")

    def __init__(self, raw: bytes) -> None:
        self.raw = raw
        self.status = 0
        self.headers: Dict[str, str] = {}
        self.body = b""
        self.framing = ""
        head, sep, rest = raw.partition(b"\r\n\r\n")
        if not sep:
            self.framing = "no-header-end"
            return
        lines = head.split(b"\r\n")
        m = re.match(rb"HTTP/1\.[01] (\d{3})", lines[0])
        if not m:
            self.framing = "bad-status-line"
            return
        self.status = int(m.group(1))
        for ln in lines[1:]:
            k, _, v = ln.partition(b":")
            self.headers[k.decode("latin-1").strip().lower()] = v.decode("latin-1").strip()
        if "chunked" in self.headers.get("transfer-encoding", "").lower():
            body = bytearray()
            pos = 0
            while True:
                j = rest.find(b"\r\n", pos)
                if j < 0:
                    self.framing = "bad-chunking"
                    break
                try:
                    n = int(rest[pos:j].split(b";")[0], 16)
                except ValueError:
                    self.framing = "bad-chunking"
                    break
                if n == 0:
                    break
                body += rest[j + 2:j + 2 + n]
                pos = j + 2 + n + 2
            self.body = bytes(body)
        else:
            self.body = rest


class Server:
    """Real aiohttp application + RequestHandler connections on the stepping loop."""

    def __init__(self, loop: steploop.StepLoop) -> None:
        self.loop = loop
        self.runners: Dict[Any, Any] = {}
        self.count = 0

    def add_app(self, key: Any, prefix: str, root: str, **opts: Any) -> None:
        from aiohttp import web

        app = web.Application()
        app.router.add_static(prefix, root, **opts)
        runner = web.AppRunner(app, access_log=None)
        self.loop.run_coro(runner.setup())
        self.runners[key] = runner

    def request(self, key: Any, raw: bytes) -> Response:
        proto = self.runners[key].server()
        tr = SrvTransport(self.loop, proto)
        proto.connection_made(tr)
        tr.feed(raw)
        self.loop.run_until_idle()
        out = bytes(tr.take_written())
        tr.drop(None)
        self.loop.run_until_idle()
        self.count += 1
        if self.count % 5000 == 0:
            # let cancelled keep-alive timers leave the heap (virtual time only)
            self.loop.advance_to(self.loop.time() + 3600.0)
        return Response(out)

    def close(self) -> None:
        for r in self.runners.values():
            try:
                self.loop.run_coro(r.cleanup())
            except Exception:  # noqa: BLE001
                pass
        self.runners.clear()


def quiet_logging() -> None:
    for name in ("aiohttp.server", "aiohttp.web", "aiohttp.access", "asyncio"):
        lg = logging.getLogger(name)
        lg.addHandler(logging.NullHandler())
        lg.propagate = False


# ------------------------------------------------------------------ part A: tree and driver
class Tree:
    """The file-system graph of StaticServe.tla, materialised under scratch."""

    def __init__(self) -> None:
        self.top = os.path.realpath(mktemp("c15tree"))
        if self.top.startswith(("/repo", "/verif")):
            raise MachineryError(f"scratch tree {self.top} must live outside /repo and /verif")
        t = self.top
        self.root = os.path.join(t, R_NAME)
        os.makedirs(os.path.join(self.root, "d"))
        os.makedirs(os.path.join(t, "outside"))
        os.makedirs(os.path.join(t, RX_NAME))
        for node, rel in [("R/f", f"{R_NAME}/f"), ("R/f.gz", f"{R_NAME}/f.gz"), ("R/d/g", f"{R_NAME}/d/g"),
                          ("outside/secret", "outside/secret"), ("Rx/h", f"{RX_NAME}/h")]:
            with open(os.path.join(t, rel), "wb") as f:
                f.write(b"MARK<" + node.encode() + b">")
        os.symlink("d/g", os.path.join(self.root, "li"))
        os.symlink(os.path.join(t, "outside", "secret"), os.path.join(self.root, "lo"))
        os.symlink(os.path.join(t, "outside"), os.path.join(self.root, "ld"))
        os.symlink(os.path.join(t, "outside", "secret"), os.path.join(self.root, "d", "g.gz"))
        self.raw = {s: s for s in ALPHABET}
        self.raw["<ABS>"] = t + "/outside/secret"
        self.raw["<ABS%>"] = (t + "/outside/secret").replace("/", "%2F")
        self.raw["<RXREL>"] = f"..%2F{RX_NAME}%2Fh"
        self.raw["<RXH>"] = f"{RX_NAME}/h"
        self.names = {R_NAME: "<R>", RX_NAME: "<Rx>", os.path.basename(t): "@T"}

    def target(self, segs: Iterable[str]) -> str:
        return PREFIX + "/" + "/".join(self.raw[s] for s in segs)


_re_marker = re.compile(rb"MARK<([^>]*)>")
_re_li = re.compile(rb'<li><a href="[^"]*">([^<]*)</a></li>')


class DriverA:
    def __init__(self, loop: steploop.StepLoop) -> None:
        self.tree = Tree()
        self.srv = Server(loop)
        for follow in (False, True):
            for show in (False, True):
                self.srv.add_app((follow, show), PREFIX, self.tree.root,
                                 break_symlink_sandbox=follow, show_index=show)

    def run(self, follow: bool, show: bool, ae: str, segs: Tuple[str, ...]) -> dict:
        target = self.tree.target(segs)
        raw = f"GET {target} HTTP/1.1\r\nHost: c15\r\n".encode("latin-1")
        if ae:
            raw += f"Accept-Encoding: {ae}\r\n".encode()
        raw += b"\r\n"
        resp = self.srv.request((follow, show), raw)
        return self.project(segs, resp)

    def project(self, segs: Tuple[str, ...], resp: Response) -> dict:
        ev = {"segs": list(segs), "status": resp.status, "kind": "none", "marker": "", "listing": []}
        m = _re_marker.search(resp.raw)          # anywhere: headers, error pages, bodies
        if m:
            ev["kind"] = "marker"
            ev["marker"] = m.group(1).decode("latin-1")
        elif b"<title>Index of" in resp.body:
            ev["kind"] = "listing"
            names = []
            for n in _re_li.findall(resp.body):
                nm = html.unescape(n.decode("utf-8", "replace")).rstrip("/")
                names.append(self.tree.names.get(nm, nm))
            ev["listing"] = sorted(names)
        elif 200 <= resp.status < 300:
            if resp.headers.get("content-type", "").startswith("text/html"):
                # an index page in a layout this harness cannot read: a binding problem, not a verdict
                raise MachineryError(f"cannot parse the directory index served for {segs!r}: {resp.body[:120]!r}")
            ev["kind"] = "other"
        return ev

    def close(self) -> None:
        self.srv.close()


def all_targets(maxlen: int) -> Iterable[Tuple[str, ...]]:
    for n in range(maxlen + 1):
        yield from itertools.product(ALPHABET, repeat=n)


def stratum(segs: Tuple[str, ...]) -> Tuple[Any, ...]:
    ups = sum(1 for s in segs if s in UPS)
    return (len(segs), segs[-1] in ENDS, min(ups, 2), any(s in LINKS for s in segs), segs[0])


def sample_targets(ctx: Ctx) -> List[Tuple[str, ...]]:
    """Seeded stratified sample: every target of <= 2 segments; the 3- and 4-segment targets
    sampled evenly over (length, ends in a servable name, #dot-dot spellings, has link, first symbol)."""
    out: List[Tuple[str, ...]] = list(all_targets(2))
    for n, per in ((3, 5), (4, 8)):
        strata: Dict[Any, List[Tuple[str, ...]]] = {}
        for t in itertools.product(ALPHABET, repeat=n):
            strata.setdefault(stratum(t), []).append(t)
        for key in sorted(strata, key=repr):
            pool = strata[key]
            out += pool if len(pool) <= per else ctx.rng.sample(pool, per)
    return out


# ------------------------------------------------------------------ part B: driver
def b_ranges() -> List[Tuple[str, int, int]]:
    rs = [("none", 0, 0)]
    rs += [("int", a, b) for a in range(6) for b in range(6)]
    rs += [(k, a, 0) for k in ("from", "suffix") for a in range(6)]
    rs += [(k, 0, 0) for k in RANGE_RAW]
    return rs


COND_RANGES = [("none", 0, 0), ("int", 1, 1), ("from", 5, 0)]


def b_space(space: str) -> List[dict]:
    """The request space of part B, the same set StaticServeMC (Part = "b") enumerates."""
    seen = set()
    out: List[dict] = []

    def add(size: int, method: str, r: Tuple[str, int, int], ifr: str, im: str, inm: str, ius: str, ims: str) -> None:
        key = (size, method, r, ifr, im, inm, ius, ims)
        if key in seen:
            return
        seen.add(key)
        out.append({"size": size, "method": method, "rk": r[0], "ra": r[1], "rb": r[2], "ifr": ifr,
                    "im": im, "inm": inm, "ius": ius, "ims": ims})

    for size in range(5):
        for method in ("GET", "HEAD"):
            for r in b_ranges():
                if space == "product":
                    for ifr in IFR:
                        for im, inm, ius, ims in itertools.product(ETAGV, ETAGV, DATEV, DATEV):
                            add(size, method, r, ifr, im, inm, ius, ims)
                    continue
                for ifr in IFR:
                    add(size, method, r, ifr, "absent", "absent", "absent", "absent")
                if size in (0, 3) and r in COND_RANGES:
                    for ifr in ("absent", "date_equal"):
                        for im, inm, ius, ims in itertools.product(ETAGV, ETAGV, DATEV, DATEV):
                            add(size, method, r, ifr, im, inm, ius, ims)
    return out


def b_random(rng: Any, n: int) -> List[dict]:
    """Seeded sample of the full product (thorough tier; TLC enumerates the product itself)."""
    rs = b_ranges()
    out = []
    for _ in range(n):
        r = rng.choice(rs)
        out.append({"size": rng.randrange(5), "method": rng.choice(("GET", "HEAD")), "rk": r[0], "ra": r[1],
                    "rb": r[2], "ifr": rng.choice(IFR), "im": rng.choice(ETAGV), "inm": rng.choice(ETAGV),
                    "ius": rng.choice(DATEV), "ims": rng.choice(DATEV)})
    return out


_re_cr = re.compile(r"^bytes (\d{1,9})-(\d{1,9})/(\d{1,9})$")
_re_cr_star = re.compile(r"^bytes \*/(\d{1,9})$")


class DriverB:
    def __init__(self, loop: steploop.StepLoop) -> None:
        self.dir = os.path.realpath(mktemp("c15files"))
        for n in range(5):
            p = os.path.join(self.dir, f"s{n}")
            with open(p, "wb") as f:
                f.write(FILE_BYTES[:n])
            os.utime(p, (MTIME, MTIME))
        self.srv = Server(loop)
        self.srv.add_app("b", "/b", self.dir)
        self.validators: Dict[int, Tuple[Optional[str], Optional[float]]] = {}
        self.skipped: Dict[str, int] = {}
        for n in range(5):
            r = self.srv.request("b", f"GET /b/s{n} HTTP/1.1\r\nHost: c15\r\n\r\n".encode())
            etag = r.headers.get("etag")
            if etag is not None and (etag.startswith("W/") or not etag.startswith('"')):
                etag = None
            lm: Optional[float] = None
            if "last-modified" in r.headers:
                try:
                    lm = parsedate_to_datetime(r.headers["last-modified"]).timestamp()
                except (TypeError, ValueError):
                    lm = None
            self.validators[n] = (etag, lm)

    def headers(self, q: dict) -> Optional[List[str]]:
        etag, lm = self.validators[q["size"]]
        hs: List[str] = []
        rk = q["rk"]
        if rk == "int":
            hs.append(f"Range: bytes={q['ra']}-{q['rb']}")
        elif rk == "from":
            hs.append(f"Range: bytes={q['ra']}-")
        elif rk == "suffix":
            hs.append(f"Range: bytes=-{q['ra']}")
        elif rk != "none":
            hs.append("Range: " + RANGE_RAW[rk])

        def date(which: str) -> Optional[str]:
            if which == "invalid":
                return "yesterday"
            if lm is None:
                return None
            return formatdate(lm + {"older": -3600, "equal": 0, "newer": 3600}[which], usegmt=True)

        def tag(which: str) -> Optional[str]:
            if which == "star":
                return "*"
            if which == "other":
                return '"nomatch"'
            if etag is None:
                return None
            return etag if which == "equal" else "W/" + etag

        vals: List[Tuple[str, Optional[str]]] = []
        ifr = q["ifr"]
        if ifr.startswith("date_"):
            vals.append(("If-Range", date(ifr[5:])))
        elif ifr.startswith("etag_"):
            vals.append(("If-Range", tag(ifr[5:])))
        elif ifr == "garbage":
            vals.append(("If-Range", "xyz"))
        for name, key, fn in (("If-Match", "im", tag), ("If-None-Match", "inm", tag),
                              ("If-Unmodified-Since", "ius", date), ("If-Modified-Since", "ims", date)):
            if q[key] != "absent":
                vals.append((name, fn(q[key])))
        for name, v in vals:
            if v is None:
                return None          # the server publishes no usable validator for this form
            hs.append(f"{name}: {v}")
        return hs

    def run(self, q: dict) -> Optional[dict]:
        hs = self.headers(q)
        if hs is None:
            self.skipped["no validator"] = self.skipped.get("no validator", 0) + 1
            return None
        raw = (f"{q['method']} /b/s{q['size']} HTTP/1.1\r\nHost: c15\r\n" + "".join(h + "\r\n" for h in hs) + "\r\n")
        resp = self.srv.request("b", raw.encode("latin-1"))
        return self.project(q, resp)

    @staticmethod
    def project(q: dict, resp: Response) -> dict:
        ev = dict(q)
        clen = -1
        if "content-length" in resp.headers:
            try:
                clen = min(int(resp.headers["content-length"]), 10 ** 9)
            except ValueError:
                clen = -2
        crk, crs, cre, crn = "none", 0, 0, 0
        if "content-range" in resp.headers:
            v = resp.headers["content-range"]
            m = _re_cr.match(v)
            ms = _re_cr_star.match(v)
            if m:
                crk, crs, cre, crn = "range", int(m.group(1)), int(m.group(2)), int(m.group(3))
            elif ms:
                crk, crn = "star", int(ms.group(1))
            else:
                crk = "bad"
        body = resp.body if not resp.framing else resp.body + b"?"   # broken framing is never "exact bytes"
        ev.update({"status": resp.status, "body": list(body[:64]), "clen": clen, "crk": crk, "crs": crs,
                   "cre": cre, "crn": crn,
                   "mp": resp.headers.get("content-type", "").lower().startswith("multipart/byteranges")})
        return ev

    def close(self) -> None:
        self.srv.close()


# ------------------------------------------------------------------ judging
class Findings:
    """Aggregates TLC's failing (event, clause) pairs: one violation per clause (+ config class)."""

    def __init__(self) -> None:
        self.by: Dict[Tuple[str, str], dict] = {}

    def add(self, clause: str, part: str, cfg: dict, ev: dict, count: int = 1) -> None:
        """count > 0 only for the first example of an aggregated (clause, count, positions) entry."""
        for c in clause.split("+"):
            if part == "a":
                cls = f"follow={cfg['follow']} show={cfg['show']}" + (f" ae={cfg['ae']}" if cfg["ae"] else "")
                weight: Tuple[Any, ...] = (len(ev["segs"]), sum(len(s) for s in ev["segs"]))
            else:
                cls = ""
                weight = (c.startswith("Dev_") and ev["status"] != 206,
                          sum(1 for k in ("ifr", "im", "inm", "ius", "ims") if ev[k] != "absent"),
                          ev["method"] != "GET", abs(ev["size"] - 3), ev["ra"] + ev["rb"])
            slot = self.by.setdefault((c, cls), {"n": 0, "weight": None, "cfg": cfg, "ev": ev, "part": part})
            slot["n"] += count
            if slot["weight"] is None or weight < slot["weight"]:
                slot.update({"weight": weight, "cfg": cfg, "ev": ev})

    def report(self, ctx: Ctx) -> None:
        for (clause, cls), slot in sorted(self.by.items()):
            ev = slot["ev"]
            if clause in DEV_SIGNATURES:
                sig = DEV_SIGNATURES[clause]
            elif slot["part"] == "a":
                sig = f"{clause} [{cls}] e.g. segments {ev['segs']!r} -> {ev['status']} {ev['kind']} {ev['marker'] or ev['listing']}"
            else:
                req = {k: ev[k] for k in ("size", "method", "rk", "ra", "rb", "ifr", "im", "inm", "ius", "ims")}
                sig = f"{clause} e.g. {req} -> {ev['status']}"
            ctx.violation(clause, sig, {"part": slot["part"], "cfg": slot["cfg"], "event": ev,
                                        "occurrences": slot["n"]}, "trace")


def judge(ctx: Ctx, traces: List[dict], findings: Findings) -> None:
    if not traces:
        return
    verdicts, res = validate_batch("StaticServeTrace", "StaticServeTrace.cfg", traces, timeout=1800)
    nev = sum(len(t["events"]) for t in traces)
    ctx.add_trace_batch(nev, res)
    for t, v in zip(traces, verdicts):
        if v.pos != v.total:
            raise MachineryError(f"trace {t['src']} consumed {v.pos}/{v.total} events")
        _nfail, fails = v.info[0], v.info[1]
        for clause, n, positions in fails:          # aggregated per clause by the trace spec
            for k, pos in enumerate(positions):
                findings.add(clause, t["cfg"]["part"], t["cfg"], t["events"][pos - 1], n if k == 0 else 0)


def chunked(evs: List[dict], n: int) -> Iterable[List[dict]]:
    for i in range(0, len(evs), n):
        yield evs[i:i + n]


# ------------------------------------------------------------------ model runs
MC_CFG = """SPECIFICATION Spec
CONSTANTS
  Part = "{part}"
  MaxLen = {maxlen}
  GzLen = {gzlen}
  Space = "{space}"
  RefMode = "{refmode}"
  SuffixClamp = {clamp}
{invs}
VIEW View
CHECK_DEADLOCK FALSE
"""
INV_A = ["InvTree", "InvA_Oracle", "InvA_NoLinkNoEscape", "InvA_LexPhys", "InvA_Canonical",
         "InvA_LegitViaLink", "InvA_TargetOk"]
INV_B = ["InvB_ReqOk", "InvB_NonEmpty", "InvB_Oracle", "InvB_Slice", "InvB_Pre", "InvB_One"]


def mc_cfg(part: str, *, maxlen: int = MAXLEN, space: str = "factored", refmode: str = "ideal",
           clamp: bool = True) -> str:
    d = mktemp("c15cfg")
    p = os.path.join(d, f"StaticServeMC_{part}.cfg")
    invs = "\n".join("INVARIANT " + i for i in (INV_A if part == "a" else INV_B))
    with open(p, "w") as f:
        f.write(MC_CFG.format(part=part, maxlen=maxlen, gzlen=GZLEN, space=space, refmode=refmode,
                              clamp=str(clamp).upper(), invs=invs))
    return p


def n_targets(maxlen: int) -> int:
    k = len(ALPHABET)
    return 4 * sum(k ** n for n in range(maxlen + 1)) + 4 * sum(k ** n for n in range(GZLEN + 1))


# ------------------------------------------------------------------ check
def run_part_b(ctx: Ctx, loop: steploop.StepLoop, findings: Findings, space: str) -> int:
    from aiohttp import web_fileresponse

    reqs = b_space(space)
    if not ctx.quick:
        reqs = reqs + b_random(ctx.rng, 150000)
    total = 0
    for mode in ("loop.sendfile", "nosendfile"):
        old = web_fileresponse.NOSENDFILE
        web_fileresponse.NOSENDFILE = (mode == "nosendfile")   # the AIOHTTP_NOSENDFILE switch
        todo = reqs
        if ctx.quick and mode == "nosendfile":
            # preconditions are decided before the send path is chosen
            todo = [q for q in reqs if all(q[k] == "absent" for k in ("im", "inm", "ius", "ims"))]
        drv = DriverB(loop)
        try:
            if any(v[0] is None or v[1] is None for v in drv.validators.values()):
                ctx.notes.append("part B: the server published no strong ETag / Last-Modified for some file; "
                                 "requests that need it were skipped")
            evs = []
            for q in todo:
                e = drv.run(q)
                if e is not None:
                    evs.append(e)
                    if e["status"] in (206, 416, 304, 412):
                        ctx.distinct.add(("b", tuple(sorted(q.items()))))
        finally:
            drv.close()
            web_fileresponse.NOSENDFILE = old
        ctx.log(f"part B [{mode}]: {len(evs)} request/response pairs recorded")
        if evs:
            ctx.sample({"part": "b", "mode": mode, "event": next((e for e in evs if e["status"] == 206), evs[0])})
        traces = [{"cfg": {"part": "b", "mode": mode}, "src": f"b-{mode}-{k}", "events": c}
                  for k, c in enumerate(chunked(evs, 500))]
        for group in chunked(traces, 60):
            judge(ctx, group, findings)
        total += len(evs)
    return total


def run_part_a(ctx: Ctx, loop: steploop.StepLoop, findings: Findings) -> int:
    drv = DriverA(loop)
    total = 0
    try:
        targets = sample_targets(ctx) if ctx.quick else list(all_targets(MAXLEN))
        ctx.log(f"part A: {len(targets)} targets x 4 option combinations"
                + (" (stratified sample)" if ctx.quick else " (complete)"))
        gz_targets = list(all_targets(GZLEN))
        plan = [(fo, sh, "", targets) for fo in (False, True) for sh in (False, True)]
        plan += [(fo, sh, "gzip", gz_targets) for fo in (False, True) for sh in (False, True)]
        pending: List[dict] = []
        pending_events = 0
        for fo, sh, ae, tg in plan:
            cfg = {"part": "a", "follow": fo, "show": sh, "ae": ae}
            evs = []
            for segs in tg:
                e = drv.run(fo, sh, ae, segs)
                evs.append(e)
                if e["kind"] != "none":
                    ctx.distinct.add(("a", fo, sh, ae, segs))
            total += len(evs)
            served = next((e for e in evs if e["kind"] == "marker" and len(e["segs"]) > 1), None)
            if served is not None:
                ctx.sample({"part": "a", "cfg": cfg, "target": drv.tree.target(served["segs"]), "event": served})
            for k, c in enumerate(chunked(evs, 500)):
                pending.append({"cfg": cfg, "src": f"a-{fo}-{sh}-{ae}-{k}", "events": c})
                pending_events += len(c)
                if pending_events >= 60000:
                    judge(ctx, pending, findings)
                    pending, pending_events = [], 0
        judge(ctx, pending, findings)
    finally:
        drv.close()
    return total


def run(ctx: Ctx) -> None:
    ctx.rule = ("executions = request/response pairs of a real RequestHandler serving add_static() over an "
                "in-memory connection: part A every target of the model's traversal grammar (quick: all targets "
                "of <= 2 segments + a seeded stratified sample of the 3- and 4-segment ones) x follow x show_index "
                "(+ Accept-Encoding: gzip for <= 2 segments); part B every request of the factored range space (thorough: + 150k seeded "
                "draws from the full product), once through loop.sendfile() and once through the AIOHTTP_NOSENDFILE path (quick: there only the "
                "requests without If-Match/None-Match/(Un)Modified-Since); each pair is one "
                "execution (they are grouped 500 per trace only for transport to TLC); distinct = different "
                "requests whose response was not a plain miss (A: marker or listing or 2xx; B: 206/416/304/412)")
    ctx.assumptions = [
        "POSIX file system; drive / UNC / backslash forms only as 'ordinary name or rejected'",
        "the tree is static while a request is served (no stat/open races)",
        "mtime is a whole number of seconds; validators for conditional headers are the ETag / Last-Modified "
        "the server itself sent for the file",
        "one request per connection; bodies are sent through loop.sendfile() in fallback mode or the "
        "NOSENDFILE chunk loop, never through the kernel's sendfile",
        "one-sided confinement oracle: a target that is refused although an ideal server could serve it "
        "is accepted unless its spelling is canonical (plain names only)",
        "RFC readings: unsatisfiable / invalid / unknown-unit / multi-range Range may be answered 416 or 200; "
        "If-Modified-Since false may be answered 304 or ignored; an If-Range date equal to Last-Modified may "
        "count as match or not; HEAD may ignore Range",
    ]
    quiet_logging()
    # ---- 1. TLC: exhaustive enumeration of both spaces + the reference's sanity invariants
    if os.environ.get("VERIF_C15_SKIP_MODEL"):      # development aid for mutation trials only
        ctx.notes.append("model runs skipped (VERIF_C15_SKIP_MODEL)")
        return run_code(ctx)
    res = run_tlc("StaticServeMC", mc_cfg("a"), workers=16, timeout=ctx.pick(600, 1800), deadlock=False)
    ctx.expect_model_ok(f"StaticServeMC(Part=a,MaxLen={MAXLEN},GzLen={GZLEN})", res)
    ctx.log(f"model A: {res.distinct} targets x options, ok={res.ok}, {res.wall_s:.0f}s")
    if res.ok and res.distinct != n_targets(MAXLEN):
        raise MachineryError(f"model A enumerates {res.distinct} requests, the harness alphabet gives {n_targets(MAXLEN)}")
    spaces = ctx.pick(["factored"], ["factored", "product"])
    for space in spaces:
        res = run_tlc("StaticServeMC", mc_cfg("b", space=space), workers=16, timeout=ctx.pick(600, 1800), deadlock=False)
        ctx.expect_model_ok(f"StaticServeMC(Part=b,Space={space})", res)
        ctx.log(f"model B[{space}]: {res.distinct} requests, ok={res.ok}, {res.wall_s:.0f}s")
        if res.ok and space == "factored" and res.distinct != len(b_space("factored")):
            raise MachineryError(f"model B enumerates {res.distinct} requests, the harness {len(b_space('factored'))}")
    run_code(ctx)


def run_code(ctx: Ctx) -> None:
    # ---- 2. every request of the spaces against the real code, judged by TLC
    loop = steploop.new_loop()
    findings = Findings()
    try:
        nb = run_part_b(ctx, loop, findings, "factored")
        na = run_part_a(ctx, loop, findings)
    finally:
        loop.uninstall()
    findings.report(ctx)
    ctx.evaluations = na + nb
    ctx.extra["requests_part_a"] = na
    ctx.extra["requests_part_b"] = nb
    if loop.exc_contexts:
        ctx.notes.append(f"{len(loop.exc_contexts)} loop exception-handler calls, first: "
                         f"{str(loop.exc_contexts[0].get('message'))[:200]}")


# ------------------------------------------------------------------ self-test
def selftest(ctx: Ctx) -> int:
    quiet_logging()
    ok = True
    # (ii) spec-level mutants must be caught by TLC
    for part, kw, inv in (("a", {"refmode": "nocheck", "maxlen": 2}, "InvA_Oracle"),
                          ("a", {"refmode": "prefix", "maxlen": 2}, "InvA_Oracle"),
                          ("b", {"clamp": False}, "InvB_Slice")):
        res = run_tlc("StaticServeMC", mc_cfg(part, **kw), workers=4, timeout=600, deadlock=False)
        print(f"mutant {part} {kw}: violated={res.violated}")
        ok = ok and res.violated == inv
    res = run_tlc("StaticServeMC", mc_cfg("a", maxlen=2), workers=4, timeout=600, deadlock=False)
    print(f"unmutated A (MaxLen=2): ok={res.ok} states={res.distinct}")
    ok = ok and res.ok
    # (i) corrupted recordings of real executions must be rejected, the originals accepted
    loop = steploop.new_loop()
    try:
        a = DriverA(loop)
        try:
            cfg = {"part": "a", "follow": False, "show": False, "ae": ""}
            good_a = {"cfg": cfg, "src": "selftest-a",
                      "events": [a.run(False, False, "", s) for s in (("f",), ("d", "g"), ("li",), ("lo",), ("d",), ("..", "<RXH>"))]}
        finally:
            a.close()
        b = DriverB(loop)
        try:
            base = {"size": 4, "method": "GET", "rk": "int", "ra": 1, "rb": 2, "ifr": "absent", "im": "absent",
                    "inm": "absent", "ius": "absent", "ims": "absent"}
            qs = [base, dict(base, rk="suffix", ra=5, rb=0), dict(base, rk="from", ra=4, rb=0),
                  dict(base, method="HEAD"), dict(base, rk="none", ra=0, rb=0, inm="equal")]
            good_b = {"cfg": {"part": "b", "mode": "loop.sendfile"}, "src": "selftest-b", "events": [b.run(q) for q in qs]}
        finally:
            b.close()
    finally:
        loop.uninstall()

    def mut(t: dict, i: int, **kw: Any) -> dict:
        t2 = copy.deepcopy(t)
        t2["events"][i].update(kw)
        return t2

    bad = [
        (mut(good_a, 3, status=200, kind="marker", marker="outside/secret"), "Confinement"),
        (mut(good_a, 5, status=200, kind="marker", marker="Rx/h"), "Confinement"),
        (mut(good_a, 4, status=200, kind="listing", listing=["g", "g.gz"]), "ListingNotEnabled"),
        (mut(good_a, 0, status=404, kind="none", marker=""), "CanonicalFileNotServed"),
        (mut(good_a, 0, segs=["f", "nosuchsymbol"]), "TargetNotInModel"),
        (mut(good_b, 0, body=[98, 100]), "Body206"),
        (mut(good_b, 0, cre=3), "ContentRange206"),
        (mut(good_b, 0, clen=3), "ContentLengthVsBody"),
        (mut(good_b, 1, status=416, body=[], crk="star", crn=4, clen=-1), "StatusNotAllowed"),
        (mut(good_b, 2, crn=5), "ContentRange416"),
        (mut(good_b, 2, body=[98, 99], clen=2), "Body416"),
        (mut(good_b, 4, body=[97], clen=1), "Body304"),
        (mut(good_b, 3, body=[98, 99]), "HeadHasBody"),
        (mut(good_b, 4, status=200, body=[97, 98, 99, 100], clen=4), "StatusNotAllowed"),
    ]
    # permitted alternatives must stay accepted: an error text on 416, 200-whole for an unsatisfiable range
    alt = [mut(good_b, 2, body=[52, 49, 54], clen=3),
           mut(good_b, 2, status=200, body=[97, 98, 99, 100], clen=4, crk="none", crn=0)]
    vs, _ = validate_batch("StaticServeTrace", "StaticServeTrace.cfg", [good_a, good_b] + [t for t, _ in bad] + alt)
    for v in vs[2 + len(bad):]:
        print(f"permitted alternative -> ok={v.ok} {v.clause!r}")
        ok = ok and v.ok
    print("recorded A:", [(e["segs"], e["status"], e["kind"], e["marker"]) for e in good_a["events"]])
    print("recorded B:", [(e["rk"], e["ra"], e["rb"], e["method"], e["status"], e["body"], e["crk"], e["crs"], e["cre"], e["crn"])
                          for e in good_b["events"]])
    print("good:", [(v.ok, v.clause, v.info) for v in vs[:2]])
    ok = ok and vs[0].ok and vs[1].ok
    for (t, want), v in zip(bad, vs[2:2 + len(bad)]):
        print(f"corrupted -> {v.clause!r} (expected {want!r})")
        ok = ok and (not v.ok) and v.clause == want
    print("selftest", "passed" if ok else "FAILED")
    return 0 if ok else 2


# ------------------------------------------------------------------ replay
def replay(ctx: Ctx, path: str) -> int:
    quiet_logging()
    payload = json.load(open(path))
    d = payload["detail"]
    if "event" not in d:
        print("replay: model-level violation; rerun ./check C15 to reproduce with TLC")
        return 1
    ev, cfg = d["event"], d["cfg"]
    loop = steploop.new_loop()
    try:
        if d["part"] == "a":
            drv: Any = DriverA(loop)
            try:
                print("target:", drv.tree.target(ev["segs"]))
                new = drv.run(cfg["follow"], cfg["show"], cfg["ae"], tuple(ev["segs"]))
            finally:
                drv.close()
        else:
            from aiohttp import web_fileresponse
            web_fileresponse.NOSENDFILE = cfg.get("mode") == "nosendfile"
            drv = DriverB(loop)
            try:
                q = {k: ev[k] for k in ("size", "method", "rk", "ra", "rb", "ifr", "im", "inm", "ius", "ims")}
                print("headers:", drv.headers(q))
                new = drv.run(q)
            finally:
                drv.close()
    finally:
        loop.uninstall()
    if new is None:
        raise MachineryError("replay: request cannot be built (no validator published)")
    print("observed:", {k: new[k] for k in new if k not in ("size", "method", "rk", "ra", "rb", "ifr", "im", "inm", "ius", "ims")})
    vs, _ = validate_batch("StaticServeTrace", "StaticServeTrace.cfg", [{"cfg": cfg, "src": "replay", "events": [new]}])
    v = vs[0]
    print(f"replay: ok={v.ok} clause={v.clause!r}")
    if not v.ok:
        print(f"VIOLATION property=C15 replay={path}")
        return 1
    return 0
