"""C17 - redirects confine credentials and terminate.

spec/Redirects.tla       reference machine of the redirect loop (credentials, method/content table,
                         request bound, refusals, history)
spec/RedirectsMC.tla     bounded model: TLC picks the scenario (initial request) and the server script
spec/RedirectsTrace.tla  judges executions of a real ClientSession against scripted servers

Each execution: a fresh real ClientSession (real CookieJar) on engine.clikit; the harness is every
origin at once: it answers each request the client writes with the next response of the script and
records what each origin received.  Python drives, records and projects; TLC decides.
"""
from __future__ import annotations

import base64
import copy
import json
import os
import re
from http.cookies import SimpleCookie
from typing import Any, Dict, List, Optional, Tuple

from engine import steploop
from engine.clikit import ClientKit, http_response
from engine.runner import Ctx
from engine.tlc import (MachineryError, cover_behaviours, mktemp, require_clean, run_tlc,
                        simulate_behaviours, validate_batch)

CALLER_TOK = "Bearer tokC"
PROXY_TOK = "Bearer ptokC"
BYTES_BODY = b"xyz"
STREAM_PARTS = (b"ab", b"c")
STREAM_BODY = b"".join(STREAM_PARTS)
DEVIATIONS = {
    "EntityHeadersOnBodylessHop": "redirected GET/HEAD/DELETE without content carries Content-Type: application/octet-stream (and Content-Length: 0)",
    "FinalInOwnHistory": "3xx without Location is returned as the result and listed in its own history",
}
NONHTTP = {"ftp": "ftp://b/x", "mailto": "mailto:u@b", "ws": "ws://b/x", "js": "javascript:alert(1)"}
INVALID = {"bracket": "http://[::1/x", "nohost": "http:///x", "badport": "http://a:bad/x",
           "bigport": "http://a:99999/x", "noauth": "http://"}


# ---------------------------------------------------------------- scenario helpers
def host_str(labels: List[str]) -> str:
    return ".".join(labels)


def authority(host: List[str], port: int) -> str:
    return host_str(host) + (f":{port}" if port else "")


def default_port(scheme: str) -> int:
    return 443 if scheme == "https" else 80


def initial_url(u: dict, userinfo: bool) -> str:
    ui = "u1:p1@" if userinfo else ""
    return f"{u['scheme']}://{ui}{authority(u['host'], u['port'])}/{u['dir']}/{u['leaf']}"


def location_of(r: dict, k: int) -> Optional[str]:
    """Concrete Location for script item r answering request number k."""
    f = r["form"]
    tail = f"/{r['dir']}/{r['leaf']}"
    if f == "abs":
        return f"{r['sch']}://{authority(r['host'], r['port'])}{tail}"
    if f == "cred":
        return f"{r['sch']}://u{k + 1}:p{k + 1}@{authority(r['host'], r['port'])}{tail}"
    if f == "schemerel":
        return f"//{authority(r['host'], r['port'])}{tail}"
    if f == "abspath":
        return tail
    if f == "relseg":
        return r["leaf"]
    if f == "nonhttp":
        return NONHTTP[r.get("variant") or "ftp"]
    if f == "invalid":
        return INVALID[r.get("variant") or "bracket"]
    return None


def blank_resp() -> dict:
    return {"ev": "resp", "kind": "redirect", "status": 0, "form": "", "sch": "", "host": [], "port": 0,
            "dir": "", "leaf": "", "setc": False, "variant": ""}


def final_resp(setc: bool = False) -> dict:
    r = blank_resp()
    r.update(kind="final", status=200, setc=setc)
    return r


# ---------------------------------------------------------------- projections (no judgement here)
def proj_auth(v: Optional[str]) -> str:
    if v is None:
        return ""
    if v == CALLER_TOK:
        return "caller"
    if v.startswith("Basic "):
        try:
            dec = base64.b64decode(v[6:]).decode("latin-1")
        except Exception:  # noqa: BLE001
            return "other"
        m = re.fullmatch(r"u(\d+):p(\d+)", dec)
        if m and m.group(1) == m.group(2):
            return f"url{m.group(1)}"
    return "other"


def proj_pauth(v: Optional[str]) -> str:
    if v is None:
        return ""
    return "caller" if v == PROXY_TOK else "other"


def proj_cookies(v: Optional[str]) -> List[str]:
    out = []
    for part in (v or "").split(";"):
        part = part.strip()
        if not part:
            continue
        name, _, val = part.partition("=")
        out.append(name if val == "1" else name + "~")
    return sorted(out)


def proj_hosthdr(v: Optional[str]) -> dict:
    v = v or ""
    h, _, p = v.partition(":")
    return {"host": h.split(".") if h else [], "port": int(p) if p.isdigit() else (0 if not p else 99999)}


def proj_url(u: Any) -> dict:
    segs = u.path.lstrip("/").split("/")
    return {"o": {"scheme": u.scheme, "host": (u.host or "").split("."), "port": int(u.port or 0)},
            "dir": "/".join(segs[:-1]), "leaf": segs[-1]}


# ---------------------------------------------------------------- one execution
def execute(loop: steploop.StepLoop, cfg: dict, script: List[dict], opts: dict, src: str) -> dict:
    """Run the scenario `cfg` against the scripted servers; returns the recorded trace."""
    import aiohttp
    from yarl import URL

    hdrs = {}
    if "Authorization" in cfg["hdrs"]:
        hdrs["Authorization"] = CALLER_TOK
    if "Cookie" in cfg["hdrs"]:
        hdrs["Cookie"] = "hc=1"
    if "Proxy-Authorization" in cfg["hdrs"]:
        hdrs["Proxy-Authorization"] = PROXY_TOK
    via_session = opts.get("via") == "session"
    kit = ClientKit(loop, session_kw={"headers": dict(hdrs)} if (via_session and hdrs) else None)
    jar = kit.session.cookie_jar
    for c in cfg["jar"]:
        sc: SimpleCookie = SimpleCookie()
        sc[c["name"]] = "1"
        sc[c["name"]]["path"] = "/" + c["dir"] if c["dir"] else "/"
        if c["secure"]:
            sc[c["name"]]["secure"] = True
        if not c["hostOnly"]:
            sc[c["name"]]["domain"] = host_str(c["host"])
        jar.update_cookies(sc, URL(f"{'https' if c['secure'] else 'http'}://{host_str(c['host'])}/"))

    async def stream() -> Any:
        for p in STREAM_PARTS:
            yield p

    body_kind = cfg["body"]
    orig = b"" if body_kind == "none" else (BYTES_BODY if body_kind == "bytes" else STREAM_BODY)
    kw: Dict[str, Any] = {"max_redirects": cfg["maxRedirects"], "allow_redirects": True}
    if body_kind == "bytes":
        kw["data"] = BYTES_BODY
    elif body_kind == "stream":
        kw["data"] = stream()
    if hdrs and not via_session:
        kw["headers"] = dict(hdrs)
    if cfg["reqCookies"]:
        kw["cookies"] = {"rc": "1"}
    if cfg["params"]:
        kw["params"] = {"k": "v"}
    url = initial_url(cfg["url"], cfg["userinfo"])
    res: Dict[str, Any] = {}

    async def go() -> None:
        try:
            r = await kit.session.request(cfg["method"], url, **kw)
        except BaseException as exc:  # noqa: BLE001
            res["exc"] = exc
            return
        res["r"] = r
        try:
            res["payload"] = await r.read()
        except BaseException as exc:  # noqa: BLE001
            res["read_exc"] = exc
        r.release()

    task = kit.spawn("r1", go())
    loop.run_until_idle()
    events: List[dict] = []
    seen: Dict[int, int] = {}
    k = 0
    hang = False
    unfinished = False
    while True:
        new: List[Tuple[Any, dict]] = []
        for c in kit.conns:
            rq = c.requests()
            for r in rq[seen.get(c.idx, 0):]:
                new.append((c, r))
            seen[c.idx] = len(rq)
        for c, r in new:
            hd = {}
            for hk, hv in r["headers"]:
                hd.setdefault(hk.lower(), hv)
            path, _, query = r["target"].partition("?")
            segs = path.lstrip("/").split("/")
            body = r["body"]
            events.append({
                "ev": "req",
                "o": {"scheme": "https" if c.key.is_ssl else "http", "host": c.key.host.split("."),
                      "port": int(c.key.port or 0)},
                "dir": "/".join(segs[:-1]), "leaf": segs[-1], "query": query,
                "hostHdr": proj_hosthdr(hd.get("host")),
                "method": r["method"],
                "body": "none" if body == b"" else ("orig" if body == orig else "other"),
                "auth": proj_auth(hd.get("authorization")), "pauth": proj_pauth(hd.get("proxy-authorization")),
                "cookies": proj_cookies(hd.get("cookie")),
                "clen": hd.get("content-length", ""), "ctype": hd.get("content-type", ""),
                "te": hd.get("transfer-encoding", ""),
            })
        if task.done():
            break
        if not new:
            hang = True
            break
        if k >= len(script):
            unfinished = True
            break
        r = dict(blank_resp(), **script[k])
        r["ev"] = "resp"
        k += 1
        events.append(r)
        conn, rq = new[-1]
        extra = []
        if r["kind"] == "final":
            payload = b"" if rq["method"] == "HEAD" else b"ok"
        else:
            loc = location_of(r, k)
            if loc is not None:
                extra.append(("Location", loc))
            payload = b"moved" if (opts.get("redirect_body") and rq["method"] != "HEAD") else b""
        if r["setc"]:
            extra.append(("Set-Cookie", f"s{k}=1; Path=/"))
        data = http_response(r["status"], extra, payload, reason="X")
        if opts.get("redirect_body") == "partial" and payload and r["kind"] == "redirect" and r["form"] != "missing":
            data = data[:-3]         # the rest of the redirect's body never arrives: only release() frees the connection
        conn.feed(data)
        loop.run_until_idle()

    end = {"ev": "end", "outcome": "ok", "status": 0, "hist": [], "selfInHist": False, "acquired": 0,
           "histOpen": 0, "exc": ""}
    hist: Any = ()
    if hang or unfinished:
        end["outcome"] = "hang" if hang else "unfinished"
    elif "exc" in res:
        exc = res["exc"]
        end["exc"] = type(exc).__name__
        if isinstance(exc, aiohttp.TooManyRedirects):
            end["outcome"] = "TooManyRedirects"
        elif isinstance(exc, aiohttp.NonHttpUrlRedirectClientError):
            end["outcome"] = "NonHttp"
        elif isinstance(exc, aiohttp.InvalidUrlRedirectClientError):
            end["outcome"] = "InvalidUrl"
        elif isinstance(exc, aiohttp.ClientPayloadError):
            end["outcome"] = "Payload"
        elif type(exc) is ValueError:
            end["outcome"] = "ValueError"
        else:
            end["outcome"] = "other:" + type(exc).__name__
        hist = getattr(exc, "history", ()) or ()
    else:
        r = res["r"]
        end["status"] = int(r.status)
        hist = r.history
        end["selfInHist"] = any(h is r for h in hist)
        end["hist"] = [dict(proj_url(h.url), status=int(h.status)) for h in hist]
        if "read_exc" in res:
            end["outcome"] = "other:read:" + type(res["read_exc"]).__name__
    end["histOpen"] = sum(1 for h in hist if getattr(h, "connection", None) is not None)
    end["acquired"] = len(getattr(kit.connector, "_acquired", ()))
    events.append(end)
    kit.close()
    return {"cfg": cfg, "opts": opts, "src": src, "events": events}


# ---------------------------------------------------------------- TLC state -> scenario
def plain(x: Any) -> Any:
    """engine.tlaval value -> plain JSON-like data (records inside sets come as tuples of pairs)."""
    if isinstance(x, dict):
        return {str(k): plain(v) for k, v in x.items()}
    if isinstance(x, tuple) and x and all(isinstance(e, tuple) and len(e) == 2 and isinstance(e[0], str) for e in x):
        return {str(k): plain(v) for k, v in x}
    if isinstance(x, (list, tuple)):
        return [plain(e) for e in x]
    if isinstance(x, (set, frozenset)):
        return sorted((plain(e) for e in x), key=lambda e: json.dumps(e, sort_keys=True))
    if isinstance(x, bool) or isinstance(x, int):
        return x
    return str(x)


def cfg_of_state(scn: Any) -> dict:
    scn = plain(scn)
    o = scn["url"]["o"]
    port = int(o["port"])
    return {
        "url": {"scheme": o["scheme"], "host": list(o["host"]),
                "port": 0 if port == default_port(o["scheme"]) else port,
                "dir": scn["url"]["dir"], "leaf": scn["url"]["leaf"]},
        "userinfo": bool(scn["userinfo"]), "method": scn["method"], "body": scn["body"],
        "hdrs": sorted(scn["hdrs"]), "reqCookies": bool(scn["reqCookies"]),
        "params": bool(scn["params"]), "maxRedirects": int(scn["maxRedirects"]),
        "jar": sorted(({"name": c["name"], "host": list(c["host"]), "hostOnly": bool(c["hostOnly"]),
                        "dir": c["dir"], "secure": bool(c["secure"])} for c in scn["jar"]),
                      key=lambda c: c["name"]),
    }


def script_of_state(script: List[dict]) -> List[dict]:
    out = []
    for r in plain(script):
        d = blank_resp()
        d.update(kind=str(r["kind"]), status=int(r["status"]), form=str(r["form"]), sch=str(r["sch"]),
                 host=[str(x) for x in r["host"]], port=int(r["port"]), dir=str(r["dir"]), leaf=str(r["leaf"]),
                 setc=bool(r["setc"]), variant=str(r["variant"]))
        out.append(d)
    return out


def driver_opts(rng: Any) -> dict:
    """Dimensions the reference does not look at; chosen by the driver."""
    return {"via": rng.choice(["request", "request", "session"]),
            "redirect_body": rng.choice(["", "", "", "full", "partial"])}


def concretise(script: List[dict], rng: Any) -> List[dict]:
    for r in script:
        if r["form"] == "nonhttp" and not r["variant"]:
            r["variant"] = rng.choice(sorted(NONHTTP))
        elif r["form"] == "invalid" and not r["variant"]:
            r["variant"] = rng.choice(sorted(INVALID))
    return script


def replay_behaviours(ctx: Ctx, loop: steploop.StepLoop, behs: List[List[Any]], src: str) -> List[dict]:
    traces = []
    for beh in behs:
        label, st = beh[-1]
        cfg = cfg_of_state(st["scn"])
        script = concretise(script_of_state(st["script"]), ctx.rng)
        if st["s"]["phase"] != "done":
            script.append(final_resp())          # behaviour cut short by the depth bound: finish politely
        for lab, _ in beh[1:]:
            ctx.action_cover["Answer"] = ctx.action_cover.get("Answer", 0) + 1
        traces.append(execute(loop, cfg, script, driver_opts(ctx.rng), src))
    return traces


# ---------------------------------------------------------------- seeded random driver
def random_scenario(rng: Any) -> Tuple[dict, List[dict]]:
    fam = rng.choice(["short", "dotted", "mixed"])
    if fam == "short":
        hosts = [["a"], ["b"], ["c"]]
    elif fam == "dotted":
        hosts = [["a", "test"], ["sub", "a", "test"], ["b", "test"]]
    else:
        hosts = [["a"], ["a", "test"], ["sub", "a", "test"], ["b"]]
    ports = [0, 0, 0, 81, 8443]
    pool = []
    for _ in range(rng.randint(2, 4)):     # few origins per scenario: returns to an earlier origin are frequent
        pool.append({"sch": rng.choice(["http", "http", "https"]), "host": rng.choice(hosts), "port": rng.choice(ports)})
    start = rng.choice(pool)
    jar = []
    names = iter(["ja", "jb", "jc", "jd", "je", "jf", "jg", "jh"])
    for h in hosts:
        for kind in rng.sample(["plain", "secure", "path", "domain"], rng.randint(0, 3)):
            if kind == "domain" and len(h) < 2:
                continue
            jar.append({"name": next(names), "host": h, "hostOnly": kind != "domain",
                        "dir": "p" if kind == "path" else "", "secure": kind == "secure"})
            if len(jar) >= 8:
                break
        if len(jar) >= 8:
            break
    hset = [h for h in ["Authorization", "Cookie", "Proxy-Authorization"] if rng.random() < 0.6]
    userinfo = rng.random() < 0.2 and "Authorization" not in hset
    method = rng.choice(["GET", "GET", "HEAD", "POST", "POST", "PUT", "DELETE", "PATCH"])
    body = rng.choice(["none", "bytes", "bytes", "stream"]) if method not in ("GET", "HEAD") else rng.choice(["none", "none", "bytes"])
    cfg = {"url": {"scheme": start["sch"], "host": start["host"], "port": start["port"], "dir": rng.choice(["p", "q"]), "leaf": "h1"},
           "userinfo": userinfo, "method": method, "body": body, "hdrs": hset, "reqCookies": rng.random() < 0.5,
           "params": rng.random() < 0.3, "maxRedirects": rng.choice([1, 2, 3, 4, 6, 8, 10, 10]), "jar": jar}
    n = rng.randint(1, 9)
    script = []
    for i in range(1, n + 1):
        r = blank_resp()
        if i == n:
            r.update(kind="final", status=200, setc=rng.random() < 0.2)
            script.append(r)
            break
        form = rng.choice(["abs"] * 6 + ["cred", "schemerel", "schemerel", "abspath", "abspath", "relseg", "relseg"]
                          + (["nonhttp", "invalid", "missing"] if rng.random() < 0.25 else []))
        t = rng.choice(pool)
        r.update(status=rng.choice([301, 302, 302, 303, 307, 307, 308]), form=form, setc=rng.random() < 0.25)
        if form in ("abs", "cred", "schemerel"):
            r.update(sch=t["sch"] if form != "schemerel" else "", host=t["host"], port=t["port"])
        if form in ("abs", "cred", "schemerel", "abspath"):
            r.update(dir=rng.choice(["p", "q"]))
        if form in ("abs", "cred", "schemerel", "abspath", "relseg"):
            r.update(leaf=f"h{i + 1}")
        script.append(r)
    return cfg, concretise(script, rng)


# ---------------------------------------------------------------- model configs
MC_CFG = """SPECIFICATION Spec
CONSTANTS
  StickyDrop = {sticky}
  OriginCmp = "{ocmp}"
  MBs <- {mbs}
  HdrSets <- {hdrsets}
  ReqCks = {reqcks}
  UserInfos = {userinfos}
  Params = {params}
  StartOs <- {startos}
  MaxRs = {maxrs}
  Statuses = {statuses}
  Forms = {forms}
  AbsTargets <- {targets}
  Dirs = {dirs}
  SetCs = {setcs}
  MaxHops = {maxhops}
INVARIANT InvNoCredentialOffOrigin
INVARIANT InvCredentialKept
INVARIANT InvTerminates
INVARIANT InvHistoryOrdered
INVARIANT InvMethodBodyTable
{extra}
CHECK_DEADLOCK FALSE
"""
ALL_FORMS = ["abs", "cred", "schemerel", "abspath", "relseg", "nonhttp", "invalid", "missing"]


def tla_set(xs: Any) -> str:
    def one(x: Any) -> str:
        if isinstance(x, bool):
            return "TRUE" if x else "FALSE"
        if isinstance(x, int):
            return str(x)
        return '"%s"' % x
    return "{" + ", ".join(one(x) for x in xs) + "}"


def write_cfg(name: str, *, mbs: str = "MB_Cred", hdrsets: str = "H_All", reqcks: Any = (False, True),
              userinfos: Any = (False, True), params: Any = (False,), startos: str = "SO_A", maxrs: Any = (1, 2, 3),
              statuses: Any = (302, 307), forms: Any = ALL_FORMS, targets: str = "T_All", dirs: Any = ("p", "q"),
              setcs: Any = (False,), maxhops: int = 2, sticky: bool = True, ocmp: str = "origin",
              liveness: bool = False) -> str:
    d = mktemp("c17cfg")
    p = os.path.join(d, f"RedirectsMC_{name}.cfg")
    with open(p, "w") as f:
        f.write(MC_CFG.format(sticky="TRUE" if sticky else "FALSE", ocmp=ocmp, mbs=mbs, hdrsets=hdrsets,
                              reqcks=tla_set(reqcks), userinfos=tla_set(userinfos), params=tla_set(params),
                              startos=startos, maxrs=tla_set(maxrs), statuses=tla_set(statuses), forms=tla_set(forms),
                              targets=targets, dirs=tla_set(dirs), setcs=tla_set(setcs), maxhops=maxhops,
                              extra="PROPERTY EventuallyDone" if liveness else ""))
    return p


# credentials: every header subset x every Location form x every named origin, chains <= 2
def cfg_cred(**kw: Any) -> str:
    return write_cfg("cred", **kw)


# method / content table: every method x body kind x status, chains <= 2, liveness
def cfg_table(**kw: Any) -> str:
    base = dict(mbs="MB_All", hdrsets="H_Full", reqcks=(False,), userinfos=(False,), statuses=(301, 302, 303, 307, 308),
                forms=("abs", "abspath", "nonhttp", "invalid", "missing"), targets="T_AB", dirs=("p",), liveness=True)
    base.update(kw)
    return write_cfg("table", **base)


# jar re-selection: cookies set on the way, scheme / port / path changes, chains <= 3
def cfg_jar(**kw: Any) -> str:
    base = dict(mbs="MB_One", hdrsets="H_Full", reqcks=(True,), userinfos=(False,), maxrs=(3,), statuses=(307,),
                forms=("abs", "schemerel", "abspath", "relseg"), setcs=(False, True), maxhops=3)
    base.update(kw)
    return write_cfg("jar", **base)


# ---------------------------------------------------------------- judging
def chain_sig(t: dict, upto: int) -> str:
    parts = [t["cfg"]["method"] + "/" + t["cfg"]["body"]]
    for e in t["events"][:upto + 1]:
        if e["ev"] == "resp":
            parts.append(f"{e['status']}:{e['form'] or e['kind']}")
    return " ".join(parts)


def judge(ctx: Ctx, traces: List[dict], label: str) -> None:
    if not traces:
        return
    verdicts, res = validate_batch("RedirectsTrace", "RedirectsTrace.cfg", traces)
    if res.violated:
        raise MachineryError(f"reference invariant {res.violated} failed during trace validation:\n"
                             + "\n".join(res.output.splitlines()[-30:]))
    ctx.add_trace_batch(len(traces), res)
    for t, v in zip(traces, verdicts):
        nreq = sum(1 for e in t["events"] if e["ev"] == "req")
        key = json.dumps([t["cfg"]["method"], t["cfg"]["body"], t["cfg"]["hdrs"], t["cfg"]["userinfo"],
                          t["cfg"]["reqCookies"], t["cfg"]["maxRedirects"], t["cfg"]["url"],
                          [[e["status"], e["form"], e["sch"], e["host"], e["port"], e["dir"], e["setc"]]
                           for e in t["events"] if e["ev"] == "resp"]])
        if nreq >= 2:
            ctx.distinct.add(hash(key))
        if v.ok:
            continue
        devs = [d[1] for d in (v.info or [])]
        hard = v.clause not in DEVIATIONS
        if hard and v.clause == "HarnessOrder":
            raise MachineryError(f"driver mis-sequenced events: {json.dumps(t)[:1500]}")
        counts = ctx.extra.setdefault("clause_counts", {})
        for d in sorted(set(devs)):
            counts[d] = counts.get(d, 0) + 1
            if counts[d] <= 25:       # every occurrence is counted, the first few are kept as replays
                ctx.violation(d, f"{d}: {DEVIATIONS[d]}", {"trace": t, "failed_at": v.pos, "label": label}, "trace")
        if hard:
            counts[v.clause] = counts.get(v.clause, 0) + 1
            if counts[v.clause] <= 200:
                ctx.violation(v.clause, f"{v.clause} after {chain_sig(t, v.pos)}",
                              {"trace": t, "failed_at": v.pos, "label": label}, "trace")
    t0 = traces[0]
    ctx.sample({"src": t0["src"], "init": {k: t0["cfg"][k] for k in ("method", "body", "hdrs", "maxRedirects")},
                "events": [{k: e[k] for k in e if k in ("ev", "o", "leaf", "method", "auth", "cookies", "status", "form",
                                                         "outcome", "hist")} for e in t0["events"][:8]]})


# ---------------------------------------------------------------- check
def run(ctx: Ctx) -> None:
    ctx.rule = ("executions = behaviours of RedirectsMC (transition cover of small trees + -simulate) replayed with a real "
                "ClientSession against scripted origins + seeded random chains over more origins; distinct = different "
                "(initial request, script) pairs with >= 2 requests")
    ctx.assumptions = [
        "origins are in-memory peers behind a BaseConnector subclass (no DNS, TLS, proxies); https differs from http "
        "only in the connection key and in URL / cookie handling",
        "trust_env / netrc / middlewares left at defaults",
        "yarl decides which Location strings are malformed; the invalid forms used are unbalanced bracket, empty host, "
        "non-numeric / out-of-range port",
        "RFC 9110 SHOULD NOT: Content-Length: 0 on a request without content is tolerated",
        "301/302 + POST -> GET is taken as the documented table (RFC 9110 allows keeping POST)",
    ]
    loop = steploop.new_loop()
    # ---- 1. the reference itself: exhaustive for chains <= 2 (<= 3 for the jar slice)
    models = [("cred", cfg_cred(maxrs=ctx.pick((2, 3), (1, 2, 3)), reqcks=ctx.pick((True,), (False, True)),
                                setcs=ctx.pick((False,), (False, True)))),
              ("table", cfg_table(setcs=ctx.pick((False,), (False, True)), params=ctx.pick((False,), (False, True)))),
              ("jar", cfg_jar())]
    if not ctx.quick:
        # the whole alphabet at once, chains <= 2 (about 2 * 10^6 states)
        models.append(("full2", write_cfg("full2", mbs="MB_All", statuses=(301, 302, 303, 307, 308), hdrsets="H_Two",
                                          reqcks=(True,))))
    for name, cfg in models:
        res = run_tlc("RedirectsMC", cfg, workers=16, timeout=ctx.pick(600, 3000), deadlock=False)
        ok = ctx.expect_model_ok(f"RedirectsMC[{name}]", res)
        ctx.log(f"model {name}: {res.distinct} states, ok={ok}, {res.wall_s:.0f}s")
    # ---- 2. spec -> code.  (a) -simulate over the full alphabet, chains <= 3: the invariants are checked on
    #         every simulated state and every behaviour is replayed against the code
    traces: List[dict] = []
    sim_cfg = write_cfg("sim", mbs="MB_All", statuses=(302, 303, 307), startos="SO_All", setcs=(False, True),
                        params=(False, True), maxhops=3)
    sims, res = simulate_behaviours("RedirectsMC", sim_cfg, num=ctx.pick(400, 3000), depth=5, seed=ctx.seed,
                                    timeout=ctx.pick(600, 3000))
    m = re.search(r"The number of states generated: (\d+)", res.output)
    if m:
        res.generated = res.distinct = int(m.group(1))
    ctx.expect_model_ok("RedirectsMC[simulate, chains <= 3]", res, exhaustive=False)
    traces += replay_behaviours(ctx, loop, sims, "tlc-sim")
    ctx.log(f"simulated + replayed {len(sims)} behaviours (chains <= 3, {res.generated} states), violated={res.violated}")
    #         (b) transition cover of three small trees: every edge of the model is driven through the code
    covers = [("forms2", cfg_cred(mbs="MB_One", hdrsets="H_Two", reqcks=(True,), maxrs=(3,), statuses=(307,))),
              ("chain3", cfg_cred(mbs="MB_One", hdrsets="H_Two", reqcks=(True,), maxrs=(4,), statuses=(307,), maxhops=3,
                                  forms=("abs", "cred", "schemerel", "abspath", "relseg"))),
              ("table", cfg_table(maxrs=(2,), targets="T_B", forms=("abs", "abspath", "missing")))]
    if not ctx.quick:
        covers.append(("table3", cfg_table(maxrs=(3,), targets="T_B", forms=("abs", "abspath"), maxhops=3,
                                           statuses=(302, 303, 307))))
    for name, cfg in covers:
        behs, cres = cover_behaviours("RedirectsMC", cfg, timeout=900)
        ctx.extra.setdefault("transition_cover", []).append(
            {"model": f"RedirectsMC[{name}]", "paths": len(behs), "states": cres.distinct})
        traces += replay_behaviours(ctx, loop, behs, "tlc-cover")
        ctx.log(f"replayed {len(behs)} transition-cover paths of {name} ({cres.distinct} states)")
    # ---- 3. code -> spec: random longer chains over more origins
    for _ in range(ctx.pick(2000, 20000)):
        cfg, script = random_scenario(ctx.rng)
        traces.append(execute(loop, cfg, script, driver_opts(ctx.rng), "random"))
    ctx.log(f"executed {len(traces)} scenarios against the real ClientSession; validating")
    for i in range(0, len(traces), 6000):
        judge(ctx, traces[i:i + 6000], "all")
    ctx.evaluations = ctx.traces
    ctx.extra["replay_action_counts"] = dict(ctx.action_cover)
    loop.uninstall()


# ---------------------------------------------------------------- selftest / replay
def _good_trace(loop: steploop.StepLoop) -> dict:
    cfg = {"url": {"scheme": "http", "host": ["a"], "port": 0, "dir": "p", "leaf": "h1"}, "userinfo": False,
           "method": "POST", "body": "bytes", "hdrs": ["Authorization", "Cookie", "Proxy-Authorization"],
           "reqCookies": True, "params": False, "maxRedirects": 5,
           "jar": [{"name": "ja", "host": ["a"], "hostOnly": True, "dir": "", "secure": False},
                   {"name": "jb", "host": ["b"], "hostOnly": True, "dir": "", "secure": False}]}
    s1 = dict(blank_resp(), status=307, form="abs", sch="http", host=["b"], dir="q", leaf="h2")
    s2 = dict(blank_resp(), status=307, form="abs", sch="http", host=["a"], dir="p", leaf="h3")
    return execute(loop, cfg, [s1, s2, final_resp()], {"via": "request"}, "selftest")


def selftest(ctx: Ctx) -> int:
    loop = steploop.new_loop()
    # (ii) spec-level mutants: the mechanism switched off must be caught by TLC
    oks = []
    for name, kw, want in [("StickyDrop=FALSE", dict(sticky=False), "InvNoCredentialOffOrigin"),
                           ('OriginCmp="host"', dict(ocmp="host"), "InvNoCredentialOffOrigin")]:
        res = run_tlc("RedirectsMC", cfg_cred(mbs="MB_One", hdrsets="H_Full", maxrs=(3,), statuses=(307,), maxhops=3, **kw),
                      workers=8, timeout=300, deadlock=False)
        require_clean(res, name)
        print(f"mutant model {name}: violated={res.violated}")
        oks.append(res.violated == want)
    # (i) corrupted / dropped events of a good trace are rejected
    good = _good_trace(loop)
    reqs = [i for i, e in enumerate(good["events"]) if e["ev"] == "req"]
    bad1 = copy.deepcopy(good)
    bad1["events"][reqs[1]]["auth"] = "caller"                 # token reaches b
    bad2 = copy.deepcopy(good)
    bad2["events"][reqs[2]]["cookies"] = sorted(bad2["events"][reqs[2]]["cookies"] + ["rc"])   # resurrected on a
    bad3 = copy.deepcopy(good)
    del bad3["events"][reqs[1]]                                # dropped event
    bad4 = copy.deepcopy(good)
    bad4["events"][-1]["hist"].reverse()                       # history out of order
    bad5 = copy.deepcopy(good)
    bad5["events"][-1]["acquired"] = 1                         # residue
    bad6 = copy.deepcopy(good)
    bad6["cfg"]["maxRedirects"] = 2                            # three requests with max_redirects = 2
    bad7 = copy.deepcopy(good)
    bad7["events"][reqs[1]]["method"] = "GET"                  # 307 must keep POST
    bad7["events"][reqs[1]]["body"] = "none"
    vs, _ = validate_batch("RedirectsTrace", "RedirectsTrace.cfg", [good, bad1, bad2, bad3, bad4, bad5, bad6, bad7])
    print([(v.ok, v.clause, v.pos) for v in vs])
    want = [None, "AuthorizationOffOrigin", "RequestCookiesOffOrigin", "HarnessOrder", "HistoryOrdered",
            "ConnectionLeak", "RequestBound", "MethodTable"]
    good_ok = vs[0].ok or vs[0].clause in DEVIATIONS
    oks.append(good_ok and all(v.clause == w for v, w in zip(vs[1:], want[1:])))
    ok = all(oks)
    print("selftest", "passed" if ok else "FAILED")
    return 0 if ok else 2


def replay(ctx: Ctx, path: str) -> int:
    payload = json.load(open(path))
    t = payload["detail"].get("trace")
    if not isinstance(t, dict) or "events" not in t:
        print("replay: model counterexample; re-run the check to reproduce")
        return 0
    loop = steploop.new_loop()
    script = [e for e in t["events"] if e["ev"] == "resp"]
    t2 = execute(loop, t["cfg"], script, t.get("opts", {}), "replay")
    vs, _ = validate_batch("RedirectsTrace", "RedirectsTrace.cfg", [t2])
    v = vs[0]
    print(f"replay (re-executed against the code): ok={v.ok} clause={v.clause!r} pos={v.pos}/{v.total} devs={v.info}")
    print("  initial:", {k: t["cfg"][k] for k in ("method", "body", "hdrs", "userinfo", "reqCookies", "maxRedirects")},
          initial_url(t["cfg"]["url"], t["cfg"]["userinfo"]))
    for e in t2["events"]:
        if e["ev"] == "req":
            print("  req ", e["o"]["scheme"], ".".join(e["o"]["host"]), e["o"]["port"], e["method"], f"/{e['dir']}/{e['leaf']}",
                  "auth=" + e["auth"], "pauth=" + e["pauth"], "cookies=" + ",".join(e["cookies"]), "body=" + e["body"],
                  "clen=" + e["clen"], "ctype=" + e["ctype"])
        elif e["ev"] == "resp":
            print("  resp", e["status"], e["form"] or e["kind"], location_of(e, 0) if e["form"] not in ("cred",) else "(cred)")
        else:
            print("  end ", {k: e[k] for k in ("outcome", "status", "selfInHist", "acquired", "histOpen", "exc")},
                  [h["status"] for h in e["hist"]])
    want = payload.get("clause")
    hit = (not v.ok) and (v.clause == want or want in [d[1] for d in (v.info or [])])
    if hit or not v.ok:
        print(f"VIOLATION property=C17 replay={path}")
        return 1
    return 0
