"""C01 - Request framing is unambiguous: one wire message, one parsed request.

spec/HttpFraming.tla       RFC 9112 reference reader (request mode = strict reading)
spec/HttpFramingMC.tla     bounded model over a lexeme alphabet (internal invariants, exhaustive)
spec/HttpFramingTrace.tla  judges executions recorded from the real code

Drivers (engine/httpframing.py records, TLC judges):
  A  spec -> code : TLC-simulated lexeme paths of the model, concretised to bytes, fed to the real
                    HttpRequestParser whole / at the lexeme boundaries / at random cuts;
  B  code -> spec : grammar-generated valid pipelines, every smuggling-mutation class at every
                    applicable position, random byte edits; x limit configurations;
  C  connection   : the same streams through a real web.Application / RequestHandler on a
                    MemTransport under the stepping loop: malformed <=> one 4xx + closed, every
                    dispatched request equals the reference's (method, target, body).
"""
from __future__ import annotations

import json
from typing import Any, Dict, List

from engine import httpframing as H
from engine.gen import http as G
from engine.runner import Ctx
from engine.tlc import simulate_behaviours

BATCH = 2500


def _flush(ctx: Ctx, groups: List[H.Group], stats: Dict[str, int], label: str, force: bool = False) -> None:
    if groups and (force or len(groups) >= BATCH):
        st = H.judge_groups(ctx, groups, "C01", label)
        for k, v in st.items():
            stats[k] = stats.get(k, 0) + v
        for g in groups:
            ctx.distinct.add(hash(g.data))
        if len(ctx.samples) < 4:
            g = groups[0]
            ctx.sample({"src": g.src, "label": g.label, "stream": g.data[:200].decode("latin1"),
                        "limits": list(g.lim.key()), "runs": g.nruns, "distinct_outcomes": len(g.order)})
        ctx.log(f"judged {len(groups)} streams ({label}); clauses so far: {dict(sorted(stats.items()))}")
        groups.clear()


def run(ctx: Ctx) -> None:
    ctx.rule = ("executions = (stream, limits, segmentation) runs of the real HttpRequestParser / RequestHandler, "
                "validated by TLC against the RFC 9112 reference; distinct = different byte streams")
    ctx.assumptions = [
        "reference = strict reading of RFC 9112 / RFC 9110 section 5 as encoded in spec/HttpFraming.tla; request-target "
        "validity is byte-class level (VCHAR) plus authority syntax for absolute-form, not full RFC 3986",
        "permitted alternatives (not alarms): HTTP versions other than 1.0/1.1 (THREAT_MODEL 1.5), obs-text in the "
        "request-target, repeated non-framing singleton fields rejected (THREAT_MODEL 1.1), upper-casing of the method "
        "(documented by test_py_parser_normalises_method_to_uppercase), codings before a final chunked (THREAT_MODEL 1.8), "
        "unchecked CONNECT target, rejecting earlier than the reference, stricter header-count limit",
        "payload readers are drained after every read (consumer always keeps up); auto_decompress off",
        "pure-Python parser (no C extension in this tree)",
    ]
    rng = ctx.rng
    stats: Dict[str, int] = {}
    # ---- 1. bounded model of the reference (request mode, grammar alphabet)
    H.run_model(ctx, "HttpFramingMC(request grammar, MaxMsgs=2, MaxLines=%d)" % ctx.pick(3, 4),
                H.write_mc_cfg("grammar", MaxMsgs=2, MaxLines=ctx.pick(3, 4), MaxPending=ctx.pick(0, 3)),
                timeout=ctx.pick(400, 3000))
    groups: List[H.Group] = []
    # ---- 2. spec -> code: lexeme paths of the model driven into the real parser
    simcfg = H.write_mc_cfg("sim", MaxMsgs=2, MaxLines=4, MaxPending=6,
                            LexIds="{1, 2, 3, 4, 5, 6, 7, 8, 9, 10, 11, 12, 13, 14, 15, 16, 17, 18, 19, 20, 21, 22, 23, 24, 25, "
                                   "26, 27, 28, 29, 30, 31, 32, 33, 34, 35, 36, 37, 38, 39, 40, 41, 42, 43, 44, 45, 46, 47, 48, 49}")
    behs, _res = simulate_behaviours("HttpFramingMC", simcfg, num=ctx.pick(800, 6000), depth=ctx.pick(12, 16),
                                     seed=ctx.seed, timeout=300)
    streams = H.behaviours_to_streams(behs)
    ctx.log(f"{len(behs)} simulated behaviours -> {len(streams)} distinct lexeme streams")
    for data, cuts in streams:
        g = H.Group("request", data, H.DEFAULT_LIMITS, src="tlc-sim", label="lexeme path")
        g.parse([])
        g.parse(cuts)
        g.parse(G.random_cuts(rng, len(data), 2))
        groups.append(g)
    _flush(ctx, groups, stats, "model paths", force=True)
    # ---- 3. code -> spec: generated / mutated / random streams x limit configurations
    lim_names = ["default", "default", "small-equal", "line>field", "line<field", "tiny-read-buffer"]
    n_valid = ctx.pick(170, 120)     # thorough: every applicable position of every class
    per_class = ctx.pick(4, None)
    k = 0
    conn_budget = ctx.pick(600, 8000)
    conn_done = 0
    conn_h = H.ConnHarness(H.DEFAULT_LIMITS)
    for src, label, data in H.request_corpus(rng, n_valid, per_class, ctx.pick(4, 12)):
        k += 1
        lim = H.LIMIT_CONFIGS[lim_names[k % len(lim_names)]]
        g = H.Group("request", data, lim, src=src, label=label)
        g.parse([])
        g.parse(G.random_cuts(rng, len(data), 1))
        g.parse(G.random_cuts(rng, len(data), 3))
        if src == "valid" or k % 7 == 0:
            g.parse(G.byte_at_a_time(len(data)))
        # ---- 4. the same stream on a real server connection
        if lim is H.DEFAULT_LIMITS and conn_done < conn_budget and (src == "valid" or k % 3 == 0):
            conn_done += 1
            g.conn(conn_h, [])
            g.conn(conn_h, G.random_cuts(rng, len(data), 2))
        groups.append(g)
        _flush(ctx, groups, stats, "generated/mutated")
    _flush(ctx, groups, stats, "generated/mutated", force=True)
    # ---- 4b. unequal limits x pipelines in which one start / field line lies between the two limits (both orders):
    #          which limit applies depends on the kind of line, never on the message's place inside a read
    for cn in ("line>field", "line<field"):
        lim = H.LIMIT_CONFIGS[cn]
        ch = H.ConnHarness(lim)
        for label, s, cutsets, mode in G.between_limits_family(lim.max_line, lim.max_field):
            if mode != "request":
                continue
            g = H.Group(mode, s, lim, src="between-limits", label=f"{label} [{cn}]")
            g.parse([])
            for cs in cutsets:
                g.parse(cs)
            g.parse(G.random_cuts(rng, len(s), 2))
            g.conn(ch, [])
            g.conn(ch, cutsets[0])
            conn_done += 1
            groups.append(g)
    _flush(ctx, groups, stats, "lines between unequal limits", force=True)
    # ---- 5. pipelines with upgrade offers: the parser reports the offer and hands back the rest of the stream; a
    #         connection whose handler declines it must go on with the pipelined requests - each exactly once
    for i in range(ctx.pick(100, 1200)):
        msgs = G.gen_upgrade_pipeline(rng)
        data = G.render(G.flatten(msgs))
        g = H.Group("request", data, H.DEFAULT_LIMITS, src="upgrade-pipeline", label="upgrade offers in a pipeline")
        g.parse([])
        g.parse(G.random_cuts(rng, len(data), 2))
        bounds = G.offsets([("m", G.render(m)) for m in msgs])[1:-1]
        g.conn(conn_h, [])
        g.conn(conn_h, bounds)                              # one request per read
        g.conn(conn_h, G.random_cuts(rng, len(data), 3))
        if i % 4 == 0:
            g.conn(conn_h, G.byte_at_a_time(len(data)))
        conn_done += 1
        groups.append(g)
        _flush(ctx, groups, stats, "upgrade pipelines")
    _flush(ctx, groups, stats, "upgrade pipelines", force=True)
    ctx.extra["clauses_seen"] = stats
    ctx.extra["connection_level_streams"] = conn_done
    ctx.evaluations = ctx.traces


def selftest(ctx: Ctx) -> int:
    data = (b"POST /p?x=1 HTTP/1.1\r\nHost: a\r\nTransfer-Encoding: chunked\r\n\r\n3\r\nabc\r\n2;x=y\r\nde\r\n0\r\nX-T: v\r\n\r\n"
            b"GET /q HTTP/1.1\r\nHost: a\r\nContent-Length: 0\r\n\r\n")
    g = H.Group("request", data, H.DEFAULT_LIMITS, src="selftest", label="good")
    g.parse([])
    g.parse([40, 70])
    g.conn(H.ConnHarness(H.DEFAULT_LIMITS), [])

    def flip_body(t: dict) -> None:
        t["events"][0]["msgs"][0]["body"][0] ^= 1

    def drop_msg(t: dict) -> None:
        del t["events"][0]["msgs"][1]

    def move_boundary(t: dict) -> None:       # the code "found" a different message boundary
        t["events"][0]["msgs"][0]["body"].append(13)

    def drop_header(t: dict) -> None:
        del t["events"][0]["msgs"][0]["headers"][0]

    def wrong_chunks(t: dict) -> None:
        t["events"][0]["msgs"][0]["chunks"] = [2, 5]

    def smuggled(t: dict) -> None:            # a malformed stream reported as accepted
        t["stream"] = list(data.replace(b"Transfer-Encoding: chunked\r\n", b"Transfer-Encoding: chunked\r\nContent-Length: 3\r\n"))

    def not_closed(t: dict) -> None:          # connection level: malformed input but the transport stays open
        t["stream"] = list(data.replace(b"Host: a\r\nTransfer", b"Host : a\r\nTransfer"))

    return H.selftest_common(
        ctx, g,
        [("body byte flipped", flip_body), ("message dropped", drop_msg), ("boundary moved", move_boundary),
         ("field dropped", drop_header), ("chunk boundaries changed", wrong_chunks), ("CL+TE accepted", smuggled),
         ("malformed answered 200 / left open", not_closed)],
        [("noCLTE", {"Mutant": '"noCLTE"', "MaxMsgs": 1}, "InvUnambiguous")])


def replay(ctx: Ctx, path: str) -> int:
    payload = json.load(open(path))
    rc = H.replay_detail(ctx, payload["detail"])
    if rc:
        print(f"VIOLATION property=C01 replay={path}")
    return rc
