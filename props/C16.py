"""C16 - cookies are sent only where RFC 6265 scoping allows.

spec/CookieStore.tla     RFC 6265 reference store (acceptor style) + judge
spec/CookieStoreMC.tla   bounded model (exhaustive on a restricted lattice, -simulate on the full one)
spec/CookieStoreTrace.tla trace validation of executions of the real aiohttp.CookieJar / ClientSession

Binding: every TLC behaviour and every seeded random history is replayed into a real
CookieJar (patched clock, real Set-Cookie strings through update_cookies_from_headers,
save/load through a scratch file) and, for a sample, through a real ClientSession in
front of a scripted in-memory origin (the Cookie header actually sent is the
observation).  After every action the fixed battery (host x path x scheme) of
filter_cookies() answers is recorded; TLC (CookieStoreTrace) gives the verdict.
Session level (mode "hops"): a real ClientSession on engine.clikit.ClientKit is driven through
requests whose scripted peer redirects them (same origin / other scheme / other host, relative or
absolute Location, with or without Set-Cookie on the 3xx and on the final response), with
per-request cookies= and with jar changes (clock, clear_domain, other responses, save+load) while
a hop waits for its response; the Cookie header of EVERY hop on the wire is judged against what
the reference store attaches for that hop's URL at that moment.
In the same TLC run a rejected execution is walked again with the named deviations of
the spec (Dev_HostOnlyKey, Dev_StaleExpiry, Dev_PathAlias, Dev_DomainCase, Dev_EpochExpires, Dev_BadMaxAge) enabled, only
to classify the failure: clause/signature say which deviation explains it, or none.
"""
from __future__ import annotations

import copy
import json
import os
import re
import time as _realtime
from concurrent.futures import ThreadPoolExecutor
from typing import Any, Dict, List, Optional, Tuple

from engine import steploop
from engine.gen import cookies as G
from engine.runner import Ctx
from engine.tlc import MachineryError, mktemp, run_tlc, simulate_behaviours, validate_batch

DEVS = ["hostOnlyKey", "staleExpiry", "pathAlias", "domainCase", "epochExpires", "badMaxAge"]
DEV_NAME = {"hostOnlyKey": "Dev_HostOnlyKey", "staleExpiry": "Dev_StaleExpiry",
            "pathAlias": "Dev_PathAlias", "domainCase": "Dev_DomainCase",
            "epochExpires": "Dev_EpochExpires", "badMaxAge": "Dev_BadMaxAge"}
STIM_FIELDS = ("ev", "host", "path", "scheme", "name", "val", "dom", "pth", "secure", "maxage", "expires", "d", "n",
               "re", "via", "start", "rc")
STIM_DEFAULTS = {"re": 0, "via": "jar", "start": False, "rc": [0, 0]}


# ---------------------------------------------------------------- patched clock
class FakeTime:
    """Stands in for the `time` module inside aiohttp.cookiejar (harness process only)."""

    def __init__(self) -> None:
        self.model_now = G.T0

    def time(self) -> float:
        return G.EPOCH0 + self.model_now + G.CLOCK_FRACTION

    def __getattr__(self, name: str) -> Any:
        return getattr(_realtime, name)


CLOCK = FakeTime()


def patch_clock() -> None:
    import aiohttp.cookiejar as cj

    if not hasattr(cj, "time") or not hasattr(cj.time, "time"):
        raise MachineryError("aiohttp.cookiejar no longer reads the clock through its `time` module global")
    cj.time = CLOCK  # type: ignore[attr-defined]


# ---------------------------------------------------------------- in-memory origin
class Origin:
    """Scripted origin: answers every request head with 200 + the scripted Set-Cookie."""

    def __init__(self, loop: steploop.StepLoop) -> None:
        from aiohttp.connector import BaseConnector

        self.loop = loop
        self.set_cookie: Optional[str] = None
        self.seen: List[dict] = []
        org = self

        class MemConnector(BaseConnector):
            async def _create_connection(self, req: Any, traces: Any, timeout: Any) -> Any:  # type: ignore[override]
                from aiohttp.client_proto import ResponseHandler
                from engine.memnet import MemTransport

                proto = ResponseHandler(org.loop)
                tr = MemTransport(org.loop, proto, name=str(req.url.host))
                buf = bytearray()

                def on_write(b: bytes) -> None:
                    buf.extend(b)
                    while b"\r\n\r\n" in buf:
                        head, _, rest = bytes(buf).partition(b"\r\n\r\n")
                        del buf[:]
                        buf.extend(rest)
                        org._request(tr, head)

                tr.on_write = on_write
                proto.connection_made(tr)
                return proto

        self.connector = MemConnector(limit=10, enable_cleanup_closed=False)

    def _request(self, tr: Any, head: bytes) -> None:
        lines = head.decode("latin-1").split("\r\n")
        hdrs: Dict[str, List[str]] = {}
        for ln in lines[1:]:
            k, _, v = ln.partition(":")
            hdrs.setdefault(k.strip().lower(), []).append(v.strip())
        self.seen.append({"line": lines[0], "host": hdrs.get("host", [""])[0], "cookie": hdrs.get("cookie", [])})
        resp = "HTTP/1.1 200 OK\r\nContent-Length: 0\r\n"
        if self.set_cookie is not None:
            resp += f"Set-Cookie: {self.set_cookie}\r\n"
        resp += "\r\n"
        self.loop.call_soon(tr.feed, resp.encode("latin-1"))


def parse_cookie_header(values: List[str]) -> Dict[str, List[str]]:
    out: Dict[str, List[str]] = {}
    for v in values:
        for part in v.split(";"):
            part = part.strip()
            if not part:
                continue
            k, _, val = part.partition("=")
            out.setdefault(k.strip(), []).append(val.strip())
    return out


# ---------------------------------------------------------------- one execution
class Exec:
    """One history applied to a real CookieJar (mode 'jar') or to a real ClientSession whose
    jar it is (mode 'session'); records one event per action with the battery answers."""

    def __init__(self, unsafe: bool, mode: str, loop: Optional[steploop.StepLoop], rng: Any,
                 scratch: str, battery: Optional[List[dict]] = None, spelling: bool = False) -> None:
        from aiohttp import CookieJar

        patch_clock()
        CLOCK.model_now = G.T0
        self.CookieJar = CookieJar
        self.unsafe = unsafe
        self.mode = mode
        self.loop = loop
        self.rng = rng
        self.spelling = spelling
        self.scratch = scratch
        self.battery = battery or G.battery()
        from yarl import URL

        self.URL = URL
        self.burls = [URL(G.url_str(q["scheme"], q["host"], q["path"])) for q in self.battery]
        self.jar = CookieJar(unsafe=unsafe)
        self.events: List[dict] = []
        self.nsave = 0
        self.session: Any = None
        self.origin: Optional[Origin] = None
        if mode == "session":
            assert loop is not None
            from aiohttp import ClientSession

            self.origin = Origin(loop)
            self.session = ClientSession(connector=self.origin.connector, cookie_jar=self.jar)

    # ---- observation
    def row(self, cookies: Dict[str, Any]) -> List[int]:
        r = []
        for nm in G.NAMES:
            v = cookies.get(nm)
            if v is None:
                r.append(0)
            else:
                sv = str(v)
                r.append(int(sv) if sv.isdigit() and 0 < int(sv) < 2 ** 30 else -1)
        if any(k not in G.NAMES for k in cookies):
            r[0] = -1
        return r

    def obs(self) -> List[List[int]]:
        jar = self.jar
        return [self.row({k: m.value for k, m in jar.filter_cookies(u).items()}) for u in self.burls]

    # ---- actions
    def _get(self, url: str) -> List[int]:
        """One request through the real ClientSession; returns the row of the Cookie header sent."""
        assert self.loop is not None and self.origin is not None
        org = self.origin
        before = len(org.seen)

        async def go() -> None:
            async with self.session.get(url, allow_redirects=False) as r:
                await r.read()

        self.loop.run_coro(go())
        if len(org.seen) != before + 1:
            raise MachineryError(f"origin saw {len(org.seen) - before} requests for one GET")
        sent = parse_cookie_header(org.seen[-1]["cookie"])
        row = self.row({k: v[0] for k, v in sent.items()})
        if any(len(v) > 1 for v in sent.values()):
            row[0] = -1
        return row

    def do(self, st: dict) -> None:
        e = {k: copy.deepcopy(st.get(k, STIM_DEFAULTS[k]) if k in STIM_DEFAULTS else st[k]) for k in STIM_FIELDS}
        ev = e["ev"]
        if self.mode != "hops":
            e["via"] = self.mode
        if ev == "Receive":
            hdr = G.render_set_cookie(e, self.rng if self.spelling else None)
            url = G.url_str(e["scheme"], e["host"], e["path"])
            if self.mode == "session":
                self.origin.set_cookie = hdr  # type: ignore[union-attr]
                q = G.hop_event(True, e["host"], e["path"], e["scheme"])      # the GET that fetches it
                q["obs"] = [self._get(url)]
                self.origin.set_cookie = None  # type: ignore[union-attr]
                self.events.append(q)
            else:
                self.jar.update_cookies_from_headers([hdr], self.URL(url))
            e["hdr"] = hdr
        elif ev == "Tick":
            CLOCK.model_now += e["n"]
        elif ev == "Clear":
            self.jar.clear()
        elif ev == "ClearDomain":
            self.jar.clear_domain(G.host_str(e["d"]))
        elif ev == "SaveLoad":
            self.nsave += 1
            path = os.path.join(self.scratch, f"jar{self.nsave % 4}.json")
            self.jar.save(path)
            if self.mode != "jar" or self.rng.random() < 0.5:
                self.jar.load(path)
            else:
                self.jar = self.CookieJar(unsafe=self.unsafe)
                self.jar.load(path)
        elif ev == "Query":
            url = G.url_str(e["scheme"], e["host"], e["path"])
            if self.mode == "session":                 # a GET of its own: the first (only) hop of a request
                e["ev"], e["start"] = "Hop", True
                e["obs"] = [self._get(url)]
            else:
                e["obs"] = [self.row({k: m.value for k, m in self.jar.filter_cookies(self.URL(url)).items()})]
            e.setdefault("hdr", "")
            self.events.append(e)
            return
        else:
            raise MachineryError(f"unknown stimulus {ev}")
        e.setdefault("hdr", "")
        e["obs"] = self.obs()
        self.events.append(e)

    def close(self) -> None:
        if self.session is not None:
            assert self.loop is not None
            self.loop.run_coro(self.session.close())
            self.session = None

    def trace(self, src: str) -> dict:
        for e in self.events:
            e.setdefault("hdr", "")
        return {"cfg": {"unsafe": self.unsafe, "names": list(G.NAMES), "battery": self.battery,
                        "mode": self.mode},
                "src": src, "events": self.events}


class HopExec(Exec):
    """Session level: a real ClientSession (engine.clikit.ClientKit: real _request loop, ClientRequest,
    ResponseHandler, parser and CookieJar on in-memory transports) whose peer is scripted by the
    history.  Every request the client writes is one Hop event whose observation is the Cookie header
    on the wire; the peer answers a hop with a 3xx to the next hop's URL or with the final 200, with
    or without Set-Cookie; jar-level stimuli in between act on the session's jar while the request
    waits for its response."""

    def __init__(self, unsafe: bool, loop: steploop.StepLoop, rng: Any, scratch: str,
                 battery: Optional[List[dict]] = None, spelling: bool = False) -> None:
        super().__init__(unsafe, "hops", loop, rng, scratch, battery=battery, spelling=spelling)
        from engine.clikit import ClientKit

        self.kit = ClientKit(loop, session_kw={"cookie_jar": self.jar})
        self.task: Any = None
        self.cur: Any = None            # PeerConn that carried the last hop
        self.cur_url: Optional[dict] = None
        self.seen: Dict[int, int] = {}
        self.hop_ready = False          # the redirect to the next hop has already been answered
        self.nreq = 0

    def _new_requests(self) -> List[Tuple[Any, dict]]:
        new = []
        for c in self.kit.conns:
            rq = c.requests()
            for r in rq[self.seen.get(c.idx, 0):]:
                new.append((c, r))
            self.seen[c.idx] = len(rq)
        return new

    def _respond(self, nxt: Optional[dict], set_cookie: Optional[str]) -> None:
        from engine.clikit import http_response

        headers = []
        status = 200
        if nxt is not None:
            status = self.rng.choice([301, 302, 303, 307, 308])
            same_origin = (self.cur_url is not None and nxt["host"] == self.cur_url["host"]
                           and nxt["scheme"] == self.cur_url["scheme"])
            loc = G.url_str(nxt["scheme"], nxt["host"], nxt["path"])
            if same_origin and self.rng.random() < 0.5:
                loc = G.path_str(nxt["path"])            # relative reference
            headers.append(("Location", loc))
        if set_cookie is not None:
            headers.append(("Set-Cookie", set_cookie))
        if self.cur is None or not self.cur.open:
            raise MachineryError("no open connection to answer the hop on")
        self.cur.feed(http_response(status, headers, b"", reason="X"))
        self.loop.run_until_idle()  # type: ignore[union-attr]

    def finish(self) -> None:
        if self.task is not None and not self.task.done():
            self._respond(None, None)
        if self.task is not None:
            if not self.task.done():
                raise MachineryError("request did not finish after its final response")
            exc = self.task.exception()
            if exc is not None:
                raise MachineryError(f"session request failed: {exc!r}")
        self.task = None
        self.hop_ready = False

    def do_hop(self, st: dict) -> None:
        e = {k: copy.deepcopy(st.get(k, STIM_DEFAULTS[k]) if k in STIM_DEFAULTS else st[k]) for k in STIM_FIELDS}
        e["via"] = "session"
        url = G.url_str(e["scheme"], e["host"], e["path"])
        if e["start"]:
            self.finish()
            cookies = {nm: str(v) for nm, v in zip(G.NAMES, e["rc"]) if v} or None
            session = self.kit.session

            async def go() -> None:
                async with session.get(url, cookies=cookies, max_redirects=40) as r:
                    await r.read()

            self.nreq += 1
            self.task = self.kit.spawn(f"r{self.nreq}", go())
            self.loop.run_until_idle()  # type: ignore[union-attr]
        else:
            if self.task is None or self.task.done():
                raise MachineryError("history continues a request that is not in flight")
            if not self.hop_ready:
                self._respond(e, None)
        new = self._new_requests()
        if len(new) != 1:
            raise MachineryError(f"expected one request on the wire for hop {url}, saw {len(new)}")
        conn, rq = new[0]
        got = f"{'https' if conn.key.is_ssl else 'http'}://{conn.key.host}{rq['target'].partition('?')[0]}"
        if got != url:
            raise MachineryError(f"hop went to {got}, the history says {url}")
        self.cur, self.cur_url = conn, e
        self.hop_ready = False
        sent = parse_cookie_header([v for k, v in rq["headers"] if k.lower() == "cookie"])
        row = self.row({k: v[0] for k, v in sent.items()})
        if any(len(v) > 1 for v in sent.values()):
            row[0] = -1
        e["obs"] = [row]
        e["hdr"] = ""
        self.events.append(e)

    def do_resp_cookie(self, st: dict, nxt: Optional[dict]) -> None:
        """Receive via the session: the response to the hop in flight carries this Set-Cookie; it is the
        redirect to the next hop if the history continues with one, the final response otherwise."""
        e = {k: copy.deepcopy(st.get(k, STIM_DEFAULTS[k]) if k in STIM_DEFAULTS else st[k]) for k in STIM_FIELDS}
        if self.task is None or self.task.done() or self.hop_ready:
            raise MachineryError("history has a response Set-Cookie without a hop waiting for its response")
        e["hdr"] = G.render_set_cookie(e, self.rng if self.spelling else None)
        redirect = nxt is not None and nxt["ev"] == "Hop" and not nxt.get("start")
        self._respond(nxt if redirect else None, e["hdr"])
        self.hop_ready = redirect
        e["obs"] = self.obs()
        self.events.append(e)

    def close(self) -> None:
        try:
            self.finish()
        finally:
            self.kit.close()


def execute(stimuli: List[dict], unsafe: bool, mode: str, loop: Optional[steploop.StepLoop], rng: Any,
            scratch: str, src: str, spelling: bool = False, battery: Optional[List[dict]] = None) -> dict:
    """Run a history.  The k-th Receive carries the fresh value k, unless it re-sends the value of an
    earlier Receive (re = ordinal of that Receive)."""
    if mode == "hops":
        assert loop is not None
        x: Exec = HopExec(unsafe, loop, rng, scratch, battery=battery, spelling=spelling)
    else:
        x = Exec(unsafe, mode, loop, rng, scratch, battery=battery, spelling=spelling)
    vals: List[int] = []
    try:
        for i, st in enumerate(stimuli):
            st = dict(st)
            if st["ev"] == "Receive":
                re_ = st.get("re", 0)
                if re_ and not 1 <= re_ <= len(vals):
                    re_ = st["re"] = 0           # (a shortened history lost the write it referred to)
                vals.append(vals[re_ - 1] if re_ else len(vals) + 1)
                st["val"] = vals[-1]
            if isinstance(x, HopExec) and st["ev"] == "Hop":
                x.do_hop(st)
            elif isinstance(x, HopExec) and st["ev"] == "Receive" and st.get("via") == "session":
                x.do_resp_cookie(st, stimuli[i + 1] if i + 1 < len(stimuli) else None)
            else:
                x.do(st)
    finally:
        x.close()
    return x.trace(src)


# ---------------------------------------------------------------- judging
def _validate_parallel(traces: List[dict], chunk: int = 150, par: int = 8) -> Tuple[list, list]:
    chunks = [traces[i:i + chunk] for i in range(0, len(traces), chunk)]
    if not chunks:
        return [], []

    def one(c: List[dict]) -> Any:
        return validate_batch("CookieStoreTrace", "CookieStoreTrace.cfg", c, timeout=900, heap="3g")

    with ThreadPoolExecutor(max_workers=par) as ex:
        results = list(ex.map(one, chunks))
    verdicts: list = []
    ress = []
    for vs, res in results:
        if res.violated:
            raise MachineryError(f"reference invariant {res.violated} failed during trace validation:\n"
                                 + "\n".join(res.output.splitlines()[-30:]))
        verdicts += vs
        ress.append(res)
    return verdicts, ress


def _dev_subsets() -> List[Tuple[str, ...]]:
    """Same order as CookieStoreTrace!DevSubsets (frequent explanations first, small sets first)."""
    import itertools

    order = [2, 4, 5, 0, 3, 1]
    out = []
    for k in range(1, 7):
        for c in itertools.combinations(order, k):
            out.append(tuple(DEVS[i] for i in sorted(c)))
    # deviations repaired in /repo are no longer admissible explanations (CookieStoreTrace!StillPresent)
    return [t for t in out if all(d in STILL_PRESENT for d in t)]


STILL_PRESENT = {"pathAlias"}


def _unused() -> list:
    return []


DEV_SUBSETS = _dev_subsets()


def describe(t: dict, pos: int, at: int) -> Tuple[str, dict]:
    """Human-readable account of the failing event (for the replay payload)."""
    e = t["events"][pos] if pos < len(t["events"]) else None
    info: dict = {"failed_at": pos}
    if e is None:
        return "", info
    info["event"] = {k: e[k] for k in ("ev", "hdr", "n", "d") if k in e}
    if e["ev"] in ("Receive", "Query", "Hop"):
        info["event"]["url"] = G.url_str(e["scheme"], e["host"], e["path"])
    if e["ev"] in ("Query", "Hop"):
        q = {"host": e["host"], "path": e["path"], "scheme": e["scheme"]}
        row = e["obs"][0]
    elif at and 1 <= at <= len(t["cfg"]["battery"]):
        q = t["cfg"]["battery"][at - 1]
        row = e["obs"][at - 1]
    else:
        return e["ev"], info
    info["query"] = G.url_str(q["scheme"], q["host"], q["path"])
    info["code_returned"] = dict(zip(t["cfg"]["names"], row))
    return e["ev"], info


def history_text(t: dict, upto: int) -> List[str]:
    out = []
    for e in t["events"][: upto + 1]:
        if e["ev"] == "Receive":
            out.append(("response sets" if e.get("via") == "session" and "start" in e else "Receive")
                       + f" {G.url_str(e['scheme'], e['host'], e['path'])}  Set-Cookie: {e['hdr']}")
        elif e["ev"] == "Tick":
            out.append(f"Tick +{e['n']}s")
        elif e["ev"] == "ClearDomain":
            out.append(f"clear_domain({G.host_str(e['d'])})")
        elif e["ev"] == "Query":
            out.append(f"Query {G.url_str(e['scheme'], e['host'], e['path'])} via {e.get('via')}")
        elif e["ev"] == "Hop":
            rc = {nm: v for nm, v in zip(G.NAMES, e.get("rc", [])) if v}
            out.append(("GET " if e.get("start") else "  redirected to ") + G.url_str(e['scheme'], e['host'], e['path'])
                       + (f" cookies={rc}" if rc else "") + f"  [Cookie header: {dict(zip(G.NAMES, e['obs'][0]))}]")
        else:
            out.append(e["ev"])
    return out


def stimuli_of(t: dict) -> List[dict]:
    """The stimuli of a recorded trace (mode 'session' recorded the fetching GET as a Hop before every
    Receive, and its stand-alone queries as Hops)."""
    out = []
    ev = t["events"]
    legacy = t["cfg"].get("mode") == "session"
    for i, e in enumerate(ev):
        if (legacy and e["ev"] in ("Query", "Hop") and i + 1 < len(ev)
                and ev[i + 1]["ev"] == "Receive" and ev[i + 1].get("via") == "session"
                and ev[i + 1]["host"] == e["host"] and ev[i + 1]["path"] == e["path"]):
            continue
        st = {k: (e.get(k, STIM_DEFAULTS[k]) if k in STIM_DEFAULTS else e[k]) for k in STIM_FIELDS}
        if legacy and st["ev"] == "Hop":
            st["ev"] = "Query"
        out.append(st)
    return out


class Judge:
    """Turns TLC's verdicts into violations.  Per signature the shortest failing prefix seen is kept
    as the reproduction (every prefix is itself a recorded execution TLC rejected)."""

    def __init__(self, ctx: Ctx) -> None:
        self.ctx = ctx
        self.best: Dict[Tuple[str, str], dict] = {}
        self.count: Dict[Tuple[str, str], int] = {}

    def _add(self, clause: str, sig: str, t: dict, pos: int, at: int, label: str, note: str = "") -> None:
        key = (clause, sig)
        self.count[key] = self.count.get(key, 0) + 1
        cur = self.best.get(key)
        if cur is not None and len(cur["trace"]["events"]) <= pos + 1:
            return
        small = {"cfg": t["cfg"], "src": t["src"], "events": t["events"][: pos + 1]}
        detail = {"trace": small, "history": history_text(small, pos), "label": label}
        if note:
            detail["note"] = note
        detail.update(describe(small, pos, at)[1])
        self.best[key] = detail

    def judge(self, traces: List[dict], label: str) -> None:
        ctx = self.ctx
        if not traces:
            return
        verdicts, ress = _validate_parallel(traces)
        for r in ress:
            ctx.add_trace_batch(0, r)
        ctx.traces += len(traces)
        for t in traces:
            for e in t["events"]:
                ctx.action_cover[e["ev"]] = ctx.action_cover.get(e["ev"], 0) + 1
            if len(t["events"]) >= 3:
                ctx.distinct.add(hash(json.dumps([[e[k] for k in STIM_FIELDS] for e in t["events"]], sort_keys=True)))
        for t, v in zip(traces, verdicts):
            if v.ok:
                continue
            if v.clause in ("IllegalStimulus", "BatteryShape"):
                raise MachineryError(f"harness produced an illegal trace: {v.clause} at {v.pos}")
            at, expl, pos2, bad2, at2 = v.info
            evk = t["events"][v.pos]["ev"]
            if expl == 0:
                clause, why = v.clause, "unexplained by the named deviations"
            else:
                sub = DEV_SUBSETS[expl - 1]
                clause = (v.clause + "_" + "+".join(DEV_NAME[d][4:] for d in sub)) if v.clause == "UnderSend" else v.clause
                why = "explained by " + "+".join(DEV_NAME[d] for d in sub)
            self._add(clause, f"{clause} after {evk} [{why}]", t, v.pos, at, label)
            if bad2 == "NotJudged":
                ctx.notes.append("an execution with an explained failure could not be judged to its end "
                                 "(the all-deviations machine rejected the prefix)")
            elif bad2:
                evk2 = t["events"][pos2]["ev"]
                self._add(bad2, f"{bad2} after {evk2} [later failure, unexplained even with all named deviations]",
                          t, pos2, at2, label, "judged with all named deviations enabled after an explained failure")
        t = traces[0]
        ctx.sample({"src": t["src"], "unsafe": t["cfg"]["unsafe"], "mode": t["cfg"].get("mode"),
                    "history": history_text(t, min(len(t["events"]), 8) - 1),
                    "last_battery_nonempty": [[G.url_str(q["scheme"], q["host"], q["path"]), r]
                                              for q, r in zip(t["cfg"]["battery"], t["events"][-1]["obs"])
                                              if any(r)][:6] if t["events"] and t["events"][-1]["ev"] != "Query" else []})

    def finish(self) -> None:
        for (clause, sig), detail in sorted(self.best.items()):
            detail["occurrences"] = self.count[(clause, sig)]
            self.ctx.log(f"{sig} x{self.count[(clause, sig)]}: shortest history {detail['history']} -> "
                         f"{detail.get('query')} returned {detail.get('code_returned')}")
            self.ctx.violation(clause, sig, detail, "trace")


# ---------------------------------------------------------------- model configs
MODEL_CFG = """SPECIFICATION {spec}
CONSTANTS
  Hosts <- {hosts}
  Paths <- {paths}
  Names = {names}
  DomKinds <- {kinds}
  MaxAges <- {maxages}
  Expiries <- {expiries}
  Sessions = {sessions}
  Schemes = {{"http", "https"}}
  MaxSteps = {steps}
  MaxTime = 13
  Cf <- {cf}
INVARIANT InvNoCrossSiteRead
INVARIANT InvNoExpired
INVARIANT InvSecureOnlyOnSecure
INVARIANT InvPathScoped
INVARIANT InvNoIP
INVARIANT InvSaveLoadIsIdentity
{selfjudge}PROPERTY NoCrossSiteWrite
{view}CHECK_DEADLOCK FALSE
"""


def write_cfg(name: str, *, spec: str = "Spec", hosts: str = "HostsSmall", paths: str = "PathsSmall",
              names: str = '{"n"}', kinds: str = "KindsSmall", expiries: str = "ExpiriesSmall", steps: int = 3,
              cf: str = "CfProperty", view: bool = True, selfjudge: bool = True, maxages: str = "MaxAgesFull",
              sessions: bool = False) -> str:
    d = mktemp("c16cfg")
    p = os.path.join(d, f"CookieStoreMC_{name}.cfg")
    with open(p, "w") as f:
        f.write(MODEL_CFG.format(spec=spec, hosts=hosts, paths=paths, names=names, kinds=kinds, expiries=expiries,
                                 steps=steps, cf=cf, view="VIEW View\n" if view else "",
                                 maxages=maxages, sessions="TRUE" if sessions else "FALSE",
                                 selfjudge="INVARIANT InvJudgeSelf\n" if selfjudge else ""))
    return p


def behaviours_to_histories(behs: List[List[Any]]) -> List[List[dict]]:
    out = []
    for beh in behs:
        st = []
        nrecv = 0
        for _label, state in beh[1:]:
            last = state["last"]
            if last["ev"] == "init":
                continue
            e = G.blank_event(last["ev"])
            for k in STIM_FIELDS:
                if k != "re":
                    e[k] = _plain(last[k])
            if e["ev"] == "Receive":
                nrecv += 1
                # value v was introduced by write v: a smaller value than the write's number is a re-send
                e["re"] = e["val"] if e["val"] < nrecv else 0
            st.append(e)
        if st:
            out.append(st)
    return out


def _plain(v: Any) -> Any:
    if isinstance(v, dict):
        return {k: _plain(x) for k, x in v.items()}
    if isinstance(v, (list, tuple)):
        return [_plain(x) for x in v]
    return v


# ---------------------------------------------------------------- check
def run(ctx: Ctx) -> None:
    ctx.rule = ("executions = TLC-simulated behaviours of CookieStoreMC (full lattice) replayed into a real CookieJar / "
                "ClientSession + seeded random histories; after every action all 60 filter_cookies() answers "
                "(6 hosts x 5 paths x 2 schemes; http/https, for a tenth of the random histories ws/wss) are judged by TLC against the RFC 6265 reference; distinct = "
                "different stimulus sequences of >= 3 events; a third of the random histories are session-level: requests "
                "of a real ClientSession with redirects, response cookies, cookies= and jar changes between hops, the "
                "Cookie header of every hop on the wire judged for that hop's URL")
    ctx.assumptions = [
        "session level: origin = (scheme, host) (default ports only); per-request cookies= override the jar per name and "
        "are dropped for good when a redirect leaves the origin; one Set-Cookie per response; GET requests; the "
        "peer's responses arrive when the history says so (jar changes happen while a hop waits)",
        "reference constants = documented aiohttp behaviour: unsafe=False drops cookies from/to IP hosts; no "
        "public-suffix list; a Domain attribute with a trailing dot is ignored (cookie becomes host-only); the shared "
        "('','') bucket (update_cookies without URL) is outside the histories",
        "a cookie is expired when expiry <= now (clock patched inside aiohttp.cookiejar, driven by Tick)",
        "where several cookies of one name are sendable (different domain/path) the jar returns one of them; any of "
        "them is accepted, ordering (s5.4 step 2) is not judged",
        "Set-Cookie syntax: well-formed headers with spelling variants (attribute order/case, separators, three "
        "date formats, ignorable attributes); one header per response; values are fresh integers, except that about a "
        "tenth of the Set-Cookies re-send an earlier cookie with the SAME value and other attributes (Secure, lifetime, "
        "equivalent Domain/Path spelling, host-only <-> Domain=host): the attributes of the latest write must win",
    ]
    loop = steploop.new_loop()
    scratch = mktemp("c16jar")
    J = Judge(ctx)
    # ---- 1. bounded model of the reference: exhaustive on a restricted lattice
    if ctx.quick:
        models = [("small3", dict(steps=3, kinds="KindsTiny", expiries="ExpiriesNone"))]
    else:
        models = [("small3", dict(steps=3)),
                  ("small4", dict(steps=4, kinds="KindsTiny", expiries="ExpiriesNone")),
                  ("mid3", dict(steps=3, hosts="HostsMid3", paths="PathsMid", kinds="KindsMid", expiries="ExpiriesNone"))]
    if os.environ.get("VERIF_C16_TRACES_ONLY"):     # sensitivity experiments: the spec did not change
        models = []
        ctx.notes.append("VERIF_C16_TRACES_ONLY set: bounded model runs skipped")
    for name, kw in models:
        cfg = write_cfg(name, **kw)
        res = run_tlc("CookieStoreMC", cfg, workers=16, timeout=ctx.pick(400, 2400), deadlock=False)
        ok = ctx.expect_model_ok(f"CookieStoreMC({name})", res)
        ctx.log(f"model {name}: {res.distinct} distinct / {res.generated} generated states, ok={ok}, {res.wall_s:.0f}s")
    # the deviation the code implements, as a design: TLC finds the host-only leak in it
    if not ctx.quick and not os.environ.get("VERIF_C16_TRACES_ONLY"):
        cfg = write_cfg("devHostOnlyKey", steps=3, cf="CfDevHostOnlyKey")
        res = run_tlc("CookieStoreMC", cfg, workers=16, timeout=300, deadlock=False)
        cex = []
        for _a, st in res.trace:
            e = st.get("last", {})
            if e.get("ev") == "Receive":
                cex.append(f"Receive {G.url_str(e['scheme'], _plain(e['host']), _plain(e['path']))} "
                           f"Set-Cookie: {G.render_set_cookie(_plain(e))}")
            elif e.get("ev") not in (None, "init"):
                cex.append(e["ev"])
        ctx.extra["dev_model_HostOnlyKey"] = {"violated": res.violated, "counterexample": cex}
        ctx.log(f"model with Dev_HostOnlyKey (the code's side table): TLC reports {res.violated} after {cex}")
    # ---- 2. spec -> code: simulated behaviours on the full lattice
    traces: List[dict] = []
    for cfname, cf, unsafe in (("simsafe", "CfProperty", False), ("simunsafe", "CfUnsafe", True)):
        cfg = write_cfg(cfname, spec="SpecSim", hosts="HostsFull", paths="PathsFull", names='{"n", "m"}',
                        kinds="KindsFull", expiries="ExpiriesSim", maxages="MaxAgesSim", steps=ctx.pick(9, 11), cf=cf,
                        view=False, selfjudge=False, sessions=True)
        num = ctx.pick(100, 1000) if not unsafe else ctx.pick(30, 300)
        behs, res = simulate_behaviours("CookieStoreMC", cfg, num=num, depth=ctx.pick(9, 11), seed=ctx.seed, timeout=600)
        m = re.search(r"number of states generated: (\d+)", res.output)
        if m:                                   # -simulate reports its state count in another format
            res.generated = res.distinct = int(m.group(1))
        ctx.add_model(f"CookieStoreMC(simulate full lattice, unsafe={unsafe})", res, exhaustive=False)
        hs = behaviours_to_histories(behs)
        for k, h in enumerate(hs):
            if any(e["ev"] == "Hop" for e in h):
                mode = "hops"               # requests of a real ClientSession, hop by hop
            else:
                mode = "session" if k % 6 == 0 else "jar"
            traces.append(execute(h, unsafe, mode, loop, ctx.rng, scratch, "tlc-sim"))
        ctx.log(f"replayed {len(hs)} simulated behaviours (unsafe={unsafe})")
    J.judge(traces, "tlc-sim")
    # ---- 3. code -> spec: seeded random histories (spelling variants of the header grammar)
    n = ctx.pick(750, 6000)
    batch: List[dict] = []
    for k in range(n):
        if k % 3 == 2:      # session level: requests with redirects, response cookies, cookies=, jar changes between hops
            h = G.random_session_history(ctx.rng)
            batch.append(execute(h["stimuli"], h["unsafe"], "hops", loop, ctx.rng, scratch, "random-session",
                                 spelling=True))
            continue
        h = G.random_history(ctx.rng, queries=(k % 5 == 0))
        mode = "session" if k % 5 == 0 else "jar"
        bat = G.battery(schemes=["ws", "wss"]) if k % 10 == 3 else None     # Secure applies to wss, not to ws
        batch.append(execute(h["stimuli"], h["unsafe"], mode, loop, ctx.rng, scratch, "random", spelling=True,
                             battery=bat))
        if len(batch) >= 2400:
            J.judge(batch, "random")
            batch = []
    J.judge(batch, "random")
    J.finish()
    ctx.extra["failures_by_signature"] = {sig: n for (_c, sig), n in sorted(J.count.items())}
    ctx.evaluations = sum(ctx.action_cover.values()) * len(G.battery())
    ctx.extra["filter_cookies_answers_judged"] = ctx.evaluations
    loop.uninstall()


def selftest(ctx: Ctx) -> int:
    """(i) corrupted / dropped events of a good recorded trace are rejected by the trace spec;
    (ii) mutants of the reference are caught by TLC in the bounded model."""
    loop = steploop.new_loop()
    scratch = mktemp("c16jar")
    R = G.receive_event
    hist = [R(G.EXAMPLE, G.ROOT, "https", "n", 1, G.resolve_dom(G.EXAMPLE, "absent"), None, True, -1, 0),
            R(G.A_EX, G.PATHS[3], "http", "m", 2, G.resolve_dom(G.A_EX, "parent"), G.PATHS[1], False, 2, 0),
            dict(G.blank_event("SaveLoad")),
            dict(G.blank_event("Tick"), n=2)]
    good = execute(hist, False, "jar", loop, ctx.rng, scratch, "selftest")
    bat = good["cfg"]["battery"]

    def idx(h: List[str], p: dict, s: str) -> int:
        return next(i for i, q in enumerate(bat) if q["host"] == h and q["path"] == p and q["scheme"] == s)

    bad = []
    b = copy.deepcopy(good)      # host-only cookie shown to a sub-domain
    b["events"][0]["obs"][idx(G.A_EX, G.ROOT, "https")][0] = 1
    bad.append(("HostOnlyLeak", b))
    b = copy.deepcopy(good)      # secure cookie over http
    b["events"][0]["obs"][idx(G.EXAMPLE, G.ROOT, "http")][0] = 1
    bad.append(("SecureLeak", b))
    b = copy.deepcopy(good)      # /p cookie on /pq
    b["events"][1]["obs"][idx(G.B_EX, G.PATHS[4], "http")][1] = 2
    bad.append(("PathLeak", b))
    b = copy.deepcopy(good)      # domain cookie of example.com shown to xexample.com
    b["events"][1]["obs"][idx(G.X_EX, G.PATHS[1], "http")][1] = 2
    bad.append(("DomainLeak", b))
    b = copy.deepcopy(good)      # expired cookie still sent after the tick
    b["events"][3]["obs"][idx(G.B_EX, G.PATHS[1], "http")][1] = 2
    bad.append(("ExpiredSent", b))
    b = copy.deepcopy(good)      # cookie withheld
    b["events"][2]["obs"][idx(G.EXAMPLE, G.ROOT, "https")][0] = 0
    bad.append(("UnderSend", b))
    b = copy.deepcopy(good)      # dropped event (the second Set-Cookie): values no longer line up
    del b["events"][1]
    bad.append(("*", b))
    # the same value re-sent with Secure added: the attributes of the latest write win
    h2 = [R(G.EXAMPLE, G.ROOT, "https", "n", 1, G.resolve_dom(G.EXAMPLE, "absent"), None, False, -1, 0),
          dict(R(G.EXAMPLE, G.ROOT, "https", "n", 1, G.resolve_dom(G.EXAMPLE, "same"), G.ROOT, True, -1, 0), re=1)]
    good2 = execute(h2, False, "jar", loop, ctx.rng, scratch, "selftest")
    b = copy.deepcopy(good2)     # ... as if the stored cookie had kept its old attributes
    b["events"][1]["obs"] = copy.deepcopy(good2["events"][0]["obs"])
    bad.append(("SecureLeak", b))
    # session level: /p cookie, request to /p/q with cookies={m}, same-origin redirect to /pq, then to another host
    h3 = [R(G.EXAMPLE, G.ROOT, "http", "n", 1, G.resolve_dom(G.EXAMPLE, "absent"), G.PATHS[1], False, -1, 0),
          G.hop_event(True, G.EXAMPLE, G.PATHS[3], "http", [0, 1002]),
          G.hop_event(False, G.EXAMPLE, G.PATHS[4], "http"),
          G.hop_event(False, G.A_EX, G.PATHS[3], "http")]
    good3 = execute(h3, False, "hops", loop, ctx.rng, scratch, "selftest")
    rows3 = [e["obs"][0] for e in good3["events"][1:]]
    print("session trace Cookie headers per hop:", rows3)
    b = copy.deepcopy(good3)     # the cookies chosen for the first hop sent to the redirect target (other path)
    b["events"][2]["obs"] = copy.deepcopy(good3["events"][1]["obs"])
    bad.append(("PathLeak", b))
    b = copy.deepcopy(good3)     # per-request cookie still sent after the redirect left the origin
    b["events"][3]["obs"] = [[0, 1002]]
    bad.append(("ReqCookieLeak", b))
    b = copy.deepcopy(good3)     # per-request cookie dropped on a same-origin redirect
    b["events"][2]["obs"] = [[0, 0]]
    bad.append(("ReqCookieLost", b))
    vs3, _ = _validate_parallel([good3])
    vs2, _ = _validate_parallel([good2])
    print("re-sent value trace accepted:", vs2[0].ok, vs2[0].clause, [e["val"] for e in good2["events"]])
    vs, _ = _validate_parallel([good] + [x for _, x in bad])
    ok = (vs[0].ok and vs2[0].ok and [e["val"] for e in good2["events"]] == [1, 1]
          and vs3[0].ok and rows3 == [[1, 1002], [0, 1002], [0, 0]])
    print("good trace accepted:", vs[0].ok, vs[0].clause)
    for (want, _), v in zip(bad, vs[1:]):
        hit = (not v.ok) and (want == "*" or v.clause == want) and v.info[1] == 0   # and no named deviation explains it
        print(f"corrupted trace expected {want}: rejected={not v.ok} clause={v.clause!r} pos={v.pos}")
        ok = ok and hit
    for cf, inv in (("CfNoHostOnly", "InvNoCrossSiteRead"), ("CfSaveDropsHostOnly", "InvSaveLoadIsIdentity"),
                    ("CfDevHostOnlyKey", "InvNoCrossSiteRead")):
        res = run_tlc("CookieStoreMC", write_cfg("mut" + cf, steps=3, cf=cf), workers=16, timeout=300, deadlock=False)
        print(f"mutant {cf}: TLC reports {res.violated} (expected {inv})")
        ok = ok and res.violated == inv
    loop.uninstall()
    print("selftest", "passed" if ok else "FAILED")
    return 0 if ok else 2


def replay(ctx: Ctx, path: str) -> int:
    payload = json.load(open(path))
    t = payload["detail"]["trace"]
    loop = steploop.new_loop()
    scratch = mktemp("c16jar")
    tr = execute(stimuli_of(t), t["cfg"]["unsafe"], t["cfg"].get("mode", "jar"), loop, ctx.rng, scratch, "replay",
                 battery=t["cfg"]["battery"])
    vs, _ = _validate_parallel([tr])
    v = vs[0]
    for ln in history_text(tr, len(tr["events"]) - 1):
        print("  ", ln)
    loop.uninstall()
    if v.ok:
        print(f"replay: accepted ({v.pos}/{v.total} events)")
        return 0
    at, expl, pos2, bad2, at2 = v.info
    _, info = describe(tr, v.pos, at)
    print(f"replay: clause={v.clause!r} at event {v.pos}/{v.total} {info}")
    print("explained by:", "+".join(DEV_NAME[d] for d in DEV_SUBSETS[expl - 1]) if expl else "no named deviation")
    if bad2 and bad2 != "NotJudged":
        print(f"later failure with all named deviations enabled: {bad2} at event {pos2}")
    print(f"VIOLATION property=C16 replay={path}")
    return 1
