"""C11 - WebSocket codec round trip.

spec/WsSend.tla       model of concurrent senders through WebSocketWriter (lock, shielded inner
                      task, executor hop, shared deflate context, cancellation, override)
spec/WsSendMC.tla     bounded instances (2-3 senders) checked exhaustively by TLC
spec/WsSendTrace.tla  judges executions: real WebSocketWriter -> bytes -> real WebSocketReader;
                      the wire bytes are parsed by the WsFrames reference reader

Binding: sender tasks run on the stepping loop against a real WebSocketWriter whose transport
is an engine.memnet.MemTransport piped into a protocol that feeds a real WebSocketReader;
run_in_executor runs inline on a later loop step, so a cancellation can be injected while a
message is "being compressed".  Schedules = TLC behaviours of WsSendMC (Spawn / Cancel / Step)
replayed + seeded random ones.  The recorded wire is re-fed to fresh readers in several
segmentations.  TLC decides every execution.
"""
from __future__ import annotations

import asyncio
import copy
import hashlib
import json
import os
import random as _random
import struct
from typing import Any, Dict, List, Optional, Tuple

from engine import steploop
from engine.gen import wsframes as G
from engine.memnet import MemTransport, pipe
from engine.runner import Ctx
from engine.tlc import MachineryError, mktemp, run_tlc, simulate_behaviours, validate_batch

SMALL_MAX = 256
WIRE_FULL_MAX = 400000
SYNC_CHUNK = 16 * 1024


def key_of(payload: bytes) -> dict:
    return {"len": len(payload), "small": list(payload) if len(payload) <= SMALL_MAX else [],
            "dig": hashlib.sha1(payload).hexdigest()[:16] if len(payload) > SMALL_MAX else ""}


# ------------------------------------------------------------------ payloads
def make_payload(rng: Any, size: int, op: int, tag: int, shape: str, block: bytes = b"") -> bytes:
    """Payload of exactly `size` bytes; unique per message through a tag (size >= 2).
    shape "echo": rotations of a block shared by all messages of the execution, so the deflate
    output of a message refers back into EARLIER messages (the shared context matters)."""
    head = bytes([0x30 + (tag // 16) % 16, 0x41 + tag % 16]) if op == G.OP_TEXT else bytes([tag & 0xFF, (tag * 7 + 1) & 0xFF])
    if size <= 1:
        return head[:size] if op != G.OP_TEXT else b"q"[:size]
    body_len = size - 2
    if shape == "echo" and block:
        blk = block if op != G.OP_TEXT else bytes(0x20 + (b % 95) for b in block)
        off = (tag * 131) % len(blk)
        rot = blk[off:] + blk[:off]
        body = (rot * (body_len // len(rot) + 1))[:body_len]
    elif shape == "random" and op != G.OP_TEXT:
        body = bytes(rng.getrandbits(8) for _ in range(min(body_len, 4096)))
        body = (body * (body_len // max(1, len(body)) + 1))[:body_len] if body else b""
        if body_len > 4096:      # keep it incompressible enough: xor a counter in
            ba = bytearray(body)
            for i in range(0, body_len, 97):
                ba[i] = (ba[i] + i // 97) & 0xFF
            body = bytes(ba)
    elif shape == "repeat":
        unit = b"hello websocket " if op == G.OP_TEXT else b"\x00\x01hello\xff\xfe"
        body = (unit * (body_len // len(unit) + 1))[:body_len]
        if op == G.OP_TEXT:
            body = body
    elif shape == "utf8" or op == G.OP_TEXT:
        chars = ["é", "€", "\U0001f600", "a", "\u0080", "￿", "z"]
        out = bytearray()
        k = 0
        while len(out) < body_len:
            c = chars[(k + tag) % len(chars)].encode()
            if len(out) + len(c) > body_len:
                c = b"x"
            out += c
            k += 1
        body = bytes(out)
    else:
        body = bytes((i * 31 + tag) & 0xFF for i in range(body_len))
    return head + body


BOUNDARY_SIZES = [0, 1, 125, 126, 127, 65535, 65536, 65537, SYNC_CHUNK - 1, SYNC_CHUNK, SYNC_CHUNK + 1]


# ------------------------------------------------------------------ one execution
class ReaderSide:
    """Protocol whose data_received feeds a real WebSocketReader (the receiving peer).
    consume=False: the application does not read while data arrives (slow consumer); result()
    then drains the queue.  limit = the queue's flow-control limit (reading is paused above 2x)."""

    def __init__(self, loop: steploop.StepLoop, compress: bool, limit: int = 2 ** 22, consume: bool = True) -> None:
        from aiohttp._websocket.reader_py import WebSocketDataQueue, WebSocketReader

        self.loop = loop
        self._reading_paused = False
        self.transport: Any = None
        self.queue = WebSocketDataQueue(self, limit, loop=loop)  # type: ignore[arg-type]
        self.reader = WebSocketReader(self.queue, 0, compress=compress, decode_text=True)
        self.got: List[Any] = []
        self.exc: Optional[BaseException] = None
        self.consume = consume
        self.consumer = loop.create_task(self._consume()) if consume else None

    # what BaseProtocol offers to the queue
    def pause_reading(self) -> None:
        self._reading_paused = True

    def resume_reading(self) -> None:
        self._reading_paused = False

    # asyncio.Protocol
    def connection_made(self, tr: Any) -> None:
        self.transport = tr

    def data_received(self, data: bytes) -> None:
        self.reader.feed_data(data)

    def eof_received(self) -> bool:
        return True

    def connection_lost(self, exc: Any) -> None:
        pass

    async def _consume(self) -> None:
        while True:
            try:
                msg = await self.queue.read()
            except asyncio.CancelledError:
                raise
            except BaseException as exc:  # noqa: BLE001
                self.exc = exc
                return
            self.got.append(msg)

    def result(self) -> Tuple[List[dict], int]:
        if self.consumer is None:                 # the slow consumer gets to read only now
            self.consumer = self.loop.create_task(self._consume())
        self.loop.run_until_idle()
        recv = []
        for m in self.got:
            t = int(m.type)
            if t == 8:
                code = int(m.data)
                reason = (m.extra or "").encode("utf-8", "surrogateescape")
                payload = b"" if (code == 0 and not reason) else struct.pack("!H", code) + reason
            elif isinstance(m.data, str):
                try:
                    payload = m.data.encode("utf-8")
                except UnicodeEncodeError:
                    payload = b"\xff<unencodable>"
            else:
                payload = bytes(m.data)
            recv.append({"t": t, "key": key_of(payload)})
        e = self.exc if self.exc is not None else self.queue.exception()
        rerr = 0
        if e is not None and type(e).__name__ != "EofStream":
            code = getattr(e, "code", None)
            rerr = int(code) if (type(e).__name__ == "WebSocketError" and isinstance(code, int)) else 1
        if not self.consumer.done():
            self.consumer.cancel()
            self.loop.run_until_idle()
        return recv, rerr


class SendExec:
    def __init__(self, loop: steploop.StepLoop, cfg: dict, seed: int) -> None:
        from aiohttp._websocket.writer import WebSocketWriter
        from aiohttp.base_protocol import BaseProtocol

        self.loop = loop
        self.cfg = cfg
        self.wproto = BaseProtocol(loop)
        self.rside = ReaderSide(loop, compress=cfg["compress"] > 0)
        self.wtr, self.rtr = pipe(loop, self.wproto, self.rside)
        self.writer = WebSocketWriter(self.wproto, self.wtr, use_mask=cfg["mask"], compress=cfg["compress"],
                                      notakeover=cfg["notakeover"], random=_random.Random(seed),
                                      limit=cfg.get("limit", 2 ** 16))
        self.sent: List[dict] = []
        self.payloads: List[bytes] = []
        self.objs: List[Any] = []
        self.backing: List[Tuple[bytearray, int]] = []
        self.events: List[dict] = []
        self.tasks: Dict[str, asyncio.Task] = {}
        self.progs: Dict[str, List[int]] = {}

    def add_message(self, sender: str, op: int, payload: bytes, ovr: int, kind: str = "bytes", same_as: int = -1) -> int:
        """kind = container handed to send_frame: bytes | bytearray | memoryview (of a bytearray) | mvro
        (memoryview of bytes) | mvslice (memoryview slice of a larger bytearray); same_as >= 0: the SAME
        object as message same_as is sent again (its intended content is that message's)."""
        if same_as >= 0:
            payload = self.payloads[same_as]
            obj = self.objs[same_as]
        elif kind == "bytearray":
            obj = bytearray(payload)
        elif kind == "memoryview":
            obj = memoryview(bytearray(payload))
        elif kind == "mvro":
            obj = memoryview(payload)
        elif kind == "mvslice":
            big = bytearray(b"\xa5" * 7 + payload + b"\x5a" * 9)
            obj = memoryview(big)[7:7 + len(payload)]
            self.backing.append((big, len(payload)))
        else:
            obj = payload
        self.objs.append(obj)
        return self._add(sender, op, payload, ovr)

    def _add(self, sender: str, op: int, payload: bytes, ovr: int) -> int:
        seq = len(self.progs.setdefault(sender, [])) + 1
        self.sent.append({"sender": sender, "seq": seq, "op": op, "key": key_of(payload), "ovr": int(ovr)})
        self.payloads.append(payload)
        self.progs[sender].append(len(self.sent) - 1)
        return len(self.sent)

    async def _sender(self, name: str) -> None:
        for i in self.progs.get(name, []):
            m = self.sent[i]
            payload = self.payloads[i]
            obj = self.objs[i]
            # the caller's buffer must hold what the caller put there: before the call and after it
            self.events.append({"ev": "call", "id": i + 1, "how": "", "mut": self._mutated(i)})
            try:
                if m["op"] == G.OP_CLOSE:
                    code = struct.unpack("!H", payload[:2])[0]
                    await self.writer.close(code, payload[2:])
                else:
                    await self.writer.send_frame(obj, m["op"], compress=(m["ovr"] or None))
            except asyncio.CancelledError:
                self.events.append({"ev": "end", "id": i + 1, "how": "cancelled", "mut": self._mutated(i)})
                raise
            except Exception:  # noqa: BLE001
                self.events.append({"ev": "end", "id": i + 1, "how": "raised", "mut": self._mutated(i)})
            else:
                self.events.append({"ev": "end", "id": i + 1, "how": "returned", "mut": self._mutated(i)})
            await asyncio.sleep(0)

    def _mutated(self, i: int) -> bool:
        if bytes(self.objs[i]) != self.payloads[i]:
            return True
        return any(bytes(big[:7]) != b"\xa5" * 7 or bytes(big[7 + n:]) != b"\x5a" * 9 for big, n in self.backing)

    # ---- schedule actions
    def spawn(self, name: str) -> None:
        if name not in self.tasks:
            self.tasks[name] = self.loop.create_task(self._sender(name))

    def cancel(self, name: str) -> None:
        t = self.tasks.get(name)
        if t is not None and not t.done():
            t.cancel()

    def step(self) -> bool:
        return self.loop.step_one()

    def finish(self) -> List[str]:
        for name in self.progs:
            self.spawn(name)
        self.wtr.resume_protocol_writing()
        self.loop.run_until_idle()
        stuck = sorted(n for n, t in self.tasks.items() if not t.done())
        for t in self.tasks.values():
            if not t.done():
                t.cancel()
        self.loop.run_until_idle()
        for t in self.tasks.values():
            if t.done() and not t.cancelled():
                t.exception()
        return stuck

    def trace(self, ctx: Ctx, rng: Any, src: str, extra_runs: bool = True) -> dict:
        stuck = self.finish()
        wire = bytes(self.wtr.written)
        writes = [bytes(w) for w in self.wtr.writes]
        runs = []
        recv, rerr = self.rside.result()
        runs.append({"seg": "live", "recv": recv, "rerr": rerr})
        if extra_runs and wire:
            segs: List[Tuple[str, List[int]]] = [("whole", [len(wire)])]
            offs = G.frame_header_offsets(wire, limit=60)
            for c in rng.sample(offs, min(len(offs), ctx.pick(3, 10))):
                segs.append((f"cut{c}", [c, len(wire) - c]))
            if len(wire) <= ctx.pick(600, 3000):
                segs.append(("bytewise", [1] * len(wire)))
            pts = sorted(set(rng.randrange(1, len(wire)) for _ in range(rng.randint(1, 6)))) if len(wire) > 1 else []
            prev, ch = 0, []
            for p_ in pts + [len(wire)]:
                ch.append(p_ - prev)
                prev = p_
            segs.append(("random", ch))
            for sname, chunks in segs:
                rs = ReaderSide(self.loop, compress=self.cfg["compress"] > 0)
                pos = 0
                for n in chunks:
                    rs.data_received(wire[pos:pos + n])
                    pos += n
                recv, rerr = rs.result()
                runs.append({"seg": sname, "recv": recv, "rerr": rerr})
        if extra_runs and wire:
            # a consumer slower than the sender: the whole burst is in the queue before anything is read;
            # once with the default flow-control limit (64 KiB), once with a tiny one so that every
            # execution is above the high-water mark
            for sname, lim in (("slow-consumer", 2 ** 16), ("slow-consumer-low-mark", 16)):
                rs = ReaderSide(self.loop, compress=self.cfg["compress"] > 0, limit=lim, consume=False)
                rs.data_received(wire)            # one read burst: a pause request cannot take effect inside it
                recv, rerr = rs.result()
                runs.append({"seg": sname, "recv": recv, "rerr": rerr})
        if extra_runs and wire and self.cfg["notakeover"] and len(wire) <= 120000:
            # the peer of a no_context_takeover sender may drop its inflate context after every
            # message: a reader whose inflater is discarded at each message boundary
            rs = ReaderSide(self.loop, compress=True)
            seen = 0
            for i in range(0, len(wire), 64):
                for j in range(i, min(i + 64, len(wire))):
                    rs.data_received(wire[j:j + 1])
                    if getattr(rs.reader, "_state", 1) == 1 and getattr(rs.reader, "_opcode", -1) == -1:  # frame boundary, no message open
                        self.loop.run_until_idle()
                        if len(rs.got) != seen:
                            seen = len(rs.got)
                            rs.reader._decompressobj = None
            recv, rerr = rs.result()
            runs.append({"seg": "fresh-inflater-per-message", "recv": recv, "rerr": rerr})
        full = len(wire) <= WIRE_FULL_MAX
        cfg = {"mask": bool(self.cfg["mask"]), "compress": int(self.cfg["compress"]),
               "notakeover": bool(self.cfg["notakeover"]), "sent": self.sent, "wirefull": full,
               "wire": list(wire) if full else [], "wirelen": len(wire), "runs": runs, "stuck": stuck,
               "nwrites": len(writes)}
        return {"cfg": cfg, "src": src, "events": self.events, "payload_hex": [p.hex() if len(p) <= 64 else f"<{len(p)} bytes>" for p in self.payloads]}


# ------------------------------------------------------------------ judging
def judge(ctx: Ctx, traces: List[dict], label: str) -> None:
    if not traces:
        return
    slim = [{"cfg": t["cfg"], "src": t["src"], "events": t["events"]} for t in traces]
    verdicts, res = validate_batch("WsSendTrace", "WsSendTrace.cfg", slim, timeout=1500)
    if res.violated:
        raise MachineryError(f"trace validation reported {res.violated}:\n" + "\n".join(res.output.splitlines()[-30:]))
    ctx.add_trace_batch(len(traces), res)
    for t, v in zip(traces, verdicts):
        c = t["cfg"]
        ctx.distinct.add(hash(json.dumps([c["mask"], c["compress"], c["notakeover"],
                                          [(m["sender"], m["op"], m["key"]["len"], m["ovr"]) for m in c["sent"]],
                                          [(e["ev"], e["id"], e["how"]) for e in t["events"]]])))
        if v.ok:
            continue
        sizes = [m["key"]["len"] for m in c["sent"]]
        sig = (f"{v.clause} compress={c['compress']} notakeover={c['notakeover']} mask={c['mask']} "
               f"override={[m['ovr'] for m in c['sent'] if m['ovr']]} sizes={sizes} src={t['src']}")
        detail = {"replay": t.get("recipe"), "clause": v.clause, "info": v.info,
                  "cfg": {k: c[k] for k in ("mask", "compress", "notakeover", "wirelen", "stuck")},
                  "sent": [{k: m[k] for k in ("sender", "seq", "op", "ovr")} | {"len": m["key"]["len"]} for m in c["sent"]],
                  "events": t["events"], "runs": [{"seg": r["seg"], "n": len(r["recv"]), "rerr": r["rerr"]} for r in c["runs"]],
                  "payloads": t.get("payload_hex")}
        ctx.violation(v.clause, sig, detail, "trace")
    t0 = traces[0]
    ctx.sample({"src": t0["src"], "cfg": {k: t0["cfg"][k] for k in ("mask", "compress", "notakeover", "wirelen")},
                "sent": [{k: m[k] for k in ("sender", "seq", "op", "ovr")} | {"len": m["key"]["len"]} for m in t0["cfg"]["sent"]],
                "events": t0["events"][:10], "runs": [{"seg": r["seg"], "n": len(r["recv"]), "rerr": r["rerr"]} for r in t0["cfg"]["runs"]]})


class Batcher:
    def __init__(self, ctx: Ctx, label: str, max_bytes: int = 6_000_000, max_n: int = 1500) -> None:
        self.ctx, self.label, self.max_bytes, self.max_n = ctx, label, max_bytes, max_n
        self.buf: List[dict] = []
        self.n = 0

    def add(self, t: dict) -> None:
        self.buf.append(t)
        self.n += len(t["cfg"]["wire"]) + 200
        if self.n >= self.max_bytes or len(self.buf) >= self.max_n:
            self.flush()

    def flush(self) -> None:
        judge(self.ctx, self.buf, self.label)
        self.buf, self.n = [], 0


# ------------------------------------------------------------------ recipes (replayable executions)
CONTAINERS = ["bytes", "bytes", "bytearray", "bytearray", "memoryview", "mvro", "mvslice"]


def choose_containers(recipe: dict) -> List[list]:
    """Payload-container dimension: for every message the kind of object handed to send_frame and,
    for some, an earlier message of the same sender whose SAME object is sent again (equal opcode or
    BINARY, same side of the 16 KiB threshold).  Stored in the recipe, so a replay is exact."""
    rng = _random.Random(recipe["seed"] * 31 + 17)
    msgs = recipe["messages"]
    out: List[list] = []
    for k, ent in enumerate(msgs):
        op, size = ent[1], ent[2]
        kind, same = rng.choice(CONTAINERS), -1
        if op == G.OP_CLOSE or len(ent) > 5:
            kind = "bytes"
        elif k > 0 and rng.random() < 0.22:
            cands = [j for j in range(k) if out[j][1] < 0 and len(msgs[j]) <= 5 and msgs[j][1] != G.OP_CLOSE
                     and msgs[j][2] >= 2           # (payloads of 0 / 1 bytes carry no tag: not unique across senders)
                     and msgs[j][0] == ent[0] and (msgs[j][1] == op or op == G.OP_BIN)
                     and (msgs[j][2] > SYNC_CHUNK) == (size > SYNC_CHUNK)]
            if cands:
                same = rng.choice(cands)
                kind = out[same][0]
        out.append([kind, same])
    return out


def run_recipe(ctx: Ctx, loop: steploop.StepLoop, recipe: dict, src: str) -> dict:
    """recipe = {cfg, seed, messages: [[sender, op, size, shape, ovr]], schedule: [[act, who]]}"""
    rng = _random.Random(recipe["seed"])
    x = SendExec(loop, recipe["cfg"], recipe["seed"])
    block = bytes(rng.getrandbits(8) for _ in range(recipe.get("block", 3000)))
    if "containers" not in recipe:
        recipe["containers"] = choose_containers(recipe)
    for k, ent in enumerate(recipe["messages"]):
        sender, op, size, shape, ovr = ent[:5]
        kind, same_as = recipe["containers"][k]
        if len(ent) > 5:                      # explicit payload (hex)
            payload = bytes.fromhex(ent[5])
        elif op == G.OP_CLOSE:
            payload = struct.pack("!H", 1000) + make_payload(rng, max(0, min(size, 123) - 2), G.OP_TEXT, k + 1, "utf8")
        else:
            payload = make_payload(rng, size, op, k + 1, shape, block)
        x.add_message(sender, op, payload, ovr, kind, same_as)
    for act, who in recipe["schedule"]:
        if act == "spawn":
            x.spawn(who)
        elif act == "cancel":
            x.cancel(who)
        elif act == "step":
            x.step()
        elif act == "pause":
            x.wtr.pause_protocol_writing()
        elif act == "resume":
            x.wtr.resume_protocol_writing()
        elif act == "idle":
            loop.run_until_idle()
    t = x.trace(ctx, rng, src)
    t["recipe"] = recipe
    return t


# ------------------------------------------------------------------ model
MODEL_CFG = """SPECIFICATION Spec
CONSTANTS
  Senders = {{"a", "b", "c"}}
  Prog <- ProgDef
  ProgSel = "{prog}"
  Compress = {compress}
  Takeover = {takeover}
  MaxCancel = {maxcancel}
  OverrideFix = {fix}
  CloseLatch = {latch}
  UseShield = {shield}
  SmallTakesLock = {smalllock}
  OvrTakesLock = {ovrlock}
  Mask = {mask}
  MaskCopies = {maskcopies}
{invs}
CHECK_DEADLOCK FALSE
"""
ALL_INVS = ["PayloadIntact", "CallerBufferIntact", "WireOrderIsCtxOrder", "NoCtxAdvanceWithoutFrame", "DecodeOK", "PerSenderOrder", "ExactlyOnce",
            "ControlNeverCompressed", "NothingAfterClose", "LockSafety", "NoLostWakeup"]

# Python mirror of WsSendMC!ProgDef: sender -> [(op, size class, override?)]
PROGS = {
    "mix3": {"a": [("data", "large", False), ("data", "small", False)], "b": [("data", "small", False), ("ping", "small", False)],
             "c": [("data", "large", False)]},
    "ovr": {"a": [("data", "small", False), ("data", "small", True), ("data", "small", False)],
            "b": [("data", "large", True), ("data", "small", False)], "c": [("ping", "small", False)]},
    "ovr2": {"a": [("data", "small", False), ("data", "large", False)], "b": [("data", "small", True), ("data", "small", False)],
             "c": [("data", "small", False), ("data", "small", True)]},
    "rebuf": {"a": [("data", "small", False), ("data", "small", False)], "b": [("data", "large", False), ("data", "small", False)],
              "c": [("ping", "small", False), ("ping", "small", False)]},
    "close": {"a": [("data", "large", False), ("data", "small", False)], "b": [("close", "small", False), ("data", "small", False)],
              "c": [("data", "small", False), ("ping", "small", False)]},
    "pair": {"a": [("data", "large", False), ("data", "small", False)], "b": [("data", "small", False), ("data", "large", False)],
             "c": [("data", "small", False), ("data", "large", False)]},
}


def write_cfg(prog: str, compress: bool, takeover: bool, maxcancel: int, fix: bool, shield: bool = True,
              smalllock: bool = True, invs: Optional[List[str]] = None, latch: bool = False, ovrlock: bool = True,
              mask: bool = True, maskcopies: bool = True) -> str:
    d = mktemp("c11cfg")
    p = os.path.join(d, f"WsSendMC_{prog}.cfg")
    B = lambda b: str(bool(b)).upper()  # noqa: E731
    with open(p, "w") as f:
        f.write(MODEL_CFG.format(prog=prog, compress=B(compress), takeover=B(takeover), maxcancel=maxcancel, fix=B(fix), latch=B(latch),
                                 shield=B(shield), smalllock=B(smalllock), ovrlock=B(ovrlock), mask=B(mask), maskcopies=B(maskcopies),
                                 invs="\n".join("INVARIANT " + i for i in (invs or ALL_INVS))))
    return p


def model_runs(ctx: Ctx, override_as_found: bool, close_as_found: bool) -> None:
    """The model variant follows the code: the two named deviations are modelled as found only
    while the real writer still shows them (probes), otherwise as repaired."""
    mc = ctx.pick(2, 3)
    fixo, latch = (not override_as_found), (not close_as_found)
    strong = ALL_INVS + ["NoDataAfterCloseOnWire"]
    runs = [("mix3", True, True, mc, ALL_INVS), ("pair", True, False, mc, ALL_INVS),
            ("close", True, True, mc, strong if latch else ALL_INVS), ("mix3", False, True, 1, ALL_INVS),
            ("ovr", True, False, mc, ALL_INVS),
            # the same mutable buffer sent twice through a masking writer, compressed and not
            ("rebuf", True, True, mc, ALL_INVS), ("rebuf", False, True, 1, ALL_INVS),
            # a large shared-context send in flight while small sends with / without override arrive
            ("ovr2", True, True, mc, ALL_INVS if fixo else [i for i in ALL_INVS if i != "DecodeOK"] + ["DecodeOnlyOverrideDev"]),
            # context takeover + per-message override: with the repaired design everything holds; with the code
            # as found every wrong decode must be explained by the override deviation alone
            ("ovr", True, True, mc, ALL_INVS if fixo else [i for i in ALL_INVS if i != "DecodeOK"] + ["DecodeOnlyOverrideDev"])]
    if ctx.quick is False:
        runs += [("close", True, False, mc, strong if latch else ALL_INVS), ("pair", True, True, mc, ALL_INVS)]
    for (prog, comp, tko, c, invs) in runs:
        res = run_tlc("WsSendMC", write_cfg(prog, comp, tko, c, fixo, invs=invs, latch=latch), workers=16,
                      timeout=ctx.pick(300, 1200), deadlock=False)
        name = f"WsSendMC(prog={prog},compress={comp},takeover={tko},cancels={c},override_fix={fixo},close_latch={latch})"
        ok = ctx.expect_model_ok(name, res)
        ctx.log(f"model {name}: {res.distinct} states, ok={ok}, {res.wall_s:.0f}s")
    if override_as_found:
        # the deviation does occur in the model of the code as found (DESIGN section 5 item 10)
        res = run_tlc("WsSendMC", write_cfg("ovr", True, True, 1, False, invs=["DecodeOK_OverrideTakeover"]), workers=16,
                      timeout=300, deadlock=False)
        ctx.expect_model_ok("WsSendMC(prog=ovr,code-as-found):DecodeOK_OverrideTakeover", res, exhaustive=False)
    if close_as_found:
        # wire-level "nothing after Close": a compressed send already waiting is written after the Close frame
        res = run_tlc("WsSendMC", write_cfg("close", True, True, 1, False, invs=["NoDataAfterCloseOnWire"]), workers=16,
                      timeout=300, deadlock=False)
        ctx.expect_model_ok("WsSendMC(prog=close,code-as-found):NoDataAfterCloseOnWire", res, exhaustive=False)


# ------------------------------------------------------------------ drivers
def size_for(rng: Any, klass: str, quick: bool) -> int:
    if klass == "large":
        return rng.choice([SYNC_CHUNK + 1, SYNC_CHUNK + 1, 20000, 65535, 65536, 65537])
    return rng.choice([0, 1, 2, 5, 125, 126, 127, 300, 4096, SYNC_CHUNK - 1, SYNC_CHUNK])


def drive_model_behaviours(ctx: Ctx, loop: steploop.StepLoop) -> None:
    """spec -> code: TLC behaviours of WsSendMC (Spawn/Cancel/Step) imposed on the real writer."""
    b = Batcher(ctx, "tlc-sim")
    rng = ctx.rng
    plans = [("mix3", 15, False, 2), ("pair", 12, True, 2), ("close", 15, False, 2), ("ovr", 15, False, 2), ("ovr", 11, True, 1),
             ("ovr2", 15, False, 2), ("ovr2", 10, False, 1), ("rebuf", 0, False, 1), ("rebuf", 14, False, 2)]
    for prog, wbits, notakeover, mc in plans:
        cfgp = write_cfg(prog, wbits > 0, not notakeover, mc, False, invs=["LockSafety"])
        behs, _res = simulate_behaviours("WsSendMC", cfgp, num=ctx.pick(70, 1500), depth=ctx.pick(40, 60), seed=ctx.seed, timeout=300)
        for bi, beh in enumerate(behs):
            msgs = []
            tiny: set = set()
            for sender in ("a", "b", "c"):
                for (op, klass, ovr) in PROGS[prog][sender]:
                    opc = {"data": rng.choice([G.OP_TEXT, G.OP_BIN]), "ping": G.OP_PING, "close": G.OP_CLOSE}[op]
                    size = size_for(rng, klass, ctx.quick) if op == "data" else rng.choice([0, 5, 125])
                    if size <= 1 and (opc, size) in tiny:
                        size = 2 + len(msgs)
                    tiny.add((opc, size))
                    shape = rng.choice(["echo", "echo", "repeat", "random", "utf8", "pattern"])
                    msgs.append([sender, opc, size, shape, (rng.randint(9, wbits) if ovr else 0)])
            sched = []
            for label, _st in beh[1:]:
                if label.startswith("Spawn"):
                    sched.append(["spawn", label.split('"')[1]])
                elif label.startswith("Cancel"):
                    sched.append(["cancel", label.split('"')[1]])
                else:
                    sched.append(["step", ""])
            recipe = {"cfg": {"mask": rng.random() < 0.5, "compress": wbits, "notakeover": notakeover},
                      "seed": rng.randrange(2 ** 30), "messages": msgs, "schedule": sched}
            if prog == "rebuf":      # buffers as in the model: a sends one mutable buffer twice, so does c; b's is mutable
                mut = ["bytearray", "memoryview", "mvslice"]
                msgs[1][1:4] = msgs[0][1:4]
                msgs[5][1:4] = msgs[4][1:4]
                recipe["containers"] = [[rng.choice(mut), -1], ["", 0], [rng.choice(mut), -1], [rng.choice(CONTAINERS), -1],
                                        [rng.choice(mut), -1], ["", 4]]
                recipe["cfg"]["mask"] = rng.random() < 0.75
            b.add(run_recipe(ctx, loop, recipe, f"tlc-sim:{prog}"))
    b.flush()


def random_recipe(ctx: Ctx, rng: Any, k: int, big: bool) -> dict:
    compress = rng.choice([0, 0, 9, 10, 11, 12, 13, 14, 15, 15, 15])
    cfg = {"mask": rng.random() < 0.5, "compress": compress, "notakeover": compress > 0 and rng.random() < 0.35,
           "limit": rng.choice([2 ** 16, 2 ** 16, 64, 1])}
    nsend = rng.choice([1, 1, 2, 2, 3])
    names = ["a", "b", "c"][:nsend]
    msgs = []
    used_tiny: set = set()
    nbig = 0
    allow_ovr = compress > 0 and rng.random() < 0.3
    with_close = rng.random() < 0.2
    for s in names:
        for _ in range(rng.randint(1, 4)):
            r = rng.random()
            if r < 0.12:
                op, size = G.OP_PING, rng.choice([0, 3, 125])
            elif r < 0.2:
                op, size = G.OP_PONG, rng.choice([0, 7, 125])
            else:
                op = rng.choice([G.OP_TEXT, G.OP_BIN])
                if big and nbig == 0 and rng.random() < 0.5:
                    size = rng.choice([2 ** 20, 2 ** 20 + 1, 2 ** 21, 2 ** 22])
                elif rng.random() < 0.45 and nbig < 2:
                    size = rng.choice(BOUNDARY_SIZES)
                else:
                    size = rng.choice([2, 3, 10, 60, 200, 1000, 5000])
                if size > 60000:
                    nbig += 1
            if size <= 1:
                if (op, size) in used_tiny:
                    size = 2 + len(msgs)
                used_tiny.add((op, size))
            shape = rng.choice(["echo", "echo", "repeat", "random", "utf8", "pattern"])
            ovr = rng.randint(9, compress) if (allow_ovr and op in (G.OP_TEXT, G.OP_BIN) and rng.random() < 0.4) else 0
            msgs.append([s, op, size, shape, ovr])
    if with_close:
        msgs.append([rng.choice(names), G.OP_CLOSE, rng.choice([2, 10, 60]), "utf8", 0])
    sched: List[List[str]] = []
    pending = list(names)
    rng.shuffle(pending)
    ncancel = 0
    paused = False
    for _ in range(rng.randint(4, 60)):
        r = rng.random()
        if pending and r < 0.3:
            sched.append(["spawn", pending.pop()])
        elif r < 0.36 and ncancel < 2 and nsend > 0 and rng.random() < 0.6:
            sched.append(["cancel", rng.choice(names)])
            ncancel += 1
        elif r < 0.40:
            sched.append(["resume" if paused else "pause", ""])
            paused = not paused
        else:
            sched.append(["step", ""])
    return {"cfg": cfg, "seed": rng.randrange(2 ** 30), "messages": msgs, "schedule": sched}


def drive_random(ctx: Ctx, loop: steploop.StepLoop) -> None:
    b = Batcher(ctx, "random")
    rng = ctx.rng
    n = ctx.pick(800, 20000)
    for k in range(n):
        big = (not ctx.quick) and k % 60 == 0
        b.add(run_recipe(ctx, loop, random_recipe(ctx, rng, k, big), "random"))
    b.flush()


def drive_matrix(ctx: Ctx, loop: steploop.StepLoop) -> None:
    """Every boundary size x (mask, compress 0/9..15, notakeover) for a single sender: the pure codec."""
    b = Batcher(ctx, "matrix")
    rng = ctx.rng
    combos = [(0, False)] + [(w, nt) for w in range(9, 16) for nt in (False, True)]
    k = 0
    for size in BOUNDARY_SIZES + ctx.pick([], [2 ** 20, 2 ** 20 + 1, 4 * 2 ** 20]):
        for ci, (wbits, nt) in enumerate(combos):
            if ctx.quick and size > 60000 and ci % 5 != (k % 5):
                continue
            if ctx.quick and (ci + k) % 3 != 0 and size not in (125, 126, 127):
                continue
            k += 1
            mask = (k % 2 == 0)
            shape = ["repeat", "random", "pattern", "utf8"][k % 4]
            op = G.OP_TEXT if shape in ("utf8", "repeat") else G.OP_BIN
            msgs = [["a", op, size, shape, 0], ["a", G.OP_PING, 3, "pattern", 0], ["a", op, max(2, size // 2), "repeat", 0],
                    ["a", G.OP_BIN if op == G.OP_TEXT else G.OP_TEXT, size if size > 1 else 2, shape, 0]]
            recipe = {"cfg": {"mask": mask, "compress": wbits, "notakeover": nt}, "seed": 1000 + k, "messages": msgs,
                      "schedule": [["spawn", "a"], ["idle", ""]]}
            b.add(run_recipe(ctx, loop, recipe, "matrix"))
    b.flush()


def drive_contention(ctx: Ctx, loop: steploop.StepLoop) -> None:
    """Small-scope enumeration on the real writer: after a first message has entered the shared
    deflate context, sender a has a large message in flight (lock held, executor hop); sender b
    arrives k loop steps later with a small message (with / without per-message override), c with
    a ping; optionally a is cancelled j steps after b arrived.  All payloads are rotations of one
    block, so every compressed message refers back into earlier ones."""
    b = Batcher(ctx, "contention")
    rng = ctx.rng
    n = 0
    for (wbits, notakeover) in ((15, False), (11, False), (13, True)):
        for ovr in (0, 9, wbits):
            for k in range(0, ctx.pick(5, 8)):
                for cancel_at in (None, 0, 2):
                    if ctx.quick and (n + (cancel_at or 0)) % 2 and wbits != 15:
                        n += 1
                        continue
                    n += 1
                    large = rng.choice([SYNC_CHUNK + 1, 18000, 30000])
                    msgs = [["a", G.OP_BIN, rng.choice([2000, 6000]), "echo", 0], ["a", G.OP_BIN, large, "echo", 0],
                            ["b", rng.choice([G.OP_TEXT, G.OP_BIN]), rng.choice([40, 300, 3000]), "echo" if n % 3 else "random", ovr],
                            ["b", G.OP_BIN, 500, "echo", 0], ["c", G.OP_PING, 4, "pattern", 0], ["c", G.OP_BIN, 700, "echo", 0]]
                    sched = [["spawn", "a"]] + [["step", ""]] * (2 + k) + [["spawn", "b"], ["spawn", "c"]]
                    if cancel_at is not None:
                        sched += [["step", ""]] * cancel_at + [["cancel", "a"]]
                    sched += [["idle", ""]]
                    recipe = {"cfg": {"mask": n % 2 == 0, "compress": wbits, "notakeover": notakeover}, "seed": 5000 + n,
                              "messages": msgs, "schedule": sched, "block": 6000}
                    b.add(run_recipe(ctx, loop, recipe, "contention"))
    b.flush()


def drive_backlog(ctx: Ctx, loop: steploop.StepLoop) -> None:
    """More than 2 x 64 KiB of data messages followed by control and data frames: the slow-consumer
    runs of these executions are above the default high-water mark of the reader's queue."""
    b = Batcher(ctx, "backlog")
    rng = ctx.rng
    for n, (wbits, sizes) in enumerate([(0, [50000, 50000, 50000]), (0, [70000, 65536]), (15, [60000, 60000, 30000]),
                                        (0, [40000] * 4)] + ctx.pick([], [(12, [65537, 65537, 20]), (0, [131073])])):
        msgs = [["a", G.OP_BIN if i % 2 else G.OP_TEXT, sz, "random" if wbits else "pattern", 0] for i, sz in enumerate(sizes)]
        msgs += [["a", G.OP_PING, 4, "pattern", 0], ["a", G.OP_TEXT, 14, "utf8", 0], ["a", G.OP_PONG, 6, "pattern", 0],
                 ["a", G.OP_PING, 9, "pattern", 0], ["a", G.OP_BIN, 200, "echo", 0]]
        recipe = {"cfg": {"mask": n % 2 == 1, "compress": wbits, "notakeover": False}, "seed": 7000 + n, "messages": msgs,
                  "schedule": [["spawn", "a"], ["idle", ""]]}
        b.add(run_recipe(ctx, loop, recipe, "backlog"))
    b.flush()


def known_deviation_probes(ctx: Ctx, loop: steploop.StepLoop) -> Tuple[bool, bool]:
    """Minimal real executions of the two named deviations; tells which variant of the model
    mirrors the code.  (1) DESIGN section 5 item 10: shared, override, shared under context takeover.
    (2) a large compressed send is in the executor when close() writes the Close frame."""
    body = bytes((i * 37 + 11) & 0xFF for i in range(48))
    msgs = [["a", G.OP_BIN, 50, "", 0, (b"\x01\x01" + body).hex()],
            ["a", G.OP_TEXT, 42, "", 9, (b"override " * 4 + b"end...").hex()],
            ["a", G.OP_BIN, 50, "", 0, (b"\x03\x03" + body).hex()]]      # refers back to the first message
    r1 = {"cfg": {"mask": False, "compress": 15, "notakeover": False}, "seed": 7, "messages": msgs,
          "schedule": [["spawn", "a"], ["idle", ""]]}
    r2 = copy.deepcopy(r1)                      # with notakeover the same sequence must be fine
    r2["cfg"]["notakeover"] = True
    r3 = {"cfg": {"mask": True, "compress": 15, "notakeover": False}, "seed": 8,
          "messages": [["a", G.OP_BIN, SYNC_CHUNK + 1, "random", 0], ["b", G.OP_CLOSE, 6, "utf8", 0]],
          "schedule": [["spawn", "a"], ["step", ""], ["spawn", "b"], ["idle", ""]]}
    ts = [run_recipe(ctx, loop, r1, "probe:override-takeover"), run_recipe(ctx, loop, r2, "probe:override-notakeover"),
          run_recipe(ctx, loop, r3, "probe:close-while-compressing")]
    before = len(ctx.violations)
    judge(ctx, ts, "probe")
    seen = {v.clause for v in ctx.violations[before:]}
    return "DecodeAfterOverrideTakeover" in seen, "DataAfterCloseOnWire" in seen


def run(ctx: Ctx) -> None:
    ctx.rule = ("executions = sender tasks on the stepping loop against one real WebSocketWriter piped into real "
                "WebSocketReaders (live + re-fed segmentations); schedules from TLC behaviours of WsSendMC and seeded "
                "random; distinct = different (config, messages, call/end event sequence)")
    ctx.assumptions = ["zlib is trusted for the actual compression; payload equality is byte equality for payloads <= 256 "
                       "bytes and length + SHA-1 digest (computed by the harness on both sides) above",
                       "run_in_executor runs inline on a later loop step (engine.steploop)",
                       "the model's Step corresponds to one ready handle of the real loop only approximately (shield and "
                       "task done-callbacks are merged); replays impose the Spawn/Cancel/Step sequence as is",
                       "per-message compress= override is only used on connections that negotiated permessage-deflate, "
                       "with a window not larger than the negotiated one",
                       "wire bytes are parsed by the reference for executions that wrote <= 400000 bytes"]
    loop = steploop.new_loop()
    ovr_found, close_found = known_deviation_probes(ctx, loop)
    ctx.log(f"probes on the real writer: override/takeover deviation={ovr_found}, data-after-close={close_found}")
    if not os.environ.get("VERIF_SKIP_MODELS"):       # (sensitivity experiments only: the models do not depend on /repo)
        model_runs(ctx, ovr_found, close_found)
    drive_model_behaviours(ctx, loop)
    ctx.log(f"tlc-sim replays done: traces={ctx.traces}")
    drive_contention(ctx, loop)
    drive_backlog(ctx, loop)
    ctx.log(f"contention + backlog done: traces={ctx.traces}")
    drive_matrix(ctx, loop)
    ctx.log(f"matrix done: traces={ctx.traces}")
    drive_random(ctx, loop)
    ctx.log(f"random done: traces={ctx.traces}")
    ctx.evaluations = ctx.traces
    # report anything that is not one of the named deviations first
    named = ("DecodeAfterOverrideTakeover", "DataAfterCloseOnWire", "model:DecodeOK_OverrideTakeover", "model:NoDataAfterCloseOnWire")
    ctx.violations.sort(key=lambda v: v.clause in named)
    loop.uninstall()


# ------------------------------------------------------------------ selftest / replay
def selftest(ctx: Ctx) -> int:
    loop = steploop.new_loop()
    msgs = [["a", G.OP_TEXT, 300, "repeat", 0], ["b", G.OP_BIN, SYNC_CHUNK + 1, "random", 0], ["a", G.OP_PING, 4, "pattern", 0],
            ["b", G.OP_TEXT, 126, "utf8", 0]]
    recipe = {"cfg": {"mask": True, "compress": 12, "notakeover": False}, "seed": 5, "messages": msgs,
              "schedule": [["spawn", "b"], ["step", ""], ["spawn", "a"], ["step", ""], ["step", ""], ["idle", ""]]}
    good = run_recipe(ctx, loop, recipe, "selftest")
    slim = lambda t: {"cfg": t["cfg"], "src": t["src"], "events": t["events"]}  # noqa: E731
    bad1 = copy.deepcopy(good)                      # received payload corrupted
    bad1["cfg"]["runs"][1]["recv"][0]["key"]["dig"] = "0" * 16
    bad1["cfg"]["runs"][1]["recv"][0]["key"]["small"] = []
    bad2 = copy.deepcopy(good)                      # a message lost on the way
    del bad2["cfg"]["runs"][0]["recv"][-1]
    bad4 = copy.deepcopy(good)                      # mask bit cleared on the first frame
    bad4["cfg"]["wire"][1] &= 0x7F
    bad5 = copy.deepcopy(good)                      # end event dropped
    k = next(j for j, e in enumerate(bad5["events"]) if e["ev"] == "end")
    del bad5["events"][k]
    bad6 = copy.deepcopy(good)                      # per-sender order swapped at the receiver
    rv = bad6["cfg"]["runs"][0]["recv"]
    ia = [j for j, m in enumerate(rv) if m["t"] in (1, 9)]
    rv[ia[0]], rv[ia[-1]] = rv[ia[-1]], rv[ia[0]]
    bad7 = copy.deepcopy(good)                      # the caller's buffer was found modified after a send
    next(e for e in bad7["events"] if e["ev"] == "end")["mut"] = True
    batch = [good, bad1, bad2, bad4, bad5, bad6, bad7]
    vs, _ = validate_batch("WsSendTrace", "WsSendTrace.cfg", [slim(t) for t in batch])
    print([(v.ok, v.clause, v.pos) for v in vs])
    ok = vs[0].ok and all(not v.ok for v in vs[1:])
    for name, prog, kw in (("no-shield", "mix3", {"shield": False}), ("small-frames-skip-lock", "mix3", {"smalllock": False}),
                           ("override-frames-skip-lock", "ovr2", {"ovrlock": False}),
                           ("mask-in-place", "rebuf", {"maskcopies": False})):
        res = run_tlc("WsSendMC", write_cfg(prog, True, True, 2, True, latch=True, **kw), workers=16, timeout=300, deadlock=False)
        print(f"mutant {name}: violated={res.violated}")
        ok = ok and res.violated is not None and res.kind == "invariant"
    loop.uninstall()
    print("selftest", "passed" if ok else "FAILED")
    return 0 if ok else 2


def replay(ctx: Ctx, path: str) -> int:
    payload = json.load(open(path))
    d = payload["detail"]
    if payload.get("source") == "model" or "replay" not in d or d["replay"] is None:
        print("model-level finding: the counterexample is the TLC trace stored in the replay file; re-run ./check C11")
        return 1
    loop = steploop.new_loop()
    t = run_recipe(ctx, loop, d["replay"], "replay")
    vs, _ = validate_batch("WsSendTrace", "WsSendTrace.cfg", [{"cfg": t["cfg"], "src": t["src"], "events": t["events"]}])
    v = vs[0]
    print(f"replay: ok={v.ok} clause={v.clause!r} pos={v.pos}/{v.total} info={v.info}")
    if not v.ok:
        print(f"VIOLATION property=C11 replay={path}")
        return 1
    return 0
