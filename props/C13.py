"""C13 - WebSocket sessions close cleanly in every interleaving.

spec/WsSession.tla       implementation-shaped model of WebSocketResponse / ClientWebSocketResponse
                         (Side), explicit asyncio ready queue, timers, cancellation (TLC, exhaustive)
spec/WsSessionTrace.tla  observational property monitor for recorded executions of the real classes
engine/wskit.py          real sessions on in-memory transports + scripted peer + RFC 6455 codec
"""
from __future__ import annotations

import asyncio
import copy
import json
import os
import re
from typing import Any, Dict, List, Optional, Tuple

from engine import steploop
from engine.runner import Ctx
from engine.tlc import (MachineryError, mktemp, parse_dot, require_clean, run_tlc, simulate_behaviours, transition_cover,
                        validate_batch)
from engine.wskit import BLoop, ClientSession_, ServerSession, enable_eager

PEER_CODE = 4001
BIG = bytes(range(256)) * 80          # 20480 bytes > WEBSOCKET_MAX_SYNC_CHUNK_SIZE (16 KiB)
FIELDS = {"ev": "", "t": "", "k": "", "code": 0, "now": 0, "closed": False, "cc": 0, "tcl": False, "info": "", "n": 0}


class WsExec:
    """One real session + the application tasks R (receiver), C* (closers), S* (senders)."""

    def __init__(self, loop: Any, side: str, *, autoclose: bool = True, autoping: bool = True,
                 heartbeat: int = 0, recv_timeout: int = 0, close_timeout: int = 2, nrecv: int = 2,
                 compress: bool = False) -> None:
        import aiohttp

        self.loop = loop
        self.side = side
        self.opts = dict(autoclose=autoclose, autoping=autoping, heartbeat=heartbeat,
                         recv_timeout=recv_timeout, close_timeout=close_timeout, nrecv=nrecv, compress=compress)
        loop._ready.clear()
        loop._scheduled.clear()
        loop._vtime = 0.0
        loop.exc_contexts.clear()
        hb = float(heartbeat) if heartbeat else None
        if side == "server":
            self.sess: Any = ServerSession(loop, dict(timeout=float(close_timeout), autoclose=autoclose,
                                                      autoping=autoping, heartbeat=hb), compress=compress)
        else:
            self.sess = ClientSession_(loop, dict(timeout=aiohttp.ClientWSTimeout(ws_close=float(close_timeout)),
                                                  autoclose=autoclose, autoping=autoping, heartbeat=hb),
                                       compress=compress)
        self.ws = self.sess.ws
        self.tr = self.sess.tr
        self.names: Dict[Any, str] = {}
        self.bl = BLoop(loop, self.names)
        self.tasks: Dict[str, Any] = {}
        self.cur: Dict[str, str] = {}          # task -> api it is inside
        self.res: Dict[str, List[str]] = {}
        self.events: List[dict] = []
        self.sess.on_tx = lambda k, c: self.rec("tx", k=k, code=c)
        self.sess.on_tclose = lambda: self.rec("tclose")
        self.tx_close_seen = False
        self.finished = False
        self.no_probe = False
        self.script: List[list] = []           # driver actions, enough to re-execute this run (replay)

    # ---- recording
    def now(self) -> int:
        return int(round(self.loop.time()))

    def rec(self, ev: str, **kw: Any) -> None:
        if self.finished:
            return
        e = dict(FIELDS)
        e.update(kw)
        e["ev"] = ev
        e["now"] = self.now()
        e["closed"] = bool(self.ws.closed)
        e["cc"] = int(self.ws.close_code or 0)
        e["tcl"] = bool(self.tr.closing)
        if ev == "tx" and e["k"] == "close":
            self.tx_close_seen = True
        self.events.append(e)

    def priv(self) -> dict:
        ws = self.ws
        try:
            return {"closed": bool(ws._closed), "closing": bool(ws._closing), "code": int(ws._close_code or 0),
                    "waiting": bool(ws._waiting), "tclosing": bool(self.tr.closing), "lost": bool(self.tr.closed),
                    "paused": bool(self.tr.write_paused)}
        except AttributeError:
            return {}

    # ---- application tasks
    def _ret(self, t: str, api: str, info: str, code: int = 0) -> None:
        self.cur.pop(t, None)
        self.res.setdefault(t, []).append(info)
        self.rec("ret", t=t, k=api, info=info, code=code)

    async def _receiver(self, t: str, nrecv: int, timeout: Optional[float]) -> None:
        from aiohttp import WSMsgType

        for _ in range(nrecv):
            self.cur[t] = "receive"
            self.rec("call", t=t, k="receive")
            try:
                msg = await self.ws.receive(timeout)
            except asyncio.CancelledError:
                self._ret(t, "receive", "Cancelled")
                raise
            except asyncio.TimeoutError:
                self._ret(t, "receive", "Timeout")
                continue
            except RuntimeError:
                self._ret(t, "receive", "RuntimeError")
                return
            except ConnectionError:
                self._ret(t, "receive", "ConnErr")
                return
            except Exception as exc:  # noqa: BLE001
                self._ret(t, "receive", type(exc).__name__)
                return
            tp = msg.type
            if tp in (WSMsgType.TEXT, WSMsgType.BINARY):
                self._ret(t, "receive", "DATA")
            elif tp is WSMsgType.CLOSE:
                self._ret(t, "receive", "CLOSE", int(msg.data or 0))
            else:
                self._ret(t, "receive", tp.name)

    async def _closer(self, t: str) -> None:
        self.cur[t] = "close"
        self.rec("call", t=t, k="close")
        try:
            r = await self.ws.close()
        except asyncio.CancelledError:
            self._ret(t, "close", "Cancelled")
            raise
        except Exception as exc:  # noqa: BLE001
            self._ret(t, "close", type(exc).__name__)
            return
        self._ret(t, "close", "True" if r else "False")

    async def _sender(self, t: str) -> None:
        self.cur[t] = "send"
        self.rec("call", t=t, k="send")
        try:
            if t.startswith("B"):       # large message: with permessage-deflate it is deflated in the executor
                await self.ws.send_bytes(BIG)
            else:
                await self.ws.send_str("x")
        except asyncio.CancelledError:
            self._ret(t, "send", "Cancelled")
            raise
        except ConnectionError:
            self._ret(t, "send", "ConnErr")
            return
        except Exception as exc:  # noqa: BLE001
            self._ret(t, "send", type(exc).__name__)
            return
        self._ret(t, "send", "OK")

    def spawn(self, t: str) -> None:
        self.script.append(["spawn", t])
        if t == "Rp":
            coro = self._receiver(t, 1, None)
        elif t.startswith("R"):
            rt = self.opts["recv_timeout"]
            coro = self._receiver(t, self.opts["nrecv"], float(rt) if rt else None)
        elif t.startswith(("C", "D")):
            coro = self._closer(t)
        else:
            coro = self._sender(t)
        task = self.loop.create_task(coro)
        self.tasks[t] = task
        self.names[task] = t

    def cancel(self, t: str) -> None:
        self.script.append(["cancel", t])
        task = self.tasks.get(t)
        if task is not None and not task.done():
            self.rec("cancel", t=t)
            task.cancel()

    # ---- the network
    def _io_deliver(self, kind: str, code: int) -> None:
        if self.sess.deliver(kind, code):
            self.rec("rx", k=kind, code=code)

    def _io_eof(self) -> None:
        if not self.tr.closing:
            self.rec("eof")
            self.sess.eof()

    def peer(self, kind: str, code: int = PEER_CODE) -> None:
        self.script.append(["peer", kind, code])
        self.bl.io(self._io_deliver, kind, code if kind == "close" else 0)

    def peer_eof(self) -> None:
        self.script.append(["eof"])
        self.bl.io(self._io_eof)

    def settle(self) -> None:
        self.script.append(["settle"])
        self.bl.settle()

    def local_close(self) -> None:
        self.script.append(["local_close"])
        if not self.tr.closing:
            self.rec("localclose")
            self.sess.local_close()

    def session_close(self) -> None:
        """client only: another task closes the ClientSession (-> connector -> ResponseHandler.close())."""
        self.script.append(["session_close"])
        if self.side != "client" or "X" in self.tasks:
            return
        self.rec("localclose")

        async def _x() -> None:
            await self.sess.kit.session.close()

        task = self.loop.create_task(_x())
        self.tasks["X"] = task
        self.names[task] = "X"

    def pause(self) -> None:
        self.script.append(["pause"])
        if not self.tr.closing and not self.tr.write_paused:
            self.rec("pause")
            self.sess.pause_writing()

    def _io_resume(self) -> None:
        if self.tr.write_paused:
            self.rec("resume")
            self.sess.resume_writing()

    def resume(self) -> None:
        self.script.append(["resume"])
        self.bl.io(self._io_resume)

    def drop(self) -> None:
        self.script.append(["drop"])
        if not self.tr.closing:
            self.rec("drop")
            self.sess.drop()

    def tick(self) -> List[str]:
        self.script.append(["tick"])
        labs = self.bl.tick(1.0)
        self.rec("tick")
        return labs

    def step(self) -> Optional[str]:
        self.script.append(["step"])
        return self.bl.step()

    def run_script(self, script: List[list]) -> None:
        for a in script:
            getattr(self, {"eof": "peer_eof"}.get(a[0], a[0]))(*a[1:])

    # ---- end of the execution
    def _run_out(self) -> None:
        """Nothing more comes from the peer or the application: run until nothing is runnable and every
        timer up to the horizon (close + receive timeout + two heartbeat periods) has fired."""
        o = self.opts
        self.bl.settle()
        horizon = self.now() + o["close_timeout"] + o["recv_timeout"] + 2 * o["heartbeat"] + 3
        while self.now() < horizon and self.loop.next_timer() is not None and self.loop.next_timer() <= horizon:
            self.tick()
            self.bl.settle()

    def finish(self) -> dict:
        o = self.opts
        self.bl.settle()
        if self.tr.write_paused:        # back-pressure never outlasts the schedule
            self.resume()
        self._run_out()
        # probe: if the session is still open and nobody is inside receive(), one more receive() is issued, so
        # that "receive() never blocks forever" is put to the test in every execution (silent peer from here on)
        if not self.ws.closed and "receive" not in self.cur.values() and not self.no_probe:
            self.spawn("Rp")
            self._run_out()
        for t, task in self.tasks.items():
            if not task.done() and t in self.cur:
                self.rec("blocked", t=t, k=self.cur[t])
        exc = self.ws.exception()
        # reports made at garbage-collection time belong to whatever object happened to be freed
        # (possibly of an earlier execution): not an observable of this execution
        gc_family = ("Unclosed", "Task exception was never retrieved", "Future exception was never retrieved",
                     "Task was destroyed")
        ctxs = [c for c in self.loop.exc_contexts if not str(c.get("message", "")).startswith(gc_family)]
        self.rec("quiesce", info=type(exc).__name__ if exc is not None else "", n=len(ctxs))
        self.exc_messages = [str(c.get("message")) + ":" + repr(c.get("exception")) for c in ctxs]
        self.finished = True
        return {"cfg": {"side": self.side, "closeTimeout": o["close_timeout"], "heartbeat": o["heartbeat"]},
                "src": "", "events": self.events,
                "opts": dict(o), "excs": self.exc_messages[:3], "script": list(self.script)}

    def teardown(self) -> None:
        for task in self.tasks.values():
            if not task.done():
                task.cancel()
        self.loop.run_until_idle()
        for task in self.tasks.values():
            if task.done() and not task.cancelled():
                task.exception()
        self.sess.teardown()
        self.loop._ready.clear()
        self.loop._scheduled.clear()
        self.loop.exc_contexts.clear()


# ---------------------------------------------------------------- spec -> code
_re_edge = re.compile(r'^(-?\d+) -> (-?\d+) \[label="((?:[^"\\]|\\.)*)"')


def cover_behaviours(module: str, cfg: str, *, timeout: float = 600, workers: int = 8) -> Tuple[List[List[Tuple[str, dict]]], Any]:
    """engine.tlc.cover_behaviours with edge labels that may contain quoted strings (Step("R"))."""
    import shutil

    d = mktemp("dot")
    try:
        dot = os.path.join(d, "graph.dot")
        res = run_tlc(module, cfg, workers=workers, timeout=timeout, dump_dot=dot, deadlock=False)
        require_clean(res, f"dump {module}")
        if not os.path.exists(dot):
            raise MachineryError(f"TLC wrote no state graph for {module}")
        nodes, _edges, inits = parse_dot(dot)
        edges = []
        for ln in open(dot):
            m = _re_edge.match(ln)
            if m:
                edges.append((m.group(1), m.group(2), m.group(3).replace('\\"', '"')))
        behs = []
        for p in transition_cover(nodes, edges, inits):
            if p:
                behs.append([("Init", nodes[p[0][0]])] + [(lab, nodes[dst]) for (_s, dst, lab) in p])
        return behs, res
    finally:
        shutil.rmtree(d, ignore_errors=True)


_act = re.compile(r"(\w+)(?:\((.*)\))?$")


def parse_action(label: str) -> Tuple[str, List[str]]:
    m = _act.match(label.replace("\\", "").strip())
    if not m:
        return label, []
    args = [a.strip().strip('"') for a in m.group(2).split(",")] if m.group(2) else []
    return m.group(1), args


def _seq(x: Any) -> list:
    return list(x) if isinstance(x, (list, tuple)) else []


def model_projection(ms: dict) -> dict:
    return {"closed": bool(ms["closed"]), "closing": bool(ms["closing"]), "code": int(ms["code"]),
            "waiting": bool(ms["waiting"]), "tclosing": bool(ms["tclosing"]), "lost": bool(ms["lost"]),
            "paused": bool(ms["paused"])}


def replay_behaviour(ctx: Ctx, loop: Any, beh: List[Any], consts: dict, src: str) -> dict:
    x = WsExec(loop, consts["side"], autoclose=consts["autoclose"], autoping=True, heartbeat=consts["hb"],
               recv_timeout=consts["rt"], close_timeout=consts["ct"], nrecv=consts["nrecv"],
               compress=consts.get("compress", False))
    drift: Optional[str] = None
    for label, st in beh[1:]:
        act, args = parse_action(label)
        ms = st.get("s") if isinstance(st, dict) else None
        if not isinstance(ms, dict):
            raise MachineryError(f"cannot read model state after {label}")
        if act == "Step":
            want = args[0]
            if x.bl.at_boundary():
                x.bl.begin()
            got = x.bl.head()
            if got != want:
                drift = f"ready-order:{want}!={got}"
                break
            x.step()
        elif act == "Spawn":
            x.spawn(args[0])
        elif act == "Cancel":
            x.cancel(args[0])
        elif act == "PeerFrame":
            if not x.bl.at_boundary():
                drift = "boundary:PeerFrame"
                break
            x.peer(args[0])
        elif act == "DropConnection":
            if not x.bl.at_boundary():
                drift = "boundary:Drop"
                break
            x.drop()
        elif act == "LocalClose":
            x.local_close()
        elif act == "PauseWriting":
            x.pause()
        elif act == "ResumeWriting":
            if not x.bl.at_boundary():
                drift = "boundary:Resume"
                break
            x.resume()
        elif act == "Tick":
            if not x.bl.at_boundary():
                drift = "boundary:Tick"
                break
            x.tick()
            want_ready = [e for e in _seq(ms["ready"]) if e != "|"]
            got_ready = [x.bl.label(h) for h in x.bl.live()]
            if want_ready != got_ready:
                drift = "timer-order" if sorted(want_ready) == sorted(got_ready) else f"ready-after-tick:{want_ready}!={got_ready}"
                break
        else:
            raise MachineryError(f"unknown model action {label}")
        ctx.action_cover[act] = ctx.action_cover.get(act, 0) + 1
        # refinement: private flags and the results predicted by the model (drift only)
        pv = x.priv()
        if pv:
            mp = model_projection(ms)
            diff = [k for k in mp if mp[k] != pv.get(k)]
            if diff:
                drift = f"state:{act}:{diff[0]}"
                break
            mres = {t: _seq(r) for t, r in ms["res"].items()}
            for t in ("R", "C", "D", "S", "B"):
                if mres.get(t, []) != x.res.get(t, []):
                    drift = f"result:{t}:{mres.get(t)}!={x.res.get(t)}"
                    break
            if drift:
                break
    if drift:
        parts = drift.split(":")
        ctx.drift(parts[0] if parts[0] in ("ready-order", "ready-after-tick", "result", "timer-order") else ":".join(parts[:3]))
        kind = drift.split(":")[0]
        exs = ctx.extra.setdefault("drift_examples", {})
        if kind not in exs:        # one example per kind of drift
            exs[kind] = {"drift": drift, "side": consts["side"], "actions": [a for a, _ in beh[1:]][:60]}
    tr = x.finish()
    tr["src"] = src
    tr["followed"] = drift is None
    x.teardown()
    return tr


# ---------------------------------------------------------------- random schedules
def random_exec(ctx: Ctx, loop: Any, rng: Any) -> dict:
    side = rng.choice(["server", "client"])
    hb = rng.choice([0, 0, 0, 2, 4])
    rt = rng.choice([0, 0, 1, 1, 3])
    ct = rng.choice([2, 2, 3])
    compress = rng.random() < 0.3
    x = WsExec(loop, side, autoclose=rng.random() < 0.7, autoping=rng.random() < 0.8, heartbeat=hb,
               recv_timeout=rt, close_timeout=ct, nrecv=rng.randint(1, 4), compress=compress)
    pool = ["R", "C", "S"] + (["C2"] if rng.random() < 0.3 else []) + (["S2"] if rng.random() < 0.2 else [])
    if compress:
        pool += ["B"] + (["B2"] if rng.random() < 0.3 else [])     # large sends: deflated in the executor
    if rng.random() < 0.4:
        pool.append("R2")                 # a second receiver, started once the first one is gone
    if rng.random() < 0.25:
        pool.remove("C")                  # nobody closes: the session stays open unless the peer / timers end it
    unspawned = list(pool)
    polite = rng.random() < 0.5          # the peer answers our close frame
    chatty = rng.random() < 0.35         # the peer keeps sending data (also while we are closing)
    peer_closed = False
    dropped = False
    ncancel = 0
    npause = 0
    code = rng.choice([PEER_CODE, 1001, 3000])
    for _ in range(rng.randint(6, 40)):
        bl = x.bl
        acts: List[Any] = []
        if not bl.idle():
            acts += ["step"] * 6
        r_alive = "R" in x.tasks and not x.tasks["R"].done()
        spawnable = [t for t in unspawned if t != "R2" or ("R" in x.tasks and not r_alive)]
        if spawnable:
            acts += ["spawn"] * 2
        at_b = bl.at_boundary()
        only_io = all(bl.label(h).startswith("io:") or bl.label(h) == "lost" for h in bl.live())
        can_peer = at_b and not x.tr.closing and not peer_closed and not dropped
        if can_peer:
            acts += ["frame"] * 2
            if polite and x.tx_close_seen:
                acts += ["answer"] * 4
            if chatty:
                acts += ["data"] * 3
            if rng.random() < 0.08:
                acts.append("drop")
            if rng.random() < 0.05:
                acts.append("eof")
        if not x.tr.closing and rng.random() < 0.06:
            acts.append("localclose")       # session.close() / protocol.close() / request.transport.close() by someone else
        if not x.tr.closing and not x.tr.write_paused and npause < 2 and rng.random() < 0.10:
            acts.append("pause")            # write back-pressure begins
        if x.tr.write_paused and at_b:
            acts += ["resume"] * 2
        if at_b and only_io and x.now() < 12 and not x.tr.write_paused:
            acts += ["tick"] * (3 if bl.idle() else 1)
            nt = x.loop.next_timer()
            if can_peer and nt is not None and nt <= x.loop.time() + 1.0:
                acts += ["frame+tick"] * 5      # a frame and a timer deadline handled in the same loop iteration
        if ncancel < 1 and rng.random() < 0.12:
            live = [t for t, tk in x.tasks.items() if not tk.done()]
            if live:
                acts.append(("cancel", rng.choice(live)))
        if not acts:
            break
        a = rng.choice(acts)
        if a == "step":
            x.step()
        elif a == "spawn":
            t = rng.choice(spawnable)
            unspawned.remove(t)
            x.spawn(t)
        elif a == "frame+tick":
            x.peer(rng.choice(["data", "data", "pong", "ping"]))
            x.tick()
        elif a == "frame":
            k = rng.choice(["data", "data", "ping", "pong", "close", "bad"] if rng.random() < 0.5 else ["data", "ping", "close"])
            x.peer(k, code)
            peer_closed = peer_closed or k == "close"
        elif a == "answer":
            x.peer("close", code)
            peer_closed = True
        elif a == "data":
            x.peer("data")
        elif a == "drop":
            x.drop()
            dropped = True
        elif a == "eof":
            x.peer_eof()
            dropped = True
        elif a == "localclose":
            if side == "client" and rng.random() < 0.5:
                x.session_close()
            else:
                x.local_close()
            dropped = True
        elif a == "pause":
            x.pause()
            npause += 1
        elif a == "resume":
            x.resume()
        elif a == "tick":
            x.tick()
            if chatty and not x.tr.closing and not peer_closed and not dropped and x.bl.at_boundary():
                x.peer("data")
        else:
            x.cancel(a[1])
            ncancel += 1
    # a chatty peer goes on for a while after the schedule proper (one frame per virtual second)
    if x.tr.write_paused:          # assumption: back-pressure does not span virtual time
        x.settle()
        x.resume()
    if chatty and not peer_closed and not dropped:
        for _ in range(rng.randint(0, 2 * ct + 1)):
            x.settle()
            if x.tr.closing:
                break
            x.peer("data")
            x.settle()
            x.tick()
    # a peer that ends the session cleanly once the schedule proper is over
    if rng.random() < 0.4 and not peer_closed and not dropped:
        x.settle()
        if not x.tr.closing:
            x.peer("close", code)
    tr = x.finish()
    tr["src"] = "random"
    x.teardown()
    return tr


# ---------------------------------------------------------------- configs
CFG = """SPECIFICATION Spec
CONSTANTS
  Side = "{side}"
  AutoClose = {ac}
  AutoPing = TRUE
  NRecv = {nrecv}
  RecvTimeout = {rt}
  CloseTimeout = {ct}
  Heartbeat = {hb}
  MaxTime = {mt}
  TaskSet = {tasks}
  PeerKinds = {kinds}
  MaxPeer = {mp}
  MaxDrop = {md}
  MaxCancel = {mc}
  MaxLocalClose = {lc}
  MaxPause = {pz}
  FixRearm = {fr}
  FixShortcut = {fs}
  FixCwCancel = {fc}
  FixEofCode = {fe}
  MutNoFinally = {m1}
  MutNoWriterClosing = {m2}
{invs}
CHECK_DEADLOCK FALSE
"""

ALL_INVS = ["OneCloseFrame", "NoDataAfterClose", "ClosedClosesTransport", "CloseCodeRule", "ReceiveNotStuck",
            "CloserNotStuck", "CloseBounded", "CloseWaitResolved", "NoInternalAssert"]
# The code as it is now: FixRearm, FixCwCancel and FixEofCode were repaired in /repo by `fix:` commits
# (known_findings.json); only the server's close() short-cut (FixShortcut) is still as found, so only
# that named deviation is excluded from the general invariants.
CODE_NOW = {"fr": True, "fs": False, "fc": True, "fe": True}
ASCODED_INVS = {"server": ["OneCloseFrame", "NoDataAfterClose", "ClosedClosesTransport",
                           "CloseCodeRuleButShortcut", "ReceiveNotStuck", "CloserNotStuck", "CloseBounded",
                           "CloseWaitResolved", "NoInternalAssert"],
                "client": ["OneCloseFrame", "NoDataAfterClose", "ClosedClosesTransport", "CloseCodeRule",
                           "ReceiveNotStuck", "CloserNotStuck", "CloseBounded", "CloseWaitResolved", "NoInternalAssert"]}


def tla_set(xs: List[str]) -> str:
    return "{" + ", ".join(f'"{v}"' for v in xs) + "}"


def write_cfg(side: str, *, fixed: bool, invs: Optional[List[str]] = None, autoclose: bool = True, nrecv: int = 2,
              rt: int = 0, ct: int = 2, hb: int = 0, mt: int = 3, tasks: Tuple[str, ...] = ("R", "C"),
              kinds: Tuple[str, ...] = ("data", "close"), mp: int = 2, md: int = 1, mc: int = 1, lc: int = 0, pz: int = 0,
              fr: Optional[bool] = None, fs: Optional[bool] = None, fc: Optional[bool] = None, fe: Optional[bool] = None,
              m1: bool = False, m2: bool = False) -> Tuple[str, dict]:
    b = lambda v: "TRUE" if v else "FALSE"  # noqa: E731
    if invs is None:
        invs = ALL_INVS if fixed else ASCODED_INVS[side]
    d = mktemp("c13cfg")
    p = os.path.join(d, "WsSession.cfg")
    with open(p, "w") as f:
        f.write(CFG.format(side=side, ac=b(autoclose), nrecv=nrecv, rt=rt, ct=ct, hb=hb, mt=mt, tasks=tla_set(list(tasks)),
                           kinds=tla_set(list(kinds)), mp=mp, md=md, mc=mc, lc=lc, pz=pz,
                           fr=b((fixed or CODE_NOW["fr"]) if fr is None else fr),
                           fs=b((fixed or CODE_NOW["fs"]) if fs is None else fs),
                           fc=b((fixed or CODE_NOW["fc"]) if fc is None else fc),
                           fe=b((fixed or CODE_NOW["fe"]) if fe is None else fe), m1=b(m1), m2=b(m2),
                           invs="\n".join("INVARIANT " + i for i in invs)))
    consts = {"side": side, "autoclose": autoclose, "nrecv": nrecv, "rt": rt, "ct": ct, "hb": hb,
              "compress": "B" in tasks}
    return p, consts


def trace_signature(t: dict, pos: int) -> str:
    evs = t["events"][:pos + 1]
    keep = [f"{e['ev']}:{e['t'] or e['k']}{('=' + e['info']) if e['ev'] == 'ret' else ''}" for e in evs
            if e["ev"] in ("call", "ret", "rx", "drop", "eof", "cancel", "localclose", "pause")]
    return ",".join(keep[-8:])


def judge(ctx: Ctx, traces: List[dict], label: str, pool: Any = None) -> Any:
    """Let TLC judge a batch.  With a pool the TLC run happens in the background: the returned callable
    registers the verdicts (call it from the main thread, in submission order)."""
    if not traces:
        return lambda: None
    slim = [{"cfg": t["cfg"], "src": t["src"], "events": t["events"]} for t in traces]
    if pool is None:
        _account(ctx, traces, label, *validate_batch("WsSessionTrace", "WsSessionTrace.cfg", slim))
        return lambda: None
    fut = pool.submit(validate_batch, "WsSessionTrace", "WsSessionTrace.cfg", slim)
    return lambda: _account(ctx, traces, label, *fut.result())


def _account(ctx: Ctx, traces: List[dict], label: str, verdicts: Any, res: Any) -> None:
    ctx.add_trace_batch(len(traces), res)
    for t, v in zip(traces, verdicts):
        key = json.dumps([t["cfg"]["side"]] + [[e["ev"], e["t"], e["k"], e["info"]] for e in t["events"] if e["ev"] != "tick"])
        if len(t["events"]) >= 5:
            ctx.distinct.add(hash(key))
        if not v.ok:
            side = t["cfg"]["side"]
            ctx.violation(v.clause, f"{side}: {v.clause} after " + trace_signature(t, v.pos),
                          {"trace": {"cfg": t["cfg"], "src": t["src"], "events": t["events"], "opts": t.get("opts"),
                                     "excs": t.get("excs"), "script": t.get("script")},
                           "failed_at": v.pos, "label": label}, "trace")
    t0 = traces[0]
    ctx.sample({"src": t0["src"], "side": t0["cfg"]["side"],
                "events": [{k: e[k] for k in ("ev", "t", "k", "code", "now", "closed", "cc", "tcl", "info")}
                           for e in t0["events"][:14]]})


MODEL_DEVIATIONS = [
    # (side, invariant expected to fail on the code as found, clause reported, Fix flag, write_cfg overrides)
    ("server", "CloseCodeRule", "CloseCode1000WithoutPeerClose", "fs", dict(fc=True, fe=True)),
    ("server", "ClosedClosesTransport", "CancelledCloseSkipsCleanup", "fc", dict(fs=True, fe=True)),
    ("server", "CloseCodeRule", "CloseCodeOverwrittenAfterClose", "fe", dict(fs=True, fc=True)),
    ("client", "CloseBounded", "CloseTimeoutRearmedByTraffic", "fr", dict(mt=4, mp=3)),
]


def run(ctx: Ctx) -> None:
    from concurrent.futures import ThreadPoolExecutor

    ctx.rule = ("executions = transition-cover behaviours of WsSession (every edge of the small model's state graph, both "
                "sides) + TLC-simulated behaviours of larger configurations replayed into a real WebSocketResponse "
                "(through RequestHandler) / ClientWebSocketResponse (through ClientSession.ws_connect) against a scripted "
                "peer + seeded random schedules (autoclose/autoping off, receive timeout, heartbeat, second closer/sender, "
                "chatty / polite / silent peers, drop, EOF, cancel); distinct = different event sequences of >= 5 events")
    ctx.assumptions = [
        "virtual time: the clock advances only when the loop is idle (apart from network events arriving at that instant)",
        "write back-pressure (pause_writing / resume_writing) never spans virtual time: a close() waiting in drain() is "
        "resumed, cancelled or cut before the clock advances (on the server drain() is outside the close timeout); compression only for the large-message sender B, whose "
        "executor job completes as a loop handle (never delayed across virtual time)",
        "network events enter at _run_once boundaries, application spawn/cancel anywhere between two handles",
        "peer close codes differ from 1000 so that a made-up 1000 is distinguishable from the peer's code",
    ]
    loop = steploop.new_loop()
    enable_eager(loop)
    pool = ThreadPoolExecutor(max_workers=ctx.pick(16, 6))
    # ---- 1. models (run concurrently with the replays below; results are registered in a fixed order).
    # They are submitted AFTER the dumps and simulations the replays wait for.
    model_specs: List[Tuple[str, str]] = []
    relevant = {"server": ("fs", "fc", "fe"), "client": ("fr", "fe")}
    for side in ("server", "client"):
        for fixed in (True, False):
            if not fixed and all(CODE_NOW[f] for f in relevant[side]):
                continue        # the code as it is now coincides with the ideal configuration of this side
            for kw in ctx.pick([dict()],
                               [dict(), dict(tasks=("R", "C", "S"), kinds=("data", "close", "ping", "bad"), rt=1),
                                dict(hb=2, mt=4, kinds=("data", "close", "pong"), mc=0),
                                dict(autoclose=False, nrecv=3, kinds=("data", "close"), mp=2),
                                dict(tasks=("R", "C", "B")),
                                dict(lc=1, pz=1), dict(hb=2, mt=4, autoclose=False, kinds=("close", "pong"), mc=0)]):
                p, _ = write_cfg(side, fixed=fixed, **kw)
                name = f"WsSession[{side},{'ideal' if fixed else 'as-coded'}]({','.join(f'{k}={v}' for k, v in kw.items())})"
                model_specs.append((name, p))
    dev_specs = []
    for side, inv, clause, flag, kw in MODEL_DEVIATIONS:
        if CODE_NOW[flag]:
            continue            # repaired in the code: the as-coded model no longer has this deviation
        p, _ = write_cfg(side, fixed=False, invs=[inv], **kw)
        dev_specs.append((side, inv, clause, p))
    # ---- 2. spec -> code: state-graph dumps and simulations are produced in the pool, replayed here
    cover_jobs = []
    sim_jobs = []
    for side in ("server", "client"):
        hb_cover = dict(hb=2, mt=4, mp=2, mc=0, md=0, kinds=("data", "pong"), tasks=("R",))
        big_cover = dict(tasks=("C", "B"), kinds=("close",), mp=0, mt=1, mc=1, md=0)
        # connection torn down from our own side; write back-pressure around close(); heartbeat with autoclose off
        lc_cover = dict(tasks=("R", "C"), mp=1, mt=1, mc=0, md=0, lc=1)
        pz_cover = dict(tasks=("C",), kinds=("close",), mp=1, mt=1, mc=1, md=1, pz=1)
        hbc_cover = dict(hb=2, mt=4, mp=1, mc=0, md=0, kinds=("close",), tasks=("R", "C"), autoclose=False, nrecv=1)
        cover_cfgs = ctx.pick([dict(mp=1, mt=2, mc=0, md=1), dict(mp=1, mt=2, mc=1, md=0), hb_cover, big_cover,
                               lc_cover, pz_cover, hbc_cover],
                              [dict(mp=1, mt=2, mc=1, md=1), dict(mp=2, mt=3, mc=0, md=1), dict(mp=1, mt=3, mc=1, md=0, rt=1),
                               hb_cover, dict(tasks=("C", "B"), kinds=("close",), mp=1, mt=2, mc=1, md=1),
                               lc_cover, dict(tasks=("R", "C"), kinds=("close",), mp=1, mt=2, mc=1, md=1, pz=1), hbc_cover])
        for ck in cover_cfgs:
            if ck.get("pz") and side == "client":
                continue        # only the server's close() drains: on the client a write pause changes nothing
            p, consts = write_cfg(side, fixed=False, **ck)
            cover_jobs.append((side, ck, consts, pool.submit(cover_behaviours, "WsSession", p, timeout=2400, workers=1)))
        for kw in (dict(tasks=("R", "C", "S"), kinds=("data", "close", "ping", "bad"), rt=1, mp=3, mt=4),
                   dict(hb=2, mt=5, kinds=("data", "close", "pong"), mp=3),
                   dict(autoclose=False, nrecv=3, mp=3, mt=4),
                   dict(tasks=("R", "C", "D"), kinds=("data", "close", "ping"), mp=3, mt=4, invs=["NoInternalAssert"]),
                   dict(tasks=("R", "C", "B"), kinds=("data", "close"), mp=2, mt=3),
                   dict(tasks=("R", "C"), kinds=("data", "close"), rt=1, nrecv=3, mp=3, mt=5),
                   dict(tasks=("R", "C"), kinds=("data", "close"), mp=2, mt=3, lc=1, pz=1),
                   dict(hb=2, mt=6, autoclose=False, kinds=("data", "close", "pong"), mp=3)):
            p, consts = write_cfg(side, fixed=False, **kw)
            sim_jobs.append((side, consts, pool.submit(simulate_behaviours, "WsSession", p, num=ctx.pick(40, 1500), depth=40,
                                                       seed=ctx.seed, timeout=600)))
    model_jobs = [(name, pool.submit(run_tlc, "WsSession", p, workers=16, timeout=ctx.pick(900, 2400), deadlock=False))
                  for name, p in model_specs]
    dev_jobs = [(side, inv, clause, pool.submit(run_tlc, "WsSession", p, workers=4, timeout=600, deadlock=False))
                for side, inv, clause, p in dev_specs]
    traces: List[dict] = []
    pending: List[Any] = []
    followed = 0
    for side, ck, consts, fut in cover_jobs:
        behs, cres = fut.result()
        ctx.expect_model_ok(f"WsSession[{side},as-coded,cover]({','.join(f'{k}={v}' for k, v in ck.items())})", cres)
        ctx.extra.setdefault("transition_cover", []).append(
            {"side": side, "cfg": ck, "states": cres.distinct, "paths": len(behs),
             "edges_traversed": sum(len(b) - 1 for b in behs)})
        for b in behs:
            tr = replay_behaviour(ctx, loop, b, consts, "tlc-cover")
            followed += tr["followed"]
            traces.append(tr)
        ctx.log(f"{side}: replayed {len(behs)} transition-cover paths of {ck} ({cres.distinct} states)")
        if len(traces) >= 2500:
            pending.append(judge(ctx, traces, "tlc", pool))
            traces = []
    for side, consts, fut in sim_jobs:
        sims, _ = fut.result()
        for b in sims:
            tr = replay_behaviour(ctx, loop, b, consts, "tlc-sim")
            followed += tr["followed"]
            traces.append(tr)
    pending.append(judge(ctx, traces, "tlc", pool))
    ctx.extra["replays_followed_to_the_end"] = followed
    ctx.log(f"replays that followed the model to the end: {followed}; actions: {dict(ctx.action_cover)}; drift: {dict(ctx.drifts)}")
    # ---- 3. random schedules
    batch: List[dict] = []
    for _ in range(ctx.pick(2500, 40000)):
        batch.append(random_exec(ctx, loop, ctx.rng))
        if len(batch) >= 2500:
            pending.append(judge(ctx, batch, "random", pool))
            batch = []
    pending.append(judge(ctx, batch, "random", pool))
    for done in pending:
        done()
    # ---- 4. collect the model runs
    for name, fut in model_jobs:
        res = fut.result()
        ctx.expect_model_ok(name, res)
        ctx.log(f"{name}: {res.distinct} states, {res.wall_s:.0f}s, violated={res.violated}")
    # the code as found against the full invariants: TLC exhibits each named deviation
    for side, inv, clause, fut in dev_jobs:
        res = fut.result()
        require_clean(res, f"WsSession[{side}, as-coded, {inv}]")
        ctx.add_model(f"WsSession[{side},as-coded,{inv} alone -> {clause}]", res, exhaustive=False)
        if res.violated == inv:
            if any(v.clause == clause and v.source == "trace" for v in ctx.violations):
                ctx.violation(clause, f"{side}: model: " + " ".join(a for a, _ in res.trace[1:]),
                              {"model_trace": [a for a, _ in res.trace]}, "model")
            else:
                # the as-coded model still deviates but no execution of the code did: the code was repaired
                # (then the Fix* constant of the as-coded configuration is stale) - not a violation
                ctx.drift(f"as-coded-model-stale:{clause}")
        elif res.violated:
            ctx.violation(f"model:{res.violated}", f"{side}: as-coded model", {"model_trace": [a for a, _ in res.trace]}, "model")
    pool.shutdown()
    import collections
    by = collections.Counter((v.clause, v.source) for v in ctx.violations)
    ctx.extra["violations_by_clause"] = {f"{c}/{s}": n for (c, s), n in sorted(by.items())}
    ctx.log(f"violations by clause/source: {ctx.extra['violations_by_clause']}")
    # one representative per clause and source first (the runner stores replays for the first few only);
    # among the recorded executions the shortest one is the representative
    reps, rest, seen = [], [], set()
    order = sorted(range(len(ctx.violations)),
                   key=lambda i: len((ctx.violations[i].detail or {}).get("trace", {}).get("events", [])) or 10 ** 6)
    for i in order:
        v = ctx.violations[i]
        if (v.clause, v.source) in seen:
            rest.append(i)
        else:
            seen.add((v.clause, v.source))
            reps.append(i)
    ctx.violations[:] = [ctx.violations[i] for i in sorted(reps, key=lambda i: (ctx.violations[i].clause, ctx.violations[i].source))] + \
                        [ctx.violations[i] for i in sorted(rest)]
    ctx.evaluations = ctx.traces
    ctx.extra["replay_action_counts"] = dict(ctx.action_cover)
    loop.uninstall()


# ---------------------------------------------------------------- selftest / replay
def _good_trace(loop: Any, side: str) -> dict:
    x = WsExec(loop, side, close_timeout=2, nrecv=1)
    x.spawn("S")
    x.bl.settle()
    x.spawn("C")
    x.bl.settle()
    x.peer("close")
    x.bl.settle()
    tr = x.finish()
    tr["src"] = "selftest"
    x.teardown()
    return tr


def selftest(ctx: Ctx) -> int:
    loop = steploop.new_loop()
    enable_eager(loop)
    ok = True
    # (ii) spec-level mutants
    for side in ("server", "client"):
        p, _ = write_cfg(side, fixed=True, m1=True)
        r1 = run_tlc("WsSession", p, workers=8, timeout=300, deadlock=False)
        p, _ = write_cfg(side, fixed=True, m2=True, tasks=("R", "C", "S"))
        r2 = run_tlc("WsSession", p, workers=8, timeout=300, deadlock=False)
        print(f"{side}: mutant MutNoFinally -> {r1.violated}; mutant MutNoWriterClosing -> {r2.violated}")
        ok = ok and r1.violated in ("CloseWaitResolved", "CloserNotStuck", "CloseBounded") and r2.violated == "NoDataAfterClose"
    # (i) corrupted recorded traces
    for side in ("server", "client"):
        good = _good_trace(loop, side)
        muts = []
        b = copy.deepcopy(good)          # a second close frame on the wire
        i = next(k for k, e in enumerate(b["events"]) if e["ev"] == "tx" and e["k"] == "close")
        b["events"].insert(i + 1, copy.deepcopy(b["events"][i]))
        muts.append(("OneCloseFrame", b))
        b = copy.deepcopy(good)          # a data frame after the close frame
        e2 = copy.deepcopy(b["events"][i])
        e2["k"] = "data"
        b["events"].insert(i + 1, e2)
        muts.append(("NoDataAfterClose", b))
        b = copy.deepcopy(good)          # the peer's close frame dropped from the record: code unexplained
        b["events"] = [e for e in b["events"] if not (e["ev"] == "rx" and e["k"] == "close")]
        muts.append(("CloseCodeRule", b))
        b = copy.deepcopy(good)          # transport reported open at quiescence
        b["events"][-1]["tcl"] = False
        muts.append(("ClosedClosesTransport", b))
        b = copy.deepcopy(good)          # close() returned late
        for e in b["events"]:
            if e["ev"] == "ret" and e["k"] == "close":
                e["now"] += 5
        muts.append(("CloseBounded", b))
        b = copy.deepcopy(good)          # heartbeat on, session open, a receive() still blocked after the horizon
        b["cfg"]["heartbeat"] = 2
        q = b["events"][-1]
        q.update(closed=False, cc=0, tcl=False)
        blk = dict(FIELDS)
        blk.update(ev="blocked", t="Rp", k="receive", now=q["now"])
        b["events"].insert(len(b["events"]) - 1, blk)
        muts.append(("ReceiveNotStuck", b))
        for seen, want in ((True, "CloseCodeRule"), (False, "")):
            # a receive() timed out earlier (session stayed open); final code 1006: excused only as long as the
            # application was not handed the peer's Close frame
            b = copy.deepcopy(good)
            j = next(k for k, e in enumerate(b["events"]) if e["ev"] == "rx" and e["k"] == "close")
            extra = []
            for info, code in (("Timeout", 0),) + ((("CLOSE", PEER_CODE),) if seen else ()):
                e3 = dict(FIELDS)
                e3.update(ev="ret", t="R", k="receive", info=info, code=code)
                extra.append(e3)
            b["events"][j + 1:j + 1] = extra
            for e4 in b["events"][j:]:
                if e4["cc"]:
                    e4["cc"] = 1006
            muts.append((want, b))
        vs, _ = validate_batch("WsSessionTrace", "WsSessionTrace.cfg", [good] + [m for _, m in muts])
        print(side, [(v.ok, v.clause, v.pos) for v in vs])
        ok = ok and vs[0].ok and all(v.clause == want for v, (want, _) in zip(vs[1:], muts))
    print("selftest", "passed" if ok else "FAILED")
    return 0 if ok else 2


def replay(ctx: Ctx, path: str) -> int:
    payload = json.load(open(path))
    t = payload["detail"].get("trace")
    if not isinstance(t, dict) or "events" not in t:
        print("replay: model counterexample:", " ".join(payload["detail"].get("model_trace", [])))
        print("re-run the check to reproduce it with TLC")
        return 0
    show = ("ev", "t", "k", "code", "now", "closed", "cc", "tcl", "info")
    if t.get("script") and t.get("opts"):
        # re-execute the recorded driver actions against the real code, then let TLC judge the new record
        loop = steploop.new_loop()
        enable_eager(loop)
        x = WsExec(loop, t["cfg"]["side"], **t["opts"])
        x.run_script([a for a in t["script"] if a != ["spawn", "Rp"]])
        new = x.finish()
        x.teardown()
        same = [{k: e[k] for k in show} for e in new["events"]] == [{k: e[k] for k in show} for e in t["events"]]
        print(f"replay: re-executed {len(t['script'])} driver actions on the real {t['cfg']['side']} class; "
              f"record identical to the stored one: {same}")
        t = {"cfg": new["cfg"], "src": "replay", "events": new["events"], "opts": t["opts"]}
    vs, _ = validate_batch("WsSessionTrace", "WsSessionTrace.cfg", [{"cfg": t["cfg"], "src": t["src"], "events": t["events"]}])
    v = vs[0]
    print(f"verdict: ok={v.ok} clause={v.clause!r} pos={v.pos}/{v.total} cfg={t['cfg']} opts={t.get('opts')}")
    for e in t["events"][:v.pos + 1]:
        print("  ", {k: e[k] for k in show if e[k] not in ("", 0, False) or k == "ev"})
    if not v.ok:
        print(f"VIOLATION property=C13 replay={path}")
        return 1
    return 0
