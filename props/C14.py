"""C14 - URL dispatch follows the documented resolution rule.

spec/UrlDispatch.tla      reference machine (documented lookup rule on template structure)
spec/UrlDispatchMC.tla    bounded model: all tables of <= N entries x all queries; the reference's
                          own properties are TLC invariants; prints the grammar it enumerates
spec/UrlDispatchTrace.tla oracle: judges what the real router / url_for / normalize_path_middleware did

Drivers (all judged by TLC through UrlDispatchTrace):
  A  every (table, query) state of the model (quick: stratified seeded sample) replayed into a real
     web.Application (add_route / add_static / add_subapp / add_domain in registration order, freeze,
     `await app.router.resolve(make_mocked_request(...))`)
  B  odd spellings of the model paths (percent-encodings, %2F, %25, non-ASCII, doubled / empty
     segments) and tables whose literal segment is renamed to text that needs quoting; requests are
     built by the real HttpRequestParser from request-line bytes
  C  url_for inverse for dynamic templates x value classes
  D  normalize_path_middleware, all legal option combinations, hostile targets
"""
from __future__ import annotations

import asyncio
import concurrent.futures
import copy
import json
import os
import time
from typing import Any, Dict, List, Optional, Tuple
from unittest import mock

from engine.gen import urls as G
from engine.runner import Ctx
from engine.tlc import MachineryError, mktemp, require_clean, run_tlc, validate_batch

OTHER_HOST = "other.example"
TRACE_MOD = "UrlDispatchTrace"
TRACE_CFG = "UrlDispatchTrace.cfg"

DEV_TEXT = {
    "Dev_SubAppDropsAllowed":
        "404/405 answered by a prefixed sub-application discards the methods allowed by the parent's "
        "path-matching resources consulted before it (405 set incomplete / 404 although a resource matches)",
    "Dev_UrlForUnquotedSubAppPrefix":
        "url_for() of a resource inside a sub-application whose prefix needs percent-quoting returns the prefix "
        "unquoted (raw space / non-ASCII): not a valid request-target",
    "Dev_QuotedLiteralUnreachable":
        "dynamic resource / static prefix / sub-app prefix whose literal text needs percent-quoting "
        "(space, non-ASCII) never matches: pattern and index key are kept quoted but compared with the decoded path",
}

MODEL_CFG = """SPECIFICATION Spec
CONSTANTS
  DomainFirst = TRUE
  MaxEntries = {n}
  Rich = {rich}
  Core = {core}
  EmitGrammar = {emit}
  GrammarOnly = {gonly}
  Mutant = "{mutant}"
INVARIANT InvFixedBeatsVariable
INVARIANT InvLongestKeyFirst
INVARIANT InvRegistrationOrder
INVARIANT InvVars
INVARIANT InvNotAllowedIsComplete
INVARIANT InvDeterministic
INVARIANT InvValid
CHECK_DEADLOCK FALSE
"""


def write_cfg(n: int, rich: bool, emit: bool, mutant: str = "", gonly: bool = False, core: bool = False) -> str:
    d = mktemp("c14cfg")
    p = os.path.join(d, f"UrlDispatchMC_{n}.cfg")
    with open(p, "w") as f:
        f.write(MODEL_CFG.format(n=n, rich=str(rich).upper(), emit=str(emit).upper(), mutant=mutant,
                                 gonly=str(gonly).upper(), core=str(core).upper()))
    return p


# ---------------------------------------------------------------- binding to the real router
class Bound:
    """A route table built into a real, frozen web.Application."""

    def __init__(self, table: List[dict], static_dir: str, middlewares: Tuple[Any, ...] = ()) -> None:
        from aiohttp import web

        self.web = web
        self.table = table
        self.static_dir = static_dir
        self.routes: Dict[int, int] = {}          # id(route object) -> entry number (1-based)
        self.route_objs: Dict[int, Any] = {}      # entry number -> first route object
        self.error: Optional[str] = None
        try:
            self.app = self._build("", [], middlewares)
            self.app.freeze()
        except Exception as exc:  # noqa: BLE001   registration refused: recorded, judged by the spec
            self.error = f"{type(exc).__name__}: {exc}"

    def _handler(self, i: int) -> Any:
        web = self.web

        async def handler(request: Any) -> Any:
            return web.Response(text=str(i))

        handler.marker = i  # type: ignore[attr-defined]
        return handler

    def _build(self, dom: str, ap: List[Any], middlewares: Tuple[Any, ...] = ()) -> Any:
        web = self.web
        app = web.Application(middlewares=list(middlewares))
        children: List[Any] = []
        domains: List[str] = []
        for i, e in enumerate(self.table, 1):
            if e["domain"] == dom and e["app"][:len(ap)] == ap:
                if len(e["app"]) == len(ap):
                    tpl = e["tpl"]
                    if G.is_static(tpl):
                        res = app.router.add_static(G.render_template(tpl), self.static_dir)
                        for r in res:
                            self.routes[id(r)] = i
                            self.route_objs.setdefault(i, r)
                    else:
                        h = self._handler(i)
                        for m in e["methods"]:
                            r = app.router.add_route(m, G.render_template(tpl), h)
                            self.routes[id(r)] = i
                            self.route_objs.setdefault(i, r)
                else:
                    child = e["app"][:len(ap) + 1]
                    if child not in children:
                        children.append(child)
                        app.add_subapp(G.render_prefix(child[-1]), self._build(dom, child))
            elif dom == "" and not ap and e["domain"] and e["domain"] not in domains:
                domains.append(e["domain"])
                app.add_domain(e["domain"], self._build(e["domain"], []))
        return app

    def observe(self, mi: Any) -> dict:
        exc = mi.http_exception
        if exc is None:
            i = self.routes.get(id(mi.route), -1)
            return {"t": "match", "i": i, "vars": sorted([k, G.cps(v)] for k, v in mi.items()), "allowed": []}
        if exc.status == 405:
            return {"t": "405", "i": 0, "vars": [], "allowed": sorted(exc.allowed_methods)}
        if exc.status == 404:
            return {"t": "404", "i": 0, "vars": [], "allowed": []}
        return {"t": str(exc.status), "i": 0, "vars": [], "allowed": []}


class Requests:
    """Request factories: make_mocked_request (as the test-suite does) and the real parser."""

    def __init__(self, loop: asyncio.AbstractEventLoop) -> None:
        self.loop = loop
        self.parser_errors = 0
        # router.resolve() only reads the request, so one request object per (method, target, host)
        # serves every table (make_mocked_request costs ~3 ms, the model asks the same ~200 questions
        # of thousands of tables)
        self.cache: Dict[Tuple[str, str, str, str], Any] = {}

    def get(self, how: str, method: str, target: str, host: str) -> Any:
        key = (how, method, target, host)
        if key not in self.cache:
            if len(self.cache) > 200000:
                self.cache.clear()
            # make_mocked_request parses the target with yarl.URL(target), which reads a leading "//" as an
            # authority; the server never does that (origin-form), so such targets go through the parser
            if how == "mocked" and not target.startswith("//"):
                self.cache[key] = self.mocked(method, target, host)
            else:
                self.cache[key] = self.parsed(method, target, host)
        return self.cache[key]

    def mocked(self, method: str, target: str, host: str, app: Any = None) -> Any:
        from aiohttp.test_utils import make_mocked_request

        kw = {"app": app} if app is not None else {}
        return make_mocked_request(method, target, headers={"Host": host}, loop=self.loop, **kw)

    def parsed(self, method: str, target: str, host: str, app: Any = None) -> Any:
        """Request built the way the server does: request-line bytes -> HttpRequestParser -> Request."""
        from aiohttp.base_protocol import BaseProtocol
        from aiohttp.http_parser import HttpRequestParser
        from aiohttp.web_request import Request

        parser = HttpRequestParser(BaseProtocol(self.loop), self.loop, 2 ** 16,
                                   max_line_size=8190, max_field_size=8190)
        raw = f"{method} {target} HTTP/1.1\r\nHost: {host}\r\n\r\n".encode("utf-8")
        try:
            msgs, _up, _tail = parser.feed_data(raw)
        except Exception:  # noqa: BLE001  target refused by the parser: no request reaches the router
            self.parser_errors += 1
            return None
        if not msgs:
            self.parser_errors += 1
            return None
        msg, payload = msgs[0]
        protocol = mock.Mock()
        writer = mock.Mock()
        writer.write_headers = mock.AsyncMock(return_value=None)
        writer.write = mock.AsyncMock(return_value=None)
        writer.write_eof = mock.AsyncMock(return_value=None)
        writer.drain = mock.AsyncMock(return_value=None)
        req = Request(msg, payload, protocol, writer, mock.Mock(), self.loop, client_max_size=1024 ** 2)
        if app is not None:
            base = self.mocked(method, "/", host, app)
            req._match_info = base._match_info
        return req


def ev_query(host: str, raw: str, method: str, obs: dict) -> dict:
    return {"ev": "Query", "host": G.cps(host), "raw": G.cps(raw), "method": method, "obs": obs}


def mk_trace(table: List[dict], src: str, events: List[dict]) -> dict:
    return {"cfg": {"table": table, "domains": [[d, G.cps(d)] for d in G.domains_of(table)]},
            "src": src, "events": events}


class Driver:
    def __init__(self, ctx: Ctx) -> None:
        self.ctx = ctx
        self.loop = asyncio.new_event_loop()
        asyncio.set_event_loop(self.loop)
        self.reqs = Requests(self.loop)
        self.static_dir = mktemp("c14static")
        with open(os.path.join(self.static_dir, "x"), "w") as f:
            f.write("x")

    def close(self) -> None:
        self.loop.close()
        asyncio.set_event_loop(None)

    def bind(self, table: List[dict], middlewares: Tuple[Any, ...] = ()) -> Bound:
        return Bound(table, self.static_dir, middlewares)

    def queries(self, b: Bound, qs: List[Tuple[str, str, str]], how: str) -> List[dict]:
        """Resolve every (host, raw target, method) against the frozen router."""
        async def go() -> List[dict]:
            out = []
            for host, raw, method in qs:
                req = self.reqs.get(how, method, raw, host)
                if req is None:
                    continue
                mi = await b.app.router.resolve(req)
                out.append(ev_query(host, raw, method, b.observe(mi)))
            return out

        return self.loop.run_until_complete(go())

    def url_for(self, b: Bound, idx: int, vals: Dict[str, str]) -> dict:
        async def go() -> dict:
            ev = {"ev": "UrlFor", "idx": idx, "vals": sorted([k, G.cps(v)] for k, v in vals.items()),
                  "raw": [], "host": G.cps(OTHER_HOST), "method": "GET",
                  "obs": {"t": "none", "i": 0, "vars": [], "allowed": []}}
            try:
                url = b.route_objs[idx].url_for(**vals)
                raw = url.raw_path
            except Exception as exc:  # noqa: BLE001
                ev["err"] = f"{type(exc).__name__}: {exc}"
                return ev
            ev["raw"] = G.cps(raw)
            req = self.reqs.parsed("GET", raw, OTHER_HOST)
            if req is None:
                ev["err"] = "parser refused the url_for() result"
                return ev
            ev["obs"] = b.observe(await b.app.router.resolve(req))
            return ev

        return self.loop.run_until_complete(go())

    def redirect(self, b: Bound, opts: Tuple[bool, bool, bool], target: str) -> Optional[dict]:
        web = b.web

        async def go() -> Optional[dict]:
            req = self.reqs.parsed("GET", target, OTHER_HOST, b.app)
            if req is None:
                return None
            ev = {"ev": "Redirect", "raw": G.cps(target), "host": G.cps(OTHER_HOST), "method": "GET",
                  "ap": opts[0], "rm": opts[1], "mg": opts[2], "status": 0, "hasloc": False, "loc": []}
            try:
                resp = await b.app._handle(req)
                ev["status"] = resp.status
                loc = resp.headers.get("Location")
            except web.HTTPException as exc:
                ev["status"] = exc.status
                loc = exc.headers.get("Location")
            except Exception as exc:  # noqa: BLE001  the middleware chain itself failed (a 500 on the wire)
                ev["status"] = 599
                ev["err"] = f"{type(exc).__name__}: {exc}"
                loc = None
            if loc is not None:
                ev["hasloc"] = True
                ev["loc"] = G.cps(loc)
            return ev

        return self.loop.run_until_complete(go())


# ---------------------------------------------------------------- judging
class Judge:
    def __init__(self, ctx: Ctx) -> None:
        self.ctx = ctx
        self.dstat = [0, 0, 0]
        self.found: Dict[str, List[Tuple[int, dict]]] = {}
        self.events = 0
        self.pending: List[dict] = []
        self.sampled_src: set = set()

    def add(self, traces: List[dict], label: str, flush_at: int = 10 ** 9) -> None:
        for t in traces:
            t["label"] = label
        self.pending += traces
        if sum(len(t["events"]) for t in self.pending) >= flush_at:
            self.flush()

    def flush(self) -> None:
        if self.pending:
            todo, self.pending = self.pending, []
            self.judge(todo, "+".join(sorted({t["label"] for t in todo})))

    def _one(self, traces: List[dict]) -> Tuple[List[Any], Any]:
        return validate_batch(TRACE_MOD, TRACE_CFG, traces, timeout=1500)

    def judge(self, traces: List[dict], label: str, per_jvm: int = 10000, par: int = 5) -> None:
        """One TLC run costs ~10 s of start-up and then judges a few thousand observations per second,
        so batches are large; several JVMs run side by side when there is enough to judge."""
        traces = [t for t in traces if t["events"]]
        if not traces:
            return
        total = sum(len(t["events"]) for t in traces)
        nparts = max(1, min(par, (total + per_jvm - 1) // per_jvm))
        parts: List[List[dict]] = [[] for _ in range(nparts)]
        for k, t in enumerate(traces):
            parts[k % nparts].append(t)
        parts = [p for p in parts if p]
        t0 = time.time()
        with concurrent.futures.ThreadPoolExecutor(max_workers=par) as ex:
            results = list(ex.map(self._one, parts))
        self.ctx.log(f"  TLC judged {total} observations of {len(traces)} tables ({label}) in {len(parts)} run(s), "
                     f"{time.time() - t0:.0f}s")
        for part, (verdicts, res) in zip(parts, results):
            if res.violated:
                raise MachineryError(f"trace validation ended abnormally ({res.violated}):\n"
                                     + "\n".join(res.output.splitlines()[-30:]))
            self.ctx.add_trace_batch(len(part), res)
            for t, v in zip(part, verdicts):
                self._verdict(t, v, t.get("label", label))
        for t in traces:
            if t["src"] not in self.sampled_src and len(t["events"]) >= 3:
                self.sampled_src.add(t["src"])
                self.ctx.sample({"src": t["src"], "table": G.describe_table(t["cfg"]["table"]),
                                 "events": [_short(e) for e in t["events"][:4]]})

    def _verdict(self, t: dict, v: Any, label: str) -> None:
        self.events += len(t["events"])
        info = v.info or [[], [], [0, 0, 0]]
        fails, devs, ds = info[0], info[1], info[2]
        for k in range(3):
            self.dstat[k] += ds[k]
        self.ctx.distinct.add(hash(json.dumps(t["cfg"]["table"], sort_keys=True)))
        if v.pos != v.total and not fails:
            fails = [[v.pos, "TraceNotConsumed"]]
        for pos, name in list(fails) + list(devs):
            ev = t["events"][pos - 1] if 1 <= pos <= len(t["events"]) else None
            size = len(t["cfg"]["table"]) * 1000 + (len(ev.get("raw", [])) if ev else 0)
            before = [[G.seg_str(x["host"]), G.seg_str(x["raw"]), x["method"]]
                      for x in t["events"][:max(pos - 1, 0)] if x["ev"] == "Query"] if ev and ev["ev"] == "Query" else []
            self.found.setdefault(name, []).append((size, {"table": t["cfg"]["table"], "event": ev, "src": t["src"],
                                                           "label": label, "clause": name, "asked_before": before}))

    def report(self) -> None:
        ctx = self.ctx
        for name, items in sorted(self.found.items()):
            items.sort(key=lambda x: x[0])
            ctx.notes.append(f"{name}: {len(items)} observation(s)")
            if name.startswith("Dev_"):
                parts = name.split("+")
                text = "; ".join(DEV_TEXT.get(p, p) for p in parts)
                d = items[0][1]
                ctx.violation(name, text, _detail(d), "trace")
                ctx.log(f"{name}: {len(items)} observation(s); smallest: {_describe(d)}")
            else:
                for _size, d in items[:3]:
                    ctx.violation(name, f"{name}: {_describe(d)}", _detail(d), "trace")
        nd, nt, nf = self.dstat
        ctx.extra["domain_first"] = {"discriminating_observations": nd, "as_DomainFirst_TRUE": nt,
                                     "as_DomainFirst_FALSE(docs)": nf}
        if nt and nf:
            ctx.violation("DomainOrderInconsistent",
                          f"domain sub-apps consulted first in {nt} and last in {nf} observations", None, "trace")
        elif nd:
            which = "before the index (DomainFirst = TRUE; docs step 3 says after)" if nt else \
                    "after the index (DomainFirst = FALSE, as docs step 3 says)"
            ctx.notes.append(f"doc/code discrepancy, not an alarm: the code consults domain sub-apps {which}; "
                             f"{nd} discriminating observations, all consistent")
        else:
            ctx.notes.append("no observation discriminated DomainFirst TRUE/FALSE")


def _short(e: dict) -> dict:
    d = {k: v for k, v in e.items() if k in ("ev", "method", "obs", "idx", "status", "ap", "rm", "mg")}
    d["raw"] = G.seg_str(e.get("raw", []))
    d["host"] = G.seg_str(e.get("host", []))
    if e.get("hasloc"):
        d["loc"] = G.seg_str(e["loc"])
    if "vals" in e:
        d["vals"] = [[k, G.seg_str(v)] for k, v in e["vals"]]
    if isinstance(d.get("obs"), dict):
        d["obs"] = dict(d["obs"], vars=[[k, G.seg_str(v)] for k, v in d["obs"]["vars"]])
    return d


def _describe(d: dict) -> str:
    e = d["event"]
    s = "table [" + G.describe_table(d["table"]) + "]"
    if e is None:
        return s
    if e["ev"] == "Redirect":
        return (f"{s} middleware(append={e['ap']},remove={e['rm']},merge={e['mg']}) GET {G.seg_str(e['raw'])!r} -> "
                f"{e['status']} Location={G.seg_str(e['loc'])!r}" + (f" ({e['err']})" if e.get("err") else ""))
    o = e["obs"]
    got = o["t"] if o["t"] != "match" else f"entry {o['i']} {dict((k, G.seg_str(v)) for k, v in o['vars'])}"
    if o["t"] == "405":
        got += " " + ",".join(o["allowed"])
    if e["ev"] == "UrlFor":
        vals = dict((k, G.seg_str(v)) for k, v in e["vals"])
        return f"{s} url_for({vals}) = {G.seg_str(e['raw'])!r} -> resolve -> {got}" + (f" ({e['err']})" if e.get("err") else "")
    return f"{s} {e['method']} {G.seg_str(e['raw'])!r} Host={G.seg_str(e['host'])} -> {got}"


def _detail(d: dict) -> dict:
    return {"table": d["table"], "event": d["event"], "src": d["src"], "clause": d["clause"],
            "readable": _describe(d), "asked_before": d.get("asked_before", [])}


# ---------------------------------------------------------------- grammar from the model
class Grammar:
    def __init__(self, res: Any) -> None:
        g = {v[1]: v[2] for v in res.printed if v and v[0] == "G"}
        if not {"entries", "paths", "tables"} <= set(g):
            raise MachineryError("the model did not print its grammar:\n" + "\n".join(res.output.splitlines()[-20:]))
        self.entries = [G.entry_from_tla(e) for e in g["entries"]]
        self.paths: List[G.Path] = [[list(s) for s in p] for p in g["paths"]]
        self.tables: List[Tuple[int, ...]] = sorted((tuple(t) for t in g["tables"]), key=lambda t: (len(t), t))
        self.methods = sorted(g.get("methods", ["GET", "POST"]))

    def table(self, ids: Tuple[int, ...]) -> List[dict]:
        return [copy.deepcopy(self.entries[i - 1]) for i in ids]

    def hosts(self, table: List[dict]) -> List[str]:
        return [OTHER_HOST] + sorted({e["domain"] for e in table if e["domain"]})

    def queries(self, table: List[dict]) -> List[Tuple[str, G.Path, str]]:
        return [(h, p, m) for h in self.hosts(table) for p in self.paths for m in self.methods]

    def expected_states(self) -> int:
        n = 1 + 2 * len(self.tables)
        for ids in self.tables:
            n += len(self.hosts([self.entries[i - 1] for i in ids])) * len(self.paths) * len(self.methods)
        return n

    def shape(self, ids: Tuple[int, ...]) -> Tuple[Any, ...]:
        out = []
        for i in ids:
            e = self.entries[i - 1]
            kinds = [p["k"] for p in e["tpl"]["parts"] if p["k"] != "lit"]
            cls = kinds[0] if kinds else ("slash" if e["tpl"]["slash"] else "plain")
            where = ("dom" if e["domain"] else "") + ("sub" * len(e["app"]) or "root")
            out.append((cls, where, "*" in e["methods"]))
        return tuple(out)


# ---------------------------------------------------------------- drivers
def driver_model(ctx: Ctx, drv: Driver, g: Grammar, judge: Judge, budget_tables: Optional[int],
                 src: str = "tlc-model") -> List[Tuple[int, ...]]:
    """A: replay (table, query) states of the model.  Returns the tables used."""
    if budget_tables is None or budget_tables >= len(g.tables):
        chosen = list(g.tables)
    else:
        strata: Dict[Any, List[Tuple[int, ...]]] = {}
        for ids in g.tables:
            strata.setdefault(g.shape(ids), []).append(ids)
        chosen = []
        keys = sorted(strata, key=repr)
        for k in keys:
            ctx.rng.shuffle(strata[k])
        rnd = 0
        while len(chosen) < budget_tables and any(strata[k] for k in keys):
            for k in keys:
                if strata[k] and len(chosen) < budget_tables:
                    chosen.append(strata[k].pop())
            rnd += 1
        ctx.log(f"stratified sample: {len(chosen)} of {len(g.tables)} tables over {len(keys)} shapes")
    nq = replay_tables(ctx, drv, g, judge, [g.table(ids) for ids in chosen], src)
    ctx.log(f"A: replayed {nq} observations of (table, query) states of {len(chosen)} tables")
    ctx.extra["model_states_replayed"] = ctx.extra.get("model_states_replayed", 0) + nq
    return chosen


def replay_tables(ctx: Ctx, drv: Driver, g: Grammar, judge: Judge, tables: List[List[dict]], src: str) -> int:
    """All model queries against ONE application object per table, in a seeded random order, followed by a
    second round (every query answered 405 in the first round plus a random 15 %, reversed order): the
    answers must not depend on what the router was asked before."""
    traces: List[dict] = []
    nq = 0
    for table in tables:
        b = drv.bind(table)
        if b.error:
            judge.found.setdefault("RegistrationRefused", []).append(
                (len(table), {"table": table, "event": None, "src": src, "label": b.error,
                              "clause": "RegistrationRefused"}))
            continue
        qs = [(h, G.render_path(p), m) for (h, p, m) in g.queries(table)]
        ctx.rng.shuffle(qs)
        evs = drv.queries(b, qs, "mocked")
        again = [q for q, e in zip(qs, evs) if e["obs"]["t"] == "405" or ctx.rng.random() < 0.15]
        again.reverse()
        evs += drv.queries(b, again, "mocked")
        nq += len(evs)
        traces.append(mk_trace(table, src, evs))
        if len(traces) >= 200:
            judge.add(traces, "model-replay", 100000)
            traces = []
    judge.add(traces, "model-replay", 100000)
    return nq


def driver_three(ctx: Ctx, drv: Driver, g: Grammar, judge: Judge, n: int) -> None:
    """A3: a slice of three-entry tables built from the model's entries: a valid two-entry table extended by
    a third entry - half of the time the first template again with other methods (routes for one path that
    are not registered back to back), else any entry of the same application or of the root."""
    rng = ctx.rng
    pairs = [t for t in g.tables if len(t) == 2]
    tables: List[List[dict]] = []
    guard = 0
    while len(tables) < n and guard < 50 * n:
        guard += 1
        a, b = (g.entries[i - 1] for i in rng.choice(pairs))
        same_app = (a["app"], a["domain"]) == (b["app"], b["domain"])
        root_a = not a["app"] and not a["domain"]
        if rng.random() < 0.5:
            if not (same_app or root_a) or a["tpl"] == b["tpl"]:
                continue
            cands = [e for e in g.entries if (e["tpl"], e["app"], e["domain"]) == (a["tpl"], a["app"], a["domain"])
                     and e["methods"] != a["methods"]]
        else:
            cands = [e for e in g.entries
                     if ((e["app"], e["domain"]) == (b["app"], b["domain"]) or (not e["app"] and not e["domain"]))
                     and not (e["tpl"] == b["tpl"] and (e["app"], e["domain"]) == (b["app"], b["domain"]))]
        if cands:
            tables.append([copy.deepcopy(a), copy.deepcopy(b), copy.deepcopy(rng.choice(cands))])
    nq = replay_tables(ctx, drv, g, judge, tables, "tlc-entries-3")
    ctx.log(f"A3: {nq} observations on {len(tables)} three-entry tables")
    ctx.extra["three_entry_observations"] = nq


def driver_hosts(ctx: Ctx, drv: Driver, g: Grammar, judge: Judge, n_tables: int, n_rules: int) -> None:
    """E: Host header spellings (ports, case, near misses) against domain rules in several spellings."""
    rng = ctx.rng
    with_dom = [t for t in g.tables if any(g.entries[i - 1]["domain"] for i in t)]
    rng.shuffle(with_dom)
    traces = []
    nq = 0
    for ids in with_dom[:n_tables]:
        table = g.table(ids)
        old = G.domains_of(table)[0]
        for rule in rng.sample(G.DOMAIN_RULES, n_rules):
            tb = G.substitute_domain(table, old, rule)
            b = drv.bind(tb)
            if b.error:
                raise MachineryError(f"cannot register {G.describe_table(tb)}: {b.error}")
            paths = [G.render_path(p) for p in rng.sample(g.paths, 2)]
            qs = [(h, p, m) for h in G.host_headers(rule, rng) for p in paths for m in ("GET", "POST")]
            rng.shuffle(qs)
            evs = drv.queries(b, qs, "parsed")
            nq += len(evs)
            traces.append(mk_trace(tb, "hosts", evs))
    judge.add(traces, "hosts")
    ctx.log(f"E: {nq} Host-header observations on {len(traces)} domain tables")
    ctx.extra["host_header_observations"] = nq


def driver_spellings(ctx: Ctx, drv: Driver, g: Grammar, judge: Judge, tables: List[Tuple[int, ...]], per: int) -> None:
    """B: odd spellings + renamed alphabets through the real request parser."""
    rng = ctx.rng
    traces: List[dict] = []
    nq = 0
    a = [97]
    for ids in tables:
        table = g.table(ids)
        variants: List[Tuple[str, List[dict], Any]] = [("spell", table, None)]
        if rng.random() < 0.5:
            new = G.cps(rng.choice(G.SUBSTITUTE_LITERALS))
            variants.append(("subst", G.substitute_table(table, a, new), new))
        for kind, tb, new in variants:
            b = drv.bind(tb)
            if b.error:
                judge.found.setdefault("RegistrationRefused", []).append(
                    (len(tb), {"table": tb, "event": None, "src": "spelling", "label": b.error,
                               "clause": "RegistrationRefused"}))
                continue
            qs: List[Tuple[str, str, str]] = []
            hosts = g.hosts(tb)
            for _ in range(per):
                p = rng.choice(g.paths)
                if new is not None:
                    p = G.substitute_path(p, a, new)
                cands = [p] if rng.random() < 0.45 else G.odd_paths(p, rng, 1)
                for c in cands:
                    style = rng.choice(G.SPELL_STYLES)
                    qs.append((rng.choice(hosts), G.spell_path(c, style, rng), rng.choice(g.methods + ["GET"])))
            evs = drv.queries(b, qs, "parsed")
            nq += len(evs)
            traces.append(mk_trace(tb, "spelling-" + kind, evs))
    judge.add(traces, "spellings")
    ctx.log(f"B: {nq} odd-spelling / renamed-alphabet queries on {len(traces)} tables "
            f"({drv.reqs.parser_errors} targets refused by the parser)")
    ctx.extra["spelling_queries"] = nq


def driver_urlfor(ctx: Ctx, drv: Driver, g: Grammar, judge: Judge) -> None:
    """C: resolve(url_for(v)).vars = v."""
    tpls = G.urlfor_templates()
    for e in g.entries:
        if G.is_dynamic(e["tpl"]) and not G.is_static(e["tpl"]) and e["tpl"] not in tpls and not e["app"] and not e["domain"]:
            tpls.append(e["tpl"])
    traces = []
    n = 0
    for tpl in tpls:
        vars_ = G.variables_of(tpl)
        for app in ([], [[G.cps("p")]], [[G.cps("p q")]]):
            table = [{"tpl": tpl, "methods": ["GET"], "app": app, "domain": ""},
                     {"tpl": {"parts": [{"k": "lit", "s": G.cps("zz"), "n": ""}], "slash": False},
                      "methods": ["GET"], "app": [], "domain": ""}]
            b = drv.bind(table)
            if b.error:
                raise MachineryError(f"cannot register {G.describe_table(table)}: {b.error}")
            evs = []
            pools = [G.values_for(k) for _n, k in vars_]
            for j in range(max(len(p) for p in pools)):
                vals = {nm: pools[i][(j + 3 * i) % len(pools[i])][1] for i, (nm, _k) in enumerate(vars_)}
                evs.append(drv.url_for(b, 1, vals))
                same = {nm: pools[i][j % len(pools[i])][1] for i, (nm, _k) in enumerate(vars_)}
                if same != vals:
                    evs.append(drv.url_for(b, 1, same))
            n += len(evs)
            traces.append(mk_trace(table, "url_for", evs))
    judge.add(traces, "url_for")
    ctx.log(f"C: {n} url_for round trips over {len(tpls)} dynamic templates")
    ctx.extra["url_for_round_trips"] = n


def driver_redirect(ctx: Ctx, drv: Driver, g: Grammar, judge: Judge, tables: List[Tuple[int, ...]]) -> None:
    """D: normalize_path_middleware never redirects off-site."""
    from aiohttp import web

    traces = []
    n = 0
    model_targets = [G.render_path(p) for p in g.paths if any(not s for s in p)] + \
                    ["/" + G.render_path(p) for p in g.paths[:12]] + ["/\\" + G.render_path(p)[1:] for p in g.paths[:6]]
    jobs: List[Tuple[List[dict], List[str]]] = [(G.redirect_table(), G.REDIRECT_TARGETS + [t + "?a=//b" for t in G.REDIRECT_TARGETS[:12]])]
    for ids in tables:
        tb = [e for e in g.table(ids) if not G.is_static(e["tpl"])]
        if tb:
            jobs.append((tb, model_targets))
    for table, targets in jobs:
        for opts in G.REDIRECT_OPTIONS:
            mw = web.normalize_path_middleware(append_slash=opts[0], remove_slash=opts[1], merge_slashes=opts[2])
            b = drv.bind(table, (mw,))
            if b.error:
                continue
            evs = [e for e in (drv.redirect(b, opts, t) for t in targets) if e is not None]
            n += len(evs)
            traces.append(mk_trace(table, "redirect", evs))
    judge.add(traces, "redirect")
    redirects = sum(1 for t in traces for e in t["events"] if e["hasloc"])
    ctx.log(f"D: {n} middleware runs, {redirects} redirects")
    ctx.extra["middleware_runs"] = n
    ctx.extra["redirects_observed"] = redirects


# ---------------------------------------------------------------- check
def run(ctx: Ctx) -> None:
    ctx.rule = ("executions = route tables enumerated by TLC (UrlDispatchMC grammar) built into a real "
                "web.Application and queried (model paths, odd spellings, url_for round trips, "
                "normalize_path_middleware); distinct = different route tables")
    ctx.assumptions = [
        "templates: literal / {var} / mid-segment var / {n:\\d+} / trailing {t:.*} / add_static prefix; other regexes, "
        "custom AbstractRuleMatching rules and View classes are outside the model",
        "sub-application take-over is read as documented by add_subapp ('further resolving is passed to subapp'): "
        "its 404/405 ends the lookup",
        "Canon: segments split at literal '/', percent-decoded once, UTF-8; malformed UTF-8, control characters and "
        "dot-segments are not generated",
        "url_for inverse is claimed for non-empty values without '/', '{', '}'",
        "request objects: make_mocked_request (driver A) and HttpRequestParser-built requests (drivers B-D); "
        "yarl and re are trusted",
    ]
    rich = ctx.pick(False, True)
    # generator run: the model module prints the grammar it enumerates (no exploration)
    gres = run_tlc("UrlDispatchMC", write_cfg(2, rich, True, gonly=True), workers=1, timeout=900, deadlock=False)
    require_clean(gres, "UrlDispatchMC grammar")
    g = Grammar(gres)
    ctx.log(f"grammar: {len(g.entries)} entries, {len(g.tables)} valid tables of <= 2 entries, {len(g.paths)} paths")
    drv = Driver(ctx)
    judge = Judge(ctx)
    with concurrent.futures.ThreadPoolExecutor(max_workers=1) as ex:
        # the exhaustive model run proceeds while the same states are replayed into the real router
        fut = ex.submit(run_tlc, "UrlDispatchMC", write_cfg(2, rich, False), workers=16,
                        timeout=ctx.pick(900, 3000), deadlock=False)
        try:
            chosen = driver_model(ctx, drv, g, judge, ctx.pick(140, None), "tlc-model")
            driver_three(ctx, drv, g, judge, ctx.pick(30, 1500))
            sub = list(chosen)
            ctx.rng.shuffle(sub)
            driver_spellings(ctx, drv, g, judge, sub[:ctx.pick(90, 3000)], ctx.pick(40, 60))
            driver_hosts(ctx, drv, g, judge, ctx.pick(10, 200), ctx.pick(2, 4))
            driver_urlfor(ctx, drv, g, judge)
            driver_redirect(ctx, drv, g, judge, sub[:ctx.pick(8, 300)])
            judge.flush()
        finally:
            drv.close()
        res = fut.result()
    ok = ctx.expect_model_ok(f"UrlDispatchMC(MaxEntries=2,Rich={rich})", res)
    ctx.log(f"model MaxEntries=2 Rich={rich}: {res.distinct} states, ok={ok}, {res.wall_s:.0f}s")
    if res.ok and g.expected_states() != res.distinct:
        raise MachineryError(f"replay grammar out of step with the model: {g.expected_states()} (table, query) "
                             f"states expected from the printed grammar, TLC found {res.distinct}")
    if not ctx.quick:
        # tables of three entries over the core grammar: exhaustive in the model, sampled into the code
        gres3 = run_tlc("UrlDispatchMC", write_cfg(3, False, True, gonly=True, core=True), workers=1, timeout=900,
                        deadlock=False)
        require_clean(gres3, "UrlDispatchMC grammar (3 entries)")
        g3 = Grammar(gres3)
        g3.tables = [t for t in g3.tables if len(t) == 3]
        drv = Driver(ctx)
        with concurrent.futures.ThreadPoolExecutor(max_workers=1) as ex:
            fut = ex.submit(run_tlc, "UrlDispatchMC", write_cfg(3, False, False, core=True), workers=16,
                            timeout=3000, deadlock=False)
            try:
                driver_model(ctx, drv, g3, judge, 2500, "tlc-model-3")
                judge.flush()
            finally:
                drv.close()
            res3 = fut.result()
        ok = ctx.expect_model_ok("UrlDispatchMC(MaxEntries=3,Core)", res3)
        ctx.log(f"model MaxEntries=3 Core: {res3.distinct} states, ok={ok}, {res3.wall_s:.0f}s")
    judge.report()
    ctx.evaluations = judge.events
    ctx.extra["observations_judged"] = judge.events


def selftest(ctx: Ctx) -> int:
    """(i) corrupted observations are rejected by the trace spec, (ii) spec mutants are caught by TLC."""
    ok = True
    drv = Driver(ctx)
    T = lambda parts, slash=False: {"parts": parts, "slash": slash}  # noqa: E731
    lit = lambda s: {"k": "lit", "s": G.cps(s), "n": ""}  # noqa: E731
    var = lambda n: {"k": "var", "s": [], "n": n}  # noqa: E731
    table = [{"tpl": T([lit("a"), var("x")]), "methods": ["GET"], "app": [], "domain": ""},
             {"tpl": T([lit("a"), lit("b")]), "methods": ["POST"], "app": [], "domain": ""},
             {"tpl": T([var("x"), lit("b")]), "methods": ["PUT"], "app": [], "domain": ""}]
    b = drv.bind(table)
    evs = drv.queries(b, [(OTHER_HOST, "/a/b", "GET"), (OTHER_HOST, "/a/b", "DELETE"), (OTHER_HOST, "/a/%62", "POST"),
                          (OTHER_HOST, "/b/a", "GET")], "parsed")
    good = mk_trace(table, "selftest", evs)
    bad1 = copy.deepcopy(good)
    bad1["events"][0]["obs"]["i"] = 3                       # wrong handler
    bad2 = copy.deepcopy(good)
    bad2["events"][1]["obs"]["allowed"] = ["PUT"]           # incomplete Allow set
    bad3 = copy.deepcopy(good)
    bad3["events"][0]["obs"]["vars"] = [["x", G.cps("B")]]  # wrong match_info
    bad4 = copy.deepcopy(good)
    bad4["events"][3]["obs"] = {"t": "405", "i": 0, "vars": [], "allowed": ["GET"]}   # 405 where nothing matches
    bad5 = copy.deepcopy(good)
    bad5["events"] = [{"ev": "Redirect", "raw": G.cps("//evil"), "host": G.cps(OTHER_HOST), "method": "GET", "ap": True,
                       "rm": False, "mg": True, "status": 308, "hasloc": True, "loc": G.cps(loc)}
                      for loc in ("//evil", "/\\evil", "/a/b")]
    bad6 = copy.deepcopy(good)
    bad6["events"] = [{"ev": "UrlFor", "idx": 1, "vals": [["x", G.cps("a b")]], "raw": G.cps("/a/a%2520b"),
                       "host": G.cps(OTHER_HOST), "method": "GET",
                       "obs": {"t": "match", "i": 1, "vars": [["x", G.cps("a%20b")]], "allowed": []}}]
    vs, _ = validate_batch(TRACE_MOD, TRACE_CFG, [good, bad1, bad2, bad3, bad4, bad5, bad6])
    got = [(v.ok, v.clause) for v in vs]
    print("trace verdicts:", got)
    want = [(True, ""), (False, "WrongHandler"), (False, "NotAllowedSetWrong"), (False, "WrongMatchInfo"),
            (False, "ResolveMismatch"), (False, "RedirectOffSite"), (False, "UrlForEncoding")]
    if got != want:
        print("  expected:", want)
        ok = False
    if ok and [x[1] for x in vs[5].info[0]] != ["RedirectOffSite", "RedirectOffSite"]:
        print("  expected exactly the two off-site Locations to be flagged:", vs[5].info)
        ok = False
    drv.close()
    for mutant, inv in (("shortfirst", {"InvLongestKeyFirst", "InvFixedBeatsVariable", "InvDeterministic", "InvRegistrationOrder"}),
                        ("lastallowed", {"InvNotAllowedIsComplete", "InvDeterministic"})):
        res = run_tlc("UrlDispatchMC", write_cfg(2, False, False, mutant), workers=16, timeout=600, deadlock=False)
        print(f"mutant {mutant}: TLC -> {res.violated} after {res.distinct} states")
        if res.violated not in inv:
            ok = False
        elif res.trace:
            st = res.trace[-1][1]
            print("   counterexample:", st.get("table") and "table of %d entries" % len(st["table"]), st.get("q"))
    print("selftest", "passed" if ok else "FAILED")
    return 0 if ok else 2


def replay(ctx: Ctx, path: str) -> int:
    payload = json.load(open(path))
    d = payload["detail"]
    if not d or not d.get("event"):
        print("replay: nothing to replay (aggregate finding)")
        return 1
    table, e = d["table"], d["event"]
    drv = Driver(ctx)
    try:
        if e["ev"] == "Redirect":
            from aiohttp import web

            opts = (e["ap"], e["rm"], e["mg"])
            mw = web.normalize_path_middleware(append_slash=opts[0], remove_slash=opts[1], merge_slashes=opts[2])
            ev = drv.redirect(drv.bind(table, (mw,)), opts, G.seg_str(e["raw"]))
        elif e["ev"] == "UrlFor":
            ev = drv.url_for(drv.bind(table), e["idx"], {k: G.seg_str(v) for k, v in e["vals"]})
        else:
            how = "mocked" if str(d.get("src", "")).startswith("tlc-model") else "parsed"
            # same application object, same questions in the same order as in the failing execution
            qs = [tuple(x) for x in d.get("asked_before", [])] + [(G.seg_str(e["host"]), G.seg_str(e["raw"]), e["method"])]
            ev = drv.queries(drv.bind(table), qs, how)[-1]
    finally:
        drv.close()
    vs, _ = validate_batch(TRACE_MOD, TRACE_CFG, [mk_trace(table, "replay", [ev])])
    v = vs[0]
    print("replay:", _describe({"table": table, "event": ev}))
    print(f"replay: ok={v.ok} clause={v.clause!r}")
    if not v.ok:
        print(f"VIOLATION property=C14 replay={path}")
        return 1
    return 0
