"""C03 - HTTP parsing does not depend on how the byte stream is segmented.

The reference reader (spec/HttpFraming.tla) consumes bytes, not reads, so its outcome is a
function of the stream.  For every stream the real parser is run under many segmentations
(whole / every single cut / byte-at-a-time / random k cuts / thorough: every pair of cuts for
short streams) x limit configurations (equal and unequal max_line_size / max_field_size,
tiny read buffer).  The harness groups runs with identical recorded outcome (lossless); TLC
(spec/HttpFramingTrace.tla) requires every distinct outcome to match the reference AND the
outcomes of the group to agree with each other (GroupClause).  Requests also go through a real
server connection (RequestHandler) under every single cut; responses also through a real
client connection (ResponseHandler).
"""
from __future__ import annotations

import json
from typing import Any, Dict, List

from engine import httpframing as H
from engine.gen import http as G
from engine.runner import Ctx

BATCH_GROUPS = 1500         # groups per TLC invocation (runs are merged into distinct outcomes, so their
                            # number does not matter for the size of a batch)


class _Acc:
    def __init__(self, ctx: Ctx) -> None:
        self.ctx = ctx
        self.groups: List[H.Group] = []
        self.stats: Dict[str, int] = {}
        self.runs = 0
        self.hist: Dict[int, int] = {}

    def add(self, g: H.Group) -> None:
        self.groups.append(g)
        self.runs += g.nruns
        self.hist[len(g.order)] = self.hist.get(len(g.order), 0) + 1
        if len(self.groups) >= BATCH_GROUPS:
            self.flush("segmentations")

    def flush(self, label: str) -> None:
        if not self.groups:
            return
        st = H.judge_groups(self.ctx, self.groups, "C03", label)
        for k, v in st.items():
            self.stats[k] = self.stats.get(k, 0) + v
        for g in self.groups:
            self.ctx.distinct.add(hash((g.data, g.lim.key())))
        if len(self.ctx.samples) < 4:
            g = self.groups[0]
            self.ctx.sample({"mode": g.mode, "label": g.label, "stream": g.data[:160].decode("latin1"),
                             "limits": list(g.lim.key()), "segmentations": g.nruns, "distinct_outcomes": len(g.order)})
        self.ctx.log(f"judged {len(self.groups)} streams / {self.runs} runs ({label}); clauses: {dict(sorted(self.stats.items()))}")
        self.groups = []
        self.runs = 0


def _segmentations(ctx: Ctx, g: H.Group, rng: Any, pairs: bool) -> None:
    n = len(g.data)
    g.parse([])
    if n <= 400:
        for c in G.single_cuts(n):
            g.parse(c)
    else:
        for c in range(1, n, 3):
            g.parse([c])
    g.parse(G.byte_at_a_time(n))
    for k in (2, 3, 5, 8):
        g.parse(G.random_cuts(rng, n, k))
    if pairs and n <= 90:
        for cs in G.pair_cuts(n):
            g.parse(cs)


def run(ctx: Ctx) -> None:
    ctx.rule = ("executions = (stream, limits, segmentation) runs of HttpRequestParser / HttpResponseParser / RequestHandler / "
                "ResponseHandler judged by TLC; distinct = different (stream, limit configuration) groups")
    ctx.assumptions = [
        "the reference outcome is a function of the byte stream (invariant InvCut of HttpFramingMC: exhaustive over the cut model)",
        "runs with byte-identical recorded outcome are merged by the harness before TLC judges them (lossless)",
        "a rejection may be noticed earlier or later (pending until the end of a header block / one read of slack for an "
        "unterminated over-long line); the end-of-stream verdict and every delivered message must not differ",
        "payload readers are drained after every read; response parser runs in its default lax mode (DEBUG off)",
    ]
    rng = ctx.rng
    # ---- 1. models: outcome invariant under cuts (exhaustive), lax response reader
    H.run_model(ctx, "HttpFramingMC(cuts, MaxLex=%d)" % ctx.pick(3, 4),
                H.write_mc_cfg("cuts", CutMode="TRUE", MaxLex=ctx.pick(3, 4), MaxLine=30, MaxField=28, MaxPending=4,
                               LexIds=ctx.pick("{3, 9, 11, 16, 18, 40, 69}", "{3, 9, 11, 16, 18, 24, 40, 42, 47, 69}")),
                timeout=ctx.pick(400, 3000))
    H.run_model(ctx, "HttpFramingMC(response lax)",
                H.write_mc_cfg("resp", Mode='"response"', Lax="TRUE", UntilEof="TRUE", MaxMsgs=1,
                               LexIds="{16, 18, 19, 22, 24, 28, 30, 31, 32, 35, 40, 42, 47, 49, 60, 61, 62, 63, 64, 65, 66, 67, 68}"),
                timeout=ctx.pick(400, 1500))
    acc = _Acc(ctx)
    names = list(H.LIMIT_CONFIGS)
    pairs = not ctx.quick
    n_valid = ctx.pick(30, 100)
    per_class = ctx.pick(2, 5)
    # ---- 2. requests
    k = 0
    conn_h: Dict[str, H.ConnHarness] = {}
    conn_left = ctx.pick(70, 900)
    for src, label, data in H.request_corpus(rng, n_valid, per_class, ctx.pick(3, 8)):
        k += 1
        cfgs = names if src == "valid" else [names[k % len(names)]]
        for cn in cfgs:
            lim = H.LIMIT_CONFIGS[cn]
            g = H.Group("request", data, lim, src=src, label=f"{label} [{cn}]")
            _segmentations(ctx, g, rng, pairs and (src == "valid" or k % 3 == 0))
            if conn_left > 0 and len(data) <= 220 and lim.limit > 16 and (src == "valid" or k % 9 == 0):
                conn_left -= 1
                h = conn_h.get(cn) or conn_h.setdefault(cn, H.ConnHarness(lim))
                g.conn(h, [])
                for c in G.single_cuts(len(data)):
                    g.conn(h, c)
            acc.add(g)
    acc.flush("requests")
    # ---- 3. responses (lax client parser), plus the client connection for a share of them
    k = 0
    for src, label, data, opts in H.response_corpus(rng, n_valid, per_class, ctx.pick(3, 8)):
        k += 1
        cfgs = names if src == "valid" else [names[k % len(names)]]
        for cn in cfgs:
            lim = H.LIMIT_CONFIGS[cn]
            g = H.Group("response", data, lim, src=src, label=f"{label} [{cn}]", **opts)
            _segmentations(ctx, g, rng, pairs and (src == "valid" or k % 3 == 0))
            if k % 10 == 0 and lim.limit > 16 and len(data) <= 300:
                g.client([])
                for c in range(1, len(data), 5):
                    g.client([c])
            acc.add(g)
    acc.flush("responses")
    # ---- 4. lines sized around each limit, in every syntactic position, under EVERY single cut (both parsers);
    #         with unequal limits this puts read boundaries inside lines whose length lies between the two
    for cn in ("small-equal", "line>field", "line<field", "tiny-buffer-small"):
        lim = H.LIMIT_CONFIGS[cn]
        fams = [x for pos in G.LIMIT_POSITIONS for x in G.limit_family(pos, lim.max_line, lim.max_field, lim.max_headers)]
        fams += [(a, b[:4 * max(lim.max_line, lim.max_field)], c, d) for a, b, c, d in
                 G.unterminated_family(lim.max_line, lim.max_field, lim.max_headers)]
        # one line between the two limits, in the first / second / third message of a read; header blocks with
        # max_headers-1 / max_headers / max_headers+1 lines x every body kind (chunked with and without trailers)
        must = list(G.between_limits_family(lim.max_line, lim.max_field))
        if cn in ("small-equal", "tiny-buffer-small"):
            must += G.header_count_family(lim.max_headers)
        fams = [(a, b, c, d, True) for a, b, c, d in must] + [(a, b, c, d, False) for a, b, c, d in fams]
        for j, (label, s, cutsets, mode, always) in enumerate(fams):
            if not always and ctx.quick and j % 2 == 1 and cn != "line<field" and cn != "line>field":
                continue
            g = H.Group(mode, s, lim, src="limit-family", label=f"{label} [{cn}]")
            g.parse([])
            for c in G.single_cuts(len(s)) if len(s) <= 700 else ([c] for c in range(1, len(s), 5)):
                g.parse(c)
            g.parse(G.byte_at_a_time(len(s)))
            for cs in cutsets:
                g.parse(cs)
            acc.add(g)
    acc.flush("limit-sized lines")
    # ---- 5. content-coded bodies with auto-decompression on (gzip, zlib / raw deflate, br, zstd when importable):
    #         the decoded body must be the plain text and must not depend on the segmentation
    for mode in ("request", "response"):
        for i in range(ctx.pick(45, 500)):
            msgs, plain, label = G.gen_coded_stream(rng, mode)
            data = G.render(G.flatten(msgs))
            lim = H.LIMIT_CONFIGS["tiny-read-buffer"] if i % 3 == 2 else H.DEFAULT_LIMITS
            g = H.Group(mode, data, lim, src="coded-body", label=label, decode=True, expect=plain)
            _segmentations(ctx, g, rng, False)
            acc.add(g)
    acc.flush("coded bodies")
    ctx.extra["clauses_seen"] = acc.stats
    ctx.extra["distinct_outcomes_per_group_histogram"] = {str(a): b for a, b in sorted(acc.hist.items())}
    ctx.evaluations = ctx.traces


def selftest(ctx: Ctx) -> int:
    data = (b"POST /p HTTP/1.1\r\nHost: a\r\nTransfer-Encoding: chunked\r\n\r\n3\r\nabc\r\n2\r\nde\r\n0\r\n\r\n"
            b"GET /q HTTP/1.1\r\nHost: a\r\n\r\n")
    g = H.Group("request", data, H.DEFAULT_LIMITS, src="selftest", label="good")
    g.parse([])
    for c in G.single_cuts(len(data)):
        g.parse(c)
    g.parse(G.byte_at_a_time(len(data)))

    def second_outcome(t: dict) -> None:      # one segmentation "lost" the second request
        import copy
        e = copy.deepcopy(t["events"][0])
        del e["msgs"][1]
        e["cutsets"] = [[17]]
        t["events"].append(e)

    def cut_rejects(t: dict) -> None:         # one segmentation rejects what the others accept
        import copy
        e = copy.deepcopy(t["events"][0])
        e["msgs"] = e["msgs"][:1]
        e["exc"] = "BadHttpMessage"
        e["cutsets"] = [[60]]
        t["events"].append(e)

    def chunk_boundary(t: dict) -> None:      # chunk bookkeeping differs under one cut
        import copy
        e = copy.deepcopy(t["events"][0])
        e["msgs"][0]["chunks"] = [3]
        e["cutsets"] = [[61]]
        t["events"].append(e)

    def body_byte(t: dict) -> None:
        t["events"][0]["msgs"][0]["body"][1] ^= 4

    # group-level clause: two outcomes that are each compatible with the reference (the stream lies in a
    # permitted-alternative zone) but differ from each other must be reported as segmentation dependence
    soft = b"get / HTTP/1.1\r\nHost: a\r\n\r\n"
    g2 = H.Group("request", soft, H.DEFAULT_LIMITS, src="selftest", label="alt zone")
    g2.parse([])
    t2 = g2.trace()
    import copy
    e2 = copy.deepcopy(t2["events"][0])
    e2["msgs"] = []
    e2["exc"] = "BadHttpMethod"
    e2["cutsets"] = [[3]]
    t2["events"].append(e2)
    from engine.tlc import validate_batch
    vs, _ = validate_batch(H.TRACE_MODULE, H.TRACE_CFG, [g2.trace(), t2])
    print(f"selftest: group clause: consistent -> ok={vs[0].ok}; verdict differs under a cut -> clause={vs[1].clause!r}")
    if not (vs[0].ok and vs[1].clause == "SegmentationVerdict"):
        print("selftest FAILED")
        return 2
    return H.selftest_common(
        ctx, g,
        [("a cut loses a message", second_outcome), ("a cut turns accept into reject", cut_rejects),
         ("a cut changes chunk boundaries", chunk_boundary), ("body byte differs", body_byte)],
        [("noLimit", {"Mutant": '"noLimit"', "MaxLine": 30, "MaxField": 28, "MaxHeaders": 3, "MaxPending": 60, "MaxLines": 5,
                      "MaxMsgs": 1, "LexIds": "{1, 16, 17, 24, 31, 40, 42, 47, 50, 51, 52, 53, 54, 55, 56, 57, 58, 59}"},
          "InvPendingBound")])


def replay(ctx: Ctx, path: str) -> int:
    payload = json.load(open(path))
    rc = H.replay_detail(ctx, payload["detail"])
    if rc:
        print(f"VIOLATION property=C03 replay={path}")
    return rc
