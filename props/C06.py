"""C06 - client connection reuse never mixes responses.

spec/ClientConn.tla       model of one pooled connection with an adversarial peer (TLC, exhaustive)
spec/ClientConnTrace.tla  property monitor for executions of a real ClientSession against a scripted peer
"""
from __future__ import annotations

import asyncio
import json
import os
import re
from typing import Any, Dict, List, Optional

from engine import steploop
from engine.clikit import ClientKit, PeerConn, http_response
from engine.runner import Ctx
from engine.tlc import MachineryError, mktemp, run_tlc, simulate_behaviours, validate_batch


class ConnExec:
    """A real ClientSession; requests are numbered; the peer's responses carry markers."""

    def __init__(self, loop: steploop.StepLoop, **kit_kw: Any) -> None:
        import aiohttp

        self.aiohttp = aiohttp
        self.loop = loop
        self.kit = ClientKit(loop, **kit_kw)
        self.events: List[dict] = []
        self.next_marker = 1
        self.req_conn: Dict[int, int] = {}
        self.mode: Dict[int, str] = {}
        self.results: Dict[int, dict] = {}
        self._acq_seen = 0
        self.keysig: Dict[int, str] = {}
        self.conn_sig: Dict[int, str] = {}
        self.pending_resp: Dict[int, dict] = {}   # per conn: state of the response being fed
        self.done_full: Dict[int, bool] = {}

    # ---- recording helpers
    def rec(self, ev: str, **kw: Any) -> None:
        e = {"ev": ev, "j": 0, "c": -1, "samekey": True, "alive": True, "ep": 0, "m": 0, "part": "", "surplus": False,
             "bm": -1, "how": ""}
        e.update(kw)
        self.events.append(e)

    def sync(self) -> None:
        """Run the loop to quiescence and record acquisitions / results that happened."""
        self.loop.run_until_idle()
        log = self.kit.acquire_log
        while self._acq_seen < len(log):
            name, cidx, key = log[self._acq_seen]
            self._acq_seen += 1
            j = int(name[1:])
            self.req_conn[j] = cidx
            sig = self.keysig.get(j, "")
            first = self.conn_sig.setdefault(cidx, sig)
            self.rec("acquire", j=j, c=cidx, samekey=(self.kit.conns[cidx].key == key and first == sig),
                     alive=bool(self.kit.acquire_alive[self._acq_seen - 1]))
        for j, r in list(self.results.items()):
            if not r.get("rec"):
                r["rec"] = True
                if "m" in r:
                    self.rec("resp", j=j, c=self.req_conn.get(j, -1), m=r["m"], bm=r.get("bm", -1))
            if r.get("how") and not r.get("rec_end"):
                r["rec_end"] = True
                self.rec("end", j=j, c=self.req_conn.get(j, -1), how=r["how"])

    # ---- client side
    def request(self, j: int, url: str, mode: str = "read", **kw: Any) -> None:
        """mode: read | unread (release without reading) | close | hold (keep the response open)"""
        self.mode[j] = mode
        ex = self
        steps = kw.pop("_partial_steps", None)
        # connection key as the CALLER sees it, computed independently of ClientRequest.connection_key
        from yarl import URL as _URL
        u = _URL(url)
        ph = kw.get("proxy_headers")
        pa = None
        self.keysig[j] = json.dumps([u.scheme in ("https", "wss"), u.raw_host, u.port, str(kw.get("proxy") or ""),
                                     sorted((str(k).lower(), str(v)) for k, v in (ph or {}).items()),
                                     [pa.login, pa.password] if pa is not None else None,
                                     str(kw.get("server_hostname") or ""), repr(kw.get("ssl", True))])

        async def go() -> None:
            res: dict = {}
            ex.results[j] = res
            try:
                r = await ex.kit.session.get(url, **kw)
            except asyncio.CancelledError:
                res["how"] = "cancel"
                raise
            except asyncio.TimeoutError:
                res["how"] = "timeout"
                return
            except Exception as exc:  # noqa: BLE001
                res["how"] = "error"
                res["exc"] = type(exc).__name__
                return
            m = r.headers.get("X-Mark", "")
            res["m"] = int(m) if m.isdigit() else 0
            res["rec"] = False
            res["status"] = r.status
            try:
                # the whole response may already have been received: then aiohttp has released the
                # connection (payload EOF callback) before the application acts on the response
                early = r.connection is None
                conn_close = r.headers.get("Connection", "").lower() == "close" or r.version < (1, 1)
                if r.status == 101 and not early:
                    res["how"] = "upgrade"
                    r.close()
                    return
                if mode == "read":
                    body = await r.read()
                    mm = re.match(rb"B(\d+);", body)
                    # a body that was read to its end but does not carry the marker of its head is a mix-up / loss
                    res["bm"] = int(mm.group(1)) if mm else 0
                    res["how"] = "connclose" if conn_close else "full"
                    res["rec"] = False
                elif mode == "unread":
                    r.release()
                    res["how"] = ("connclose" if conn_close else "full") if early else "unread"
                elif mode == "close":
                    r.close()
                    res["how"] = ("connclose" if conn_close else "full") if early else "closed"
                else:
                    await asyncio.sleep(10 ** 6)
            except asyncio.CancelledError:
                res["how"] = "cancel"
                r.close()
                raise
            except asyncio.TimeoutError:
                res["how"] = "timeout"
            except Exception as exc:  # noqa: BLE001
                res["how"] = "truncated" if "Payload" in type(exc).__name__ else "error"
                res["exc"] = type(exc).__name__

        self.kit.spawn(f"r{j}", go())
        if steps is None:
            self.sync()
        else:
            for _ in range(steps):       # leave the request in the middle of acquiring its connection
                if not self.loop.step_one():
                    break

    def cancel(self, j: int) -> None:
        t = self.kit.tasks.get(f"r{j}")
        if t is not None and not t.done():
            t.cancel()
        self.sync()

    # ---- peer side
    def owner_epoch(self, c: PeerConn) -> int:
        return int(c.owner[1:]) if c.owner else 0

    def feed(self, cidx: int, data: bytes, m: int, part: str, surplus: bool) -> None:
        c = self.kit.conns[cidx]
        ep = self.owner_epoch(c)
        if not c.open:
            return
        self.rec("feed", c=cidx, ep=ep, m=m, part=part, surplus=bool(surplus or ep == 0))
        c.feed(data)
        self.sync()

    def new_marker(self) -> int:
        m = self.next_marker
        self.next_marker += 1
        return m

    def response_bytes(self, m: int, *, status: int = 200, extra: Optional[List[tuple]] = None,
                       chunked: bool = False, version: str = "HTTP/1.1", body_len: int = 6,
                       gzip_body: bool = False, content_length: bool = True) -> tuple:
        body = (f"B{m};".encode() + b"x" * body_len)[:max(body_len, len(f"B{m};"))]
        hdrs = [("X-Mark", str(m))] + list(extra or [])
        if gzip_body:
            import gzip as _gz
            body = _gz.compress(body, mtime=0)
            hdrs.append(("Content-Encoding", "gzip"))
        raw = http_response(status, hdrs, body, chunked=chunked, version=version, content_length=content_length)
        cut = raw.index(b"\r\n\r\n") + 4
        return raw[:cut], raw[cut:]

    def peer_close(self, cidx: int) -> None:
        c = self.kit.conns[cidx]
        if c.open:
            self.rec("peerclose", c=cidx)
            c.close_by_peer()
            self.sync()

    def finish(self) -> dict:
        self.sync()
        self.kit.close()
        return {"cfg": {}, "src": "", "events": self.events}


# ---------------------------------------------------------------- spec -> code
_act = re.compile(r"(\w+)(?:\((.*)\))?$")


def parse_action(label: str) -> tuple:
    m = _act.match(label)
    args: List[Any] = []
    if m and m.group(2):
        for a in m.group(2).split(","):
            a = a.strip().strip('"')
            args.append(True if a == "TRUE" else False if a == "FALSE" else int(a) if a.lstrip("-").isdigit() else a)
    return (m.group(1) if m else label, args)


def replay_behaviour(ctx: Ctx, loop: steploop.StepLoop, beh: List[Any]) -> dict:
    x = ConnExec(loop, limit=1)
    acts = [parse_action(lbl) for lbl, _ in beh[1:]]
    markers: Dict[int, int] = {}
    bodies: Dict[int, bytes] = {}
    i = 0
    while i < len(acts):
        a, args = acts[i]
        ctx.action_cover[a] = ctx.action_cover.get(a, 0) + 1
        if a == "Acquire":
            j = args[0]
            x.request(j, "http://host/p%d" % j, "read")
        elif a == "ReplyHead":
            j = args[0]
            c = x.req_conn.get(j)
            if c is None:
                ctx.drift("replay:no-connection")
                break
            m = x.new_marker()
            head, body = x.response_bytes(m)
            markers[j], bodies[j] = m, body
            x.feed(c, head, m, "head", False)
        elif a == "ReplyBodyEnd":
            j = args[0]
            c = x.req_conn.get(j)
            if c is None or j not in markers:
                ctx.drift("replay:no-connection")
                break
            data = bodies[j]
            # surplus that the model places between the end of the body and the release must
            # reach the protocol in the same read, otherwise the real client has already released
            k = i + 1
            extra: List[tuple] = []
            while k < len(acts) and acts[k][0] not in ("Release", "Abandon", "Acquire"):
                if acts[k][0] == "Surplus" and acts[k][1][0] == j:
                    extra.append((k, acts[k][1][1]))
                k += 1
            x.rec("feed", c=c, ep=x.owner_epoch(x.kit.conns[c]), m=markers[j], part="body", surplus=False)
            for (_k, whole) in extra:
                sm = x.new_marker()
                h, b = x.response_bytes(sm)
                sd = h + b if whole else h[:-6]
                x.rec("feed", c=c, ep=x.owner_epoch(x.kit.conns[c]), m=sm, part="whole" if whole else "frag",
                      surplus=True)
                data += sd
            if x.kit.conns[c].open:
                x.kit.conns[c].feed(data)
            x.sync()
            drop = {kk for kk, _ in extra}
            acts = [acts[q] for q in range(len(acts)) if q not in drop]
        elif a == "Surplus":
            pass  # consumed together with ReplyBodyEnd (or the exchange was already over)
        elif a == "IdleArrival":
            whole = args[0]
            pooled = [c for c in x.kit.conns if c.open and c.owner is None]
            if not pooled:
                ctx.drift("replay:not-pooled")
                break
            sm = x.new_marker()
            h, b = x.response_bytes(sm)
            x.feed(pooled[0].idx, h + b if whole else h[:-6], sm, "whole" if whole else "frag", True)
        elif a == "PeerClose":
            opn = [c for c in x.kit.conns if c.open]
            if opn:
                x.peer_close(opn[0].idx)
        elif a == "Abandon":
            x.cancel(args[0])
        i += 1
    tr = x.finish()
    tr["src"] = "tlc-sim"
    return tr


# ---------------------------------------------------------------- random histories
def random_exec(ctx: Ctx, loop: steploop.StepLoop, rng: Any) -> dict:
    from aiohttp import ClientTimeout

    limit = rng.choice([1, 1, 2, 3])
    skw: Dict[str, Any] = {}
    if rng.random() < 0.3:
        skw["timeout"] = ClientTimeout(total=None, sock_read=5)
    traced = rng.random() < 0.3
    if traced:
        from aiohttp import TraceConfig

        tc = TraceConfig()

        async def _cb(session: Any, c: Any, params: Any) -> None:
            await asyncio.sleep(0)

        for sig in ("on_connection_queued_start", "on_connection_queued_end", "on_connection_create_start",
                    "on_connection_create_end", "on_connection_reuseconn", "on_request_start"):
            getattr(tc, sig).append(_cb)
        skw["trace_configs"] = [tc]
    small_buf = rng.random() < 0.4
    if small_buf:
        skw["read_bufsize"] = rng.choice([16, 64])
    x = ConnExec(loop, limit=limit, session_kw=skw)
    hosts = ["http://a/", "http://a/", "http://a:81/", "https://a/", "http://b/"]
    use_proxy = rng.random() < 0.3
    vary_ssl = rng.random() < 0.3
    proxy_kws = [{}, {"proxy": "http://proxy:3128"}, {"proxy": "http://proxy:3128", "proxy_headers": {"X-Tenant": "one"}},
                 {"proxy": "http://proxy:3128", "proxy_headers": {"X-Tenant": "two"}},
                 {"proxy": "http://alice:pw@proxy:3128"}, {"proxy": "http://bob:pw@proxy:3128"},
                 {"proxy": "http://proxy2:3128"}, {"proxy": "https://sproxy:3129"}, {"proxy": "https://sproxy:3129"}]
    nreq = rng.randint(2, 6)
    j = 0
    inflight: List[int] = []
    for _ in range(rng.randint(4, 22)):
        acts = []
        if j < nreq and len(inflight) < limit + 1:
            acts += ["req"] * 3
        for q in inflight:
            acts += [("reply", q)] * 3
            if rng.random() < 0.15:
                acts.append(("cancel", q))
        pooled = [c for c in x.kit.conns if c.open and c.owner is None]
        if pooled:
            acts += ["idle"] * 2 + ["idleclose"]
        if x.loop.next_timer() is not None and rng.random() < 0.1 and "timeout" in skw:
            acts.append("tick")
        if not acts:
            break
        a = rng.choice(acts)
        if a == "req":
            j += 1
            mode = rng.choice(["read", "read", "read", "unread", "close"])
            rkw: Dict[str, Any] = dict(rng.choice(proxy_kws)) if use_proxy else {}
            if vary_ssl and rng.random() < 0.5:
                rkw["ssl"] = False       # "do not verify": must never share a connection with a verifying request
            url = (rng.choice(["http://a/", "http://a/", "http://b/"]) if rkw.get("proxy") else rng.choice(hosts)) + f"p{j}"
            pooled_now = [c for c in x.kit.conns if c.open and c.owner is None]
            if traced and pooled_now and rng.random() < 0.5:
                # leave the request suspended inside connect() (trace callback) and let the peer
                # push bytes onto the connection that is being re-acquired
                rkw["_partial_steps"] = rng.randint(1, 4)
                x.request(j, url, mode, **rkw)
                c = rng.choice(pooled_now)
                if c.open and c.owner is None:
                    sm = x.new_marker()
                    h, b = x.response_bytes(sm)
                    x.feed(c.idx, h + b if rng.random() < 0.7 else h[:-6], sm, "whole", True)
                x.sync()
            else:
                x.request(j, url, mode, **rkw)
            inflight.append(j)
        elif a == "idle":
            c = rng.choice(pooled)
            sm = x.new_marker()
            h, b = x.response_bytes(sm, chunked=rng.random() < 0.3)
            kind = rng.choice(["whole", "frag", "frag2", "crlf"])
            data = {"whole": h + b, "frag": h[:rng.randint(1, len(h) - 5)], "frag2": h + b[:1], "crlf": b"\r\n"}[kind]
            x.feed(c.idx, data, sm, "whole" if kind == "whole" else "frag", True)
        elif a == "idleclose":
            x.peer_close(rng.choice(pooled).idx)
        elif a == "tick":
            x.loop.advance()
            x.sync()
        elif a[0] == "cancel":
            x.cancel(a[1])
            inflight.remove(a[1])
        elif a[0] == "reply":
            q = a[1]
            if q not in x.req_conn:
                if f"r{q}" in x.kit.tasks and x.kit.tasks[f"r{q}"].done():
                    inflight.remove(q)
                continue
            c = x.req_conn[q]
            if x.kit.tasks[f"r{q}"].done() or not x.kit.conns[c].open:
                inflight.remove(q)
                continue
            m = x.new_marker()
            style = rng.choice(["ok", "ok", "ok", "chunked", "close", "http10", "surplus", "surplusfrag",
                                "truncate", "split", "interim", "upgrade", "peerclose-mid",
                                "eofbody", "eofbody10", "gzipbig", "gzipbig-surplus"]
                               + (["gzipbig-surplus"] * 3 if small_buf else []))
            extra: List[tuple] = []
            ver = "HTTP/1.1"
            if style == "close":
                extra.append(("Connection", "close"))
            if style == "http10":
                ver = "HTTP/1.0"
            if style in ("eofbody", "eofbody10"):
                # no Content-Length / Transfer-Encoding: the body ends when the peer closes, although the
                # peer claims keep-alive; head and body arrive in different reads
                extra.append(("Connection", "keep-alive"))
                if style == "eofbody10":
                    ver = "HTTP/1.0"
            h, b = x.response_bytes(m, extra=extra, chunked=(style == "chunked"), version=ver,
                                    body_len=rng.choice([6, 6, 40]) if not style.startswith("gzipbig") else 600,
                                    gzip_body=style.startswith("gzipbig"),
                                    content_length=style not in ("eofbody", "eofbody10"))
            if style == "interim":
                x.feed(c, b"HTTP/1.1 100 Continue\r\n\r\n", m, "head", False)
            if style == "upgrade":
                x.feed(c, b"HTTP/1.1 101 Switching Protocols\r\nX-Mark: %d\r\nUpgrade: websocket\r\nConnection: upgrade\r\n\r\n" % m,
                       m, "whole", False)
            elif style == "split":
                cut = rng.randint(1, len(h) - 1)
                x.feed(c, h[:cut], m, "head", False)
                x.feed(c, h[cut:], m, "head", False)
                x.feed(c, b, m, "body", False)
            elif style in ("eofbody", "eofbody10"):
                x.feed(c, h, m, "head", False)
                if rng.random() < 0.5 and j < nreq:
                    # another request is issued before the rest of the close-delimited body arrives
                    j += 1
                    x.request(j, "http://a/" + f"p{j}", "read")
                    inflight.append(j)
                if x.kit.conns[c].open:
                    x.feed(c, b, m, "body", False)
                x.peer_close(c)
            elif style == "gzipbig-surplus":
                # the end of a compressed body (inflating pauses at the small read buffer) and a complete
                # surplus response arrive in the same read
                sm = x.new_marker()
                sh, sb = x.response_bytes(sm)
                ep = x.owner_epoch(x.kit.conns[c])
                cut = rng.choice([0, 0, len(h), len(h) + len(b) // 2])
                if cut:
                    x.feed(c, (h + b)[:cut], m, "head", False)
                if x.kit.conns[c].open:
                    x.rec("feed", c=c, ep=x.owner_epoch(x.kit.conns[c]), m=m, part="body" if cut else "whole", surplus=False)
                    x.rec("feed", c=c, ep=x.owner_epoch(x.kit.conns[c]), m=sm, part="whole", surplus=True)
                    x.kit.conns[c].feed((h + b)[cut:] + sh + sb)
                    x.sync()
            elif style == "truncate":
                x.feed(c, h + b[:-2], m, "head", False)
                x.peer_close(c)
            elif style == "peerclose-mid":
                x.feed(c, h[:len(h) // 2], m, "head", False)
                x.peer_close(c)
            elif style in ("surplus", "surplusfrag"):
                sm = x.new_marker()
                sh, sb = x.response_bytes(sm)
                sd = sh + sb if style == "surplus" else sh[:-6]
                ep = x.owner_epoch(x.kit.conns[c])
                x.rec("feed", c=c, ep=ep, m=m, part="whole", surplus=False)
                x.rec("feed", c=c, ep=ep, m=sm, part="whole" if style == "surplus" else "frag", surplus=True)
                x.kit.conns[c].feed(h + b + sd)
                x.sync()
            else:
                x.feed(c, h + b, m, "whole", False)
            if x.kit.tasks[f"r{q}"].done():
                inflight.remove(q)
    tr = x.finish()
    tr["src"] = "random"
    return tr


# ---------------------------------------------------------------- check
CFG = """SPECIFICATION Spec
CONSTANTS
  NReq = {n}
  MaxPeer = {mp}
  IdleGuard = {ig}
  PartialGuard = {pg}
INVARIANT NoMix
INVARIANT RightMessage
INVARIANT {reuse}
CHECK_DEADLOCK FALSE
"""


def write_cfg(n: int, mp: int, ig: bool, pg: bool) -> str:
    d = mktemp("c06cfg")
    p = os.path.join(d, "ClientConn.cfg")
    with open(p, "w") as f:
        f.write(CFG.format(n=n, mp=mp, ig=str(ig).upper(), pg=str(pg).upper(),
                           reuse="NoReuseAfterDirty" if pg else "NoReuseAfterDirtyButPartial"))
    return p


def judge(ctx: Ctx, traces: List[dict], label: str) -> None:
    if not traces:
        return
    verdicts, res = validate_batch("ClientConnTrace", "ClientConnTrace.cfg", traces)
    ctx.add_trace_batch(len(traces), res)
    for t, v in zip(traces, verdicts):
        key = json.dumps([[e["ev"], e["j"], e["c"], e["part"], e["surplus"], e["how"]] for e in t["events"]])
        if len(t["events"]) >= 4:
            ctx.distinct.add(hash(key))
        if not v.ok:
            if v.clause == "UnknownMarker":
                raise MachineryError(f"harness lost track of a marker: {t['events'][v.pos]}")
            ev = t["events"][v.pos]
            hist = [f"{e['ev']}:{e['part'] or e['how'] or e['j']}" for e in t["events"][max(0, v.pos - 4):v.pos + 1]]
            ctx.violation(v.clause, f"{v.clause} after " + ",".join(hist),
                          {"trace": t, "failed_at": v.pos, "label": label}, "trace")
    ctx.sample({"src": traces[0]["src"],
                "events": [{k: e[k] for k in ("ev", "j", "c", "ep", "m", "part", "surplus", "how")}
                           for e in traces[0]["events"][:12]]})


def run(ctx: Ctx) -> None:
    ctx.rule = ("executions = TLC-simulated behaviours of ClientConn replayed into a real ClientSession against "
                "a scripted peer + seeded random histories (several keys, truncated bodies, close, cancel, "
                "timeouts, surplus and idle data); distinct = different event sequences of >= 4 events")
    ctx.assumptions = [
        "arrival = the moment the in-memory transport hands bytes to ResponseHandler.data_received",
        "bytes that arrive on a fresh connection after it was handed to its first request count as inside that exchange",
        "no TLS, proxies or real sockets: the connector is a BaseConnector subclass",
    ]
    loop = steploop.new_loop()
    # ---- 1. model: repaired/ideal and as-coded
    for (n, mp) in ctx.pick([(3, 2)], [(3, 2), (4, 3)]):
        res = run_tlc("ClientConn", write_cfg(n, mp, True, True), workers=16, timeout=300, deadlock=False)
        ctx.expect_model_ok(f"ClientConn[ideal](NReq={n},MaxPeer={mp})", res)
        res = run_tlc("ClientConn", write_cfg(n, mp, True, False), workers=16, timeout=300, deadlock=False)
        ctx.expect_model_ok(f"ClientConn[as-coded](NReq={n},MaxPeer={mp})", res)
        ctx.log(f"model NReq={n} MaxPeer={mp}: {res.distinct} distinct states")
    # as-coded with the full reuse invariant: TLC exhibits the known deviation
    res = run_tlc("ClientConn", write_cfg(3, 2, True, True).replace("ClientConn.cfg", "ClientConn.cfg"), workers=4,
                  timeout=120, deadlock=False)
    d = mktemp("c06dev")
    p = os.path.join(d, "dev.cfg")
    open(p, "w").write(CFG.format(n=3, mp=2, ig="TRUE", pg="FALSE", reuse="NoReuseAfterDirty"))
    res = run_tlc("ClientConn", p, workers=4, timeout=120, deadlock=False)
    from engine import tlc as _t
    _t.require_clean(res, "ClientConn[as-coded, full reuse invariant]")
    ctx.add_model("ClientConn[as-coded, full NoReuseAfterDirty]", res, exhaustive=False)
    if res.violated == "NoReuseAfterDirty":
        ctx.violation("ReuseAfterPartialSurplus", "model: " + " ".join(a for a, _ in res.trace),
                      {"trace": res.trace}, "model")
    elif res.violated:
        ctx.violation(f"model:{res.violated}", "as-coded model", {"trace": res.trace}, "model")
    # ---- 2. spec -> code
    traces: List[dict] = []
    from engine.tlc import cover_behaviours
    n, mp = ctx.pick((3, 2), (4, 3))
    behs, cres = cover_behaviours("ClientConn", write_cfg(n, mp, True, False), timeout=600)
    ctx.extra["transition_cover"] = {"model": f"ClientConn(NReq={n},MaxPeer={mp})", "paths": len(behs),
                                     "edges_traversed": sum(len(b) - 1 for b in behs), "states": cres.distinct}
    sims, _ = simulate_behaviours("ClientConn", write_cfg(5, 4, True, False), num=ctx.pick(200, 2000),
                                  depth=30, seed=ctx.seed, timeout=300)
    for b in behs + sims:
        traces.append(replay_behaviour(ctx, loop, b))
    ctx.log(f"replayed {len(behs)} transition-cover paths + {len(sims)} simulated behaviours; actions: {dict(ctx.action_cover)}")
    judge(ctx, traces, "tlc-sim")
    # ---- 3. random histories
    batch: List[dict] = []
    for _ in range(ctx.pick(1500, 20000)):
        batch.append(random_exec(ctx, loop, ctx.rng))
        if len(batch) >= 2500:
            judge(ctx, batch, "random")
            batch = []
    judge(ctx, batch, "random")
    ctx.evaluations = ctx.traces
    ctx.extra["replay_action_counts"] = dict(ctx.action_cover)
    loop.uninstall()


def selftest(ctx: Ctx) -> int:
    loop = steploop.new_loop()
    res = run_tlc("ClientConn", write_cfg(3, 2, False, False), workers=8, timeout=120, deadlock=False)
    ok1 = res.violated in ("NoMix", "RightMessage", "NoReuseAfterDirtyButPartial")
    print("mutant model (IdleGuard=FALSE):", res.violated)
    x = ConnExec(loop, limit=1)
    x.request(1, "http://a/1", "read")
    m = x.new_marker()
    h, b = x.response_bytes(m)
    x.feed(0, h + b, m, "whole", False)
    x.request(2, "http://a/2", "read")
    m2 = x.new_marker()
    h, b = x.response_bytes(m2)
    x.feed(0, h + b, m2, "whole", False)
    good = x.finish()
    import copy
    bad = copy.deepcopy(good)
    for e in bad["events"]:
        if e["ev"] == "feed" and e["m"] == m2:
            e["ep"] = 0           # pretend the second response arrived while the connection was idle
    bad2 = copy.deepcopy(good)
    for e in bad2["events"]:
        if e["ev"] == "end" and e["j"] == 1:
            e["how"] = "cancel"   # pretend exchange 1 was cancelled: reuse must be flagged
    vs, _ = validate_batch("ClientConnTrace", "ClientConnTrace.cfg", [good, bad, bad2])
    print([(v.ok, v.clause, v.pos) for v in vs])
    ok2 = vs[0].ok and vs[1].clause == "MixIdleData" and vs[2].clause == "ReuseAfterCancel"
    print("selftest", "passed" if ok1 and ok2 else "FAILED")
    return 0 if ok1 and ok2 else 2


def replay(ctx: Ctx, path: str) -> int:
    payload = json.load(open(path))
    t = payload["detail"].get("trace")
    if not isinstance(t, dict) or "events" not in t:
        print("replay: model counterexample; re-run the check to reproduce")
        return 0
    vs, _ = validate_batch("ClientConnTrace", "ClientConnTrace.cfg", [t])
    v = vs[0]
    print(f"replay (recorded events re-validated): ok={v.ok} clause={v.clause!r} pos={v.pos}/{v.total}")
    for e in t["events"][:v.pos + 1]:
        print("  ", {k: e[k] for k in ("ev", "j", "c", "ep", "m", "part", "surplus", "how")})
    if not v.ok:
        print(f"VIOLATION property=C06 replay={path}")
        return 1
    return 0
